(* Proofs about the bus side of the handshake (Model/AuthServer.v) against the
   DBus specification's server state machine (Spec/AuthSpec.v).
   Part A: safety for arbitrary mechanisms (any world, any step/cancel functions).
   Part B: with scripted mechanisms the model is the specification.
   Part C: the closing rules.
   Part D: the concrete mechanisms (cookie check, acceptance in closed loop). *)
From Tx Require Import Lib.Base Lib.Sexp Model.AuthText Model.AuthServer Spec.AuthSpec.
Local Open Scope N_scope.

(* ------------------------------------------------------------------------- *)
(* Part A                                                                     *)

Definition error_only (o : list out) : Prop :=
  exists e, o = [OLine e] /\ parse_reply e = RError.

Section Generic.
  Context {M : Type}.
  Variable F : fixes.
  Variable I : mech_if M.
  Variable mechs : list bytes.
  Variable guid : bytes.

  Notation reject := (reject I mechs).
  Notation step_auth := (step_auth F I mechs guid).
  Notation handle := (handle F I mechs guid).
  Notation feed := (feed F I mechs guid).
  Notation feed_all := (feed_all F I mechs guid).
  Notation line_trace := (line_trace F I mechs guid).

  Definition cur_ok (a : auth M) : Prop := forall n, a_cur a = Some n -> In n mechs.

  Definition accept_evs (evs : list ev) : Prop :=
    exists m, In m mechs /\ evs = [EMech m VOk; ELine (sp w_OK guid)].

  Definition err_evs (evs : list ev) : Prop :=
    exists e, evs = [ELine e] /\ parse_reply e = RError.

  Lemma reject_normal a a' evs :
    reject a = (a', evs, XNormal) ->
    a_state a' = WaitingForAuth /\ a_cur a' = None /\ a_authd a' = a_authd a /\
    a_rejects a' = S (a_rejects a) /\ evs = [ELine (reject_msg mechs)] /\
    Nat.ltb MAX_REJECTS (S (a_rejects a)) = false.
  Proof.
    unfold AuthServer.reject. intros H.
    destruct (match a_cur a with Some _ => m_cancel I (a_world a) | None => (false, a_world a) end)
      as [crashed w].
    destruct crashed; [discriminate|].
    destruct (Nat.ltb MAX_REJECTS (S (a_rejects a))) eqn:E; [discriminate|].
    inversion H; subst; cbn. repeat split; reflexivity.
  Qed.

  Lemma step_auth_normal a resp a' evs :
    step_auth a resp = (a', evs, XNormal) -> cur_ok a ->
    cur_ok a' /\ a_authd a' = a_authd a /\
    (a_state a' = WaitingForBegin ->
       (a_state a = WaitingForBegin /\ err_evs evs) \/ accept_evs evs).
  Proof.
    unfold AuthServer.step_auth. intros H Hc.
    destruct (a_cur a) as [name|] eqn:Ecur.
    2:{ apply reject_normal in H as (Hs & Hcu & Ha & _ & _ & _).
        split; [intros n Hn; congruence|]. split; [exact Ha|]. intros Hb; congruence. }
    destruct (decode_response F resp) as [as_str arg| |].
    - destruct (m_step I as_str arg (a_world a)) as [v w].
      destruct v as [|is_str chal|].
      + inversion H; subst; cbn. split; [intros n Hn; apply Hc; exact Hn|]. split; [reflexivity|].
        intros _. right. exists name. split; [apply Hc; exact Ecur|reflexivity].
      + destruct (is_str && (negb (fx09 F) || nonempty chal)); [discriminate|].
        inversion H; subst; cbn. split; [intros n Hn; apply Hc; exact Hn|]. split; [reflexivity|].
        intros Hb; discriminate.
      + destruct (reject (set_world a w)) as [[a2 evs2] x2] eqn:Er.
        inversion H; subst.
        apply reject_normal in Er as (Hs & Hcu & Ha & _ & _ & _).
        split; [intros n Hn; congruence|]. split; [exact Ha|]. intros Hb; congruence.
    - inversion H; subst. split; [exact Hc|]. split; [reflexivity|].
      intros Hb. left. split; [exact Hb|]. exists l_ERROR_hex. split; reflexivity.
    - discriminate.
  Qed.

  Lemma existsb_str_In m : existsb (str_eqb m) mechs = true -> In m mechs.
  Proof.
    intros H. apply existsb_exists in H as (x & Hx & E).
    apply str_eqb_spec in E. subst. exact Hx.
  Qed.

  (* everything the safety argument needs to know about one handled line *)
  Lemma handle_normal a line a' evs :
    handle a line = (a', evs, XNormal) -> cur_ok a -> a_authd a = false ->
    cur_ok a' /\
    (a_authd a' = true ->
       a_state a = WaitingForBegin /\ evs = [] /\ fst (cut_space line) = w_BEGIN) /\
    (a_authd a' = false -> a_state a' = WaitingForBegin ->
       (a_state a = WaitingForBegin /\ err_evs evs) \/ accept_evs evs).
  Proof.
    unfold AuthServer.handle. intros H Hc Hau.
    destruct (cut_space line) as [cmd rest] eqn:Ecut. cbn [fst].
    destruct (negb (all_ascii cmd)); [discriminate|].
    assert (Hsend : forall e, parse_reply e = RError ->
              (a, [ELine e], XNormal) = (a', evs, XNormal) ->
              cur_ok a' /\
              (a_authd a' = true -> a_state a = WaitingForBegin /\ evs = [] /\ cmd = w_BEGIN) /\
              (a_authd a' = false -> a_state a' = WaitingForBegin ->
                 (a_state a = WaitingForBegin /\ err_evs evs) \/ accept_evs evs)).
    { intros e He E. inversion E; subst. split; [exact Hc|]. split; [intros; congruence|].
      intros _ Hb. left. split; [exact Hb|]. exists e. split; [reflexivity|exact He]. }
    assert (Hrej : reject a = (a', evs, XNormal) ->
              cur_ok a' /\
              (a_authd a' = true -> a_state a = WaitingForBegin /\ evs = [] /\ cmd = w_BEGIN) /\
              (a_authd a' = false -> a_state a' = WaitingForBegin ->
                 (a_state a = WaitingForBegin /\ err_evs evs) \/ accept_evs evs)).
    { intros E. apply reject_normal in E as (Hs & Hcu & Ha & _ & _ & _).
      split; [intros n Hn; congruence|]. split; [intros; congruence|]. intros; congruence. }
    destruct (str_eqb cmd w_AUTH) eqn:E1.
    { unfold auth_AUTH in H. destruct (a_state a) eqn:Est.
      - destruct (split_ws _) as [|mech rest'].
        + apply Hrej; exact H.
        + destruct (existsb (str_eqb mech) mechs) eqn:Eoff.
          * apply step_auth_normal in H as (Hc' & Ha' & Hb').
            -- cbn in Ha'. split; [exact Hc'|]. split; [intros; congruence|].
               intros _ Hb. destruct (Hb' Hb) as [[Hx _]|Hx]; [cbn in Hx; discriminate|right; exact Hx].
            -- intros n Hn. cbn in Hn. inversion Hn; subst. apply existsb_str_In; exact Eoff.
          * apply Hrej; exact H.
      - apply (Hsend l_ERROR); [reflexivity|exact H].
      - apply (Hsend l_ERROR); [reflexivity|exact H]. }
    destruct (str_eqb cmd w_DATA) eqn:E2.
    { unfold auth_DATA in H. destruct (a_state a) eqn:Est.
      - apply (Hsend l_ERROR); [reflexivity|exact H].
      - apply step_auth_normal in H as (Hc' & Ha' & Hb'); [|exact Hc].
        split; [exact Hc'|]. split; [intros; congruence|].
        intros _ Hb. destruct (Hb' Hb) as [[Hx _]|Hx]; [congruence|right; exact Hx].
      - apply (Hsend l_ERROR); [reflexivity|exact H]. }
    destruct (str_eqb cmd w_BEGIN) eqn:E3.
    { unfold auth_BEGIN in H. apply str_eqb_spec in E3.
      destruct (a_state a) eqn:Est; try discriminate.
      inversion H; subst; cbn. split; [intros n Hn; discriminate|].
      split; [intros _; repeat split; reflexivity|]. intros; discriminate. }
    destruct (str_eqb cmd w_CANCEL) eqn:E4.
    { unfold auth_CANCEL in H. destruct (a_state a) eqn:Est.
      - apply (Hsend l_ERROR); [reflexivity|exact H].
      - apply Hrej; exact H.
      - apply Hrej; exact H. }
    destruct (str_eqb cmd w_ERROR) eqn:E5.
    { apply Hrej; exact H. }
    destruct (str_eqb cmd w_NEGOTIATE_UNIX_FD) eqn:E6.
    { apply (Hsend l_ERROR); [reflexivity|exact H]. }
    apply (Hsend l_ERROR_unknown); [reflexivity|exact H].
  Qed.

  (* ----- the connection level ----------------------------------------------- *)
  Definition cinv (c : conn) : Prop :=
    c_mode c = Live -> a_authd (c_auth c) = false /\ cur_ok (c_auth c).

  Lemma feed_not_live c l : c_mode c <> Live -> feed c l = (c, []).
  Proof. unfold AuthServer.feed. destruct (c_mode c); congruence. Qed.

  Lemma map_ev_out_nil evs : map ev_out evs = [] -> evs = [].
  Proof. destruct evs; [reflexivity|discriminate]. Qed.

  Lemma no_authd_in_evs evs : ~ In OAuthd (map ev_out evs).
  Proof. induction evs as [|e r IH]; cbn; [tauto|]. intros [H|H]; [destruct e; discriminate|tauto]. Qed.

  Lemma err_evs_out evs : err_evs evs -> error_only (map ev_out evs).
  Proof. intros (e & -> & He). exists e. split; [reflexivity|exact He]. Qed.

  Lemma accept_evs_out evs : accept_evs evs ->
    exists m, In m mechs /\ map ev_out evs = [OMech m VOk; OLine (sp w_OK guid)].
  Proof. intros (m & Hm & ->). exists m. split; [exact Hm|reflexivity]. Qed.

  (* one line, seen from the connection *)
  Lemma feed_step c l c' o :
    feed c l = (c', o) -> c_mode c = Live -> cinv c ->
    cinv c' /\
    (In OAuthd o -> a_state (c_auth c) = WaitingForBegin /\ o = [OAuthd] /\ fst (cut_space l) = w_BEGIN) /\
    (c_mode c' = Live -> a_state (c_auth c') = WaitingForBegin ->
       (a_state (c_auth c) = WaitingForBegin /\ error_only o) \/
       (exists m, In m mechs /\ o = [OMech m VOk; OLine (sp w_OK guid)])).
  Proof.
    unfold AuthServer.feed. intros H Hl Hi. rewrite Hl in H.
    destruct (Hi Hl) as [Hau Hc].
    destruct (MAX_AUTH <? N.of_nat (length l)).
    { inversion H; subst. split; [intros X; discriminate|]. split; [intros [X|[]]; discriminate|].
      intros X; discriminate. }
    destruct (handle (c_auth c) l) as [[a evs] x] eqn:Eh.
    destruct x.
    - pose proof (handle_normal _ _ _ _ Eh Hc Hau) as (Hc' & Hbeg & Hwfb).
      destruct (a_authd a) eqn:Ea.
      + inversion H; subst. destruct (Hbeg eq_refl) as (Hs & -> & Hb). cbn.
        split; [intros X; discriminate|]. split; [intros _; repeat split; assumption|].
        intros X; discriminate.
      + inversion H; subst. split; [intros _; split; assumption|].
        split; [intros X; apply no_authd_in_evs in X; destruct X|].
        intros _ Hb. cbn in Hb. destruct (Hwfb eq_refl Hb) as [[Hs He]|Ha].
        * left. split; [exact Hs|apply err_evs_out; exact He].
        * right. apply accept_evs_out; exact Ha.
    - inversion H; subst. split; [intros X; discriminate|].
      split; [|intros X; discriminate].
      intros X. apply in_app_or in X as [X|[X|[]]]; [apply no_authd_in_evs in X; destruct X|discriminate].
    - inversion H; subst. split; [intros X; discriminate|].
      split; [|intros X; discriminate].
      intros X. apply in_app_or in X as [X|[X|[]]]; [apply no_authd_in_evs in X; destruct X|discriminate].
  Qed.

  Lemma trace_outputs c lines :
    snd (feed_all c lines) = concat (map snd (line_trace c lines)).
  Proof.
    revert c; induction lines as [|l r IH]; intros c; cbn; [reflexivity|].
    destruct (feed c l) as [c1 o1]. specialize (IH c1).
    destruct (feed_all c1 r) as [c2 o2]. cbn in *. rewrite IH. reflexivity.
  Qed.

  Lemma trace_not_live c lines : c_mode c <> Live ->
    forall x, In x (line_trace c lines) -> snd x = [].
  Proof.
    revert c; induction lines as [|l r IH]; intros c Hm x Hx; cbn in Hx; [destruct Hx|].
    rewrite (feed_not_live _ _ Hm) in Hx. destruct Hx as [<-|Hx]; [reflexivity|].
    apply (IH c Hm); exact Hx.
  Qed.

  Definition begin_line (l : bytes) : Prop := fst (cut_space l) = w_BEGIN.

  (* a trace in which OAuthd occurs at position j, preceded by ERROR replies only *)
  Definition begins_at (t : list (bytes * list out)) (j : nat) : Prop :=
    (exists lj, nth_error t j = Some (lj, [OAuthd]) /\ begin_line lj) /\
    (forall k lk ok, (k < j)%nat -> nth_error t k = Some (lk, ok) -> error_only ok).

  Definition accepted_at (t : list (bytes * list out)) (i j : nat) : Prop :=
    (i < j)%nat /\
    (exists li m, In m mechs /\ nth_error t i = Some (li, [OMech m VOk; OLine (sp w_OK guid)])) /\
    (exists lj, nth_error t j = Some (lj, [OAuthd]) /\ begin_line lj) /\
    (forall k lk ok, (i < k < j)%nat -> nth_error t k = Some (lk, ok) -> error_only ok).

  Lemma safety_gen lines : forall c,
    c_mode c = Live -> cinv c ->
    In OAuthd (concat (map snd (line_trace c lines))) ->
    (a_state (c_auth c) = WaitingForBegin /\ exists j, begins_at (line_trace c lines) j) \/
    (exists i j, accepted_at (line_trace c lines) i j).
  Proof.
    induction lines as [|l r IH]; intros c Hl Hi Hin; cbn in Hin; [destruct Hin|].
    cbn [AuthServer.line_trace] in *.
    destruct (feed c l) as [c1 o1] eqn:Ef. cbn in Hin.
    pose proof (feed_step _ _ _ _ Ef Hl Hi) as (Hi1 & Hau & Hwfb).
    apply in_app_or in Hin as [Hin|Hin].
    - (* this very line *)
      destruct (Hau Hin) as (Hs & -> & Hb). left. split; [exact Hs|]. exists O. split.
      + exists l. split; [reflexivity|exact Hb].
      + intros k lk ok Hk; inversion Hk.
    - destruct (c_mode c1) eqn:Em1.
      2,3,4: exfalso; apply in_concat in Hin as (x & Hx & Hox);
             apply in_map_iff in Hx as (y & <- & Hy);
             rewrite (trace_not_live c1 r) in Hox; [destruct Hox|congruence|exact Hy].
      destruct (IH c1 Em1 Hi1 Hin) as [[Hs1 (j & (lj & Hj & Hb) & Hq)]|(i & j & Hlt & (li & m & Hm & Hi') & Hj & Hq)].
      + destruct (Hwfb eq_refl Hs1) as [[Hs He]|(m & Hm & ->)].
        * left. split; [exact Hs|]. exists (S j). split.
          -- exists lj. split; [exact Hj|exact Hb].
          -- intros k lk ok Hk Hn. destruct k as [|k]; cbn in Hn.
             ++ inversion Hn; subst. exact He.
             ++ apply (Hq k lk ok); [apply Nat.succ_lt_mono; exact Hk|exact Hn].
        * right. exists O, (S j). split; [apply Nat.lt_0_succ|]. split.
          -- exists l, m. split; [exact Hm|reflexivity].
          -- split; [exists lj; split; [exact Hj|exact Hb]|].
             intros k lk ok [Hk1 Hk2] Hn. destruct k as [|k]; [inversion Hk1|]. cbn in Hn.
             apply (Hq k lk ok); [apply Nat.succ_lt_mono; exact Hk2|exact Hn].
      + right. exists (S i), (S j). split; [apply -> Nat.succ_lt_mono; exact Hlt|]. split.
        -- exists li, m. split; [exact Hm|exact Hi'].
        -- split; [exact Hj|].
           intros k lk ok [Hk1 Hk2] Hn. destruct k as [|k]; [inversion Hk1|]. cbn in Hn.
           apply (Hq k lk ok); [split; apply Nat.succ_lt_mono; assumption|exact Hn].
  Qed.

  Theorem safety (w : M) (lines : list bytes) :
    In OAuthd (run_lines F I mechs guid w lines) ->
    exists i j, accepted_at (line_trace (line_conn w) lines) i j.
  Proof.
    unfold run_lines. rewrite trace_outputs. intros Hin.
    destruct (safety_gen lines (line_conn w)) as [[Hs _]|H].
    - reflexivity.
    - intros _. split; [reflexivity|]. intros n Hn; discriminate.
    - exact Hin.
    - cbn in Hs. discriminate.
    - exact H.
  Qed.
End Generic.

(* ------------------------------------------------------------------------- *)
(* Part B: scripted mechanisms - the model is the specification               *)

Definition abs_out (o : out) : sevent :=
  match o with
  | OLine l => SReply (parse_reply l)
  | OMech n v => SMech n v
  | OClose => SDisconnect
  | OAuthd => SAuthenticatedNow
  | OCrash => SFault
  end.

(* a CONTINUE whose challenge is a non-empty str cannot be hex-encoded *)
Definition well_typed (v : verdict) : Prop :=
  match v with VContinue true (_ :: _) => False | _ => True end.

Definition ascii_command (l : bytes) : Prop := all_ascii (fst (cut_space l)) = true.

Section Oracle.
  Variable mechs : list bytes.
  Variable guid : bytes.

  Notation reject := (reject oracle_if mechs).
  Notation step_auth := (step_auth current oracle_if mechs guid).
  Notation handle := (handle current oracle_if mechs guid).
  Notation feed := (feed current oracle_if mechs guid).
  Notation feed_all := (feed_all current oracle_if mechs guid).
  Notation rejected := (rejected mechs 5%nat).
  Notation consult := (consult mechs guid 5%nat).
  Notation server_step := (server_step mechs guid false 5%nat).
  Notation server_line := (server_line mechs guid false 5%nat 16384).
  Notation server_lines := (server_lines mechs guid false 5%nat 16384).

  Definition abs_ev (e : ev) : sevent := abs_out (ev_out e).

  Definition sstate_of (s : astate) : sstate :=
    match s with
    | WaitingForAuth => SWaitingForAuth
    | WaitingForData => SWaitingForData
    | WaitingForBegin => SWaitingForBegin
    end.

  Definition conf_of (a : auth script) : sconf :=
    {| s_state := sstate_of (a_state a);
       s_mech := match a_state a with WaitingForAuth => None | _ => a_cur a end;
       s_rejections := a_rejects a;
       s_script := a_world a |}.

  Definition ainv (a : auth script) : Prop :=
    a_authd a = false /\ Forall well_typed (a_world a) /\
    (a_state a <> WaitingForAuth -> a_cur a <> None).

  (* result of the model's handler against result of the specification *)
  Definition rsim (r : auth script * list ev * exit) (sr : sconf * list sevent) : Prop :=
    let '(a', evs, x) := r in
    let (s', e) := sr in
    match x with
    | XNormal =>
        if a_authd a' then s_state s' = SAuthenticated /\ e = map abs_ev evs ++ [SAuthenticatedNow]
        else s' = conf_of a' /\ e = map abs_ev evs /\ ainv a'
    | XFailed => s_state s' = SDisconnected /\ e = map abs_ev evs ++ [SDisconnect]
    | XCrashed => False
    end.

  Lemma parse_reject_msg : parse_reply (reject_msg mechs) = RRejected (join_with 32 mechs).
  Proof. reflexivity. Qed.

  Lemma rejected_sim a s :
    a_authd a = false -> Forall well_typed (a_world a) ->
    s_rejections s = a_rejects a -> s_script s = a_world a ->
    rsim (reject a) (rejected s).
  Proof.
    intros Hau Hwt Hr Hs. unfold AuthServer.reject, AuthSpec.rejected, rsim.
    rewrite Hr. change (Nat.ltb MAX_REJECTS (S (a_rejects a))) with (Nat.leb 5 (a_rejects a)).
    match goal with |- context [match ?x with Some _ => _ | None => _ end] => destruct x end;
      cbn [m_cancel oracle_if];
      (destruct (Nat.leb 5 (a_rejects a));
       [ cbn; split; reflexivity
       | cbn; rewrite Hau; split; [unfold conf_of; cbn; rewrite Hs; reflexivity|];
         split; [reflexivity|]; split; [reflexivity|]; split; [exact Hwt|]; intros X; cbn in X; congruence ]).
  Qed.

  Lemma consult_sim a s m arg :
    a_cur a = Some m -> a_authd a = false -> Forall well_typed (a_world a) ->
    s_rejections s = a_rejects a -> s_script s = a_world a ->
    decode_response current arg <> DError -> decode_response current arg <> DCrash ->
    rsim (step_auth a arg) (consult s m).
  Proof.
    intros Hc Hau Hwt Hr Hs Hd1 Hd2. unfold AuthServer.step_auth, AuthSpec.consult. rewrite Hc.
    destruct (decode_response current arg) as [as_str x| |]; [|congruence|congruence].
    rewrite Hs. cbn [m_step oracle_if].
    destruct (a_world a) as [|v rest] eqn:Ew.
    - (* script exhausted: REJECTED *)
      pose proof (rejected_sim (set_world a [])
                    {| s_state := s_state s; s_mech := Some m; s_rejections := s_rejections s; s_script := [] |}) as R.
      cbn in R. specialize (R Hau (Forall_nil _) Hr eq_refl).
      unfold rsim in *.
      destruct (reject (set_world a [])) as [[a2 evs] x2].
      destruct (rejected _) as [s2 e2].
      destruct x2; [| |exact R].
      + destruct (a_authd a2); [destruct R as [R1 ->]; split; [exact R1|reflexivity]|].
        destruct R as (-> & -> & R3). repeat split; try reflexivity; apply R3.
      + destruct R as [R1 ->]. split; [exact R1|reflexivity].
    - inversion Hwt as [|? ? Hv Hrest]; subst.
      destruct v as [|is_str chal|].
      + cbn. rewrite Hau. split; [unfold conf_of; cbn; rewrite Hc, Hr; reflexivity|].
        split; [reflexivity|]. split; [exact Hau|]. split; [exact Hrest|]. cbn. intros _; congruence.
      + assert (E : is_str && (negb (fx09 current) || nonempty chal) = false).
        { destruct is_str; [|reflexivity]. destruct chal; [reflexivity|destruct Hv]. }
        rewrite E. cbn. rewrite Hau. split; [unfold conf_of; cbn; rewrite Hc, Hr; reflexivity|].
        split; [reflexivity|]. split; [exact Hau|]. split; [exact Hrest|]. cbn. intros _; congruence.
      + pose proof (rejected_sim (set_world a rest)
                      {| s_state := s_state s; s_mech := Some m; s_rejections := s_rejections s; s_script := rest |}) as R.
        cbn in R. specialize (R Hau Hrest Hr eq_refl).
        unfold rsim in *.
        destruct (reject (set_world a rest)) as [[a2 evs] x2].
        destruct (rejected _) as [s2 e2].
        destruct x2; [| |exact R].
        * destruct (a_authd a2); [destruct R as [R1 ->]; split; [exact R1|reflexivity]|].
          destruct R as (-> & -> & R3). repeat split; try reflexivity; apply R3.
        * destruct R as [R1 ->]. split; [exact R1|reflexivity].
  Qed.

  Lemma decode_understood r :
    decode_response current (Some r) =
    if understood r then DArg false (Some (match unhex (strip_ws r) with Some b => b | None => [] end))
    else DError.
  Proof.
    unfold decode_response, understood. destruct r as [|c r]; [reflexivity|].
    cbn [nonempty]. destruct (unhex (strip_ws (c :: r))); reflexivity.
  Qed.

  Lemma send_error_sim a e :
    ainv a -> parse_reply e = RError ->
    rsim (a, [ELine e], XNormal) (AuthSpec.send_error (conf_of a)).
  Proof.
    intros Hi He. unfold rsim, AuthSpec.send_error. destruct Hi as (Hau & Hi). rewrite Hau.
    split; [reflexivity|]. split; [cbn; unfold abs_ev; cbn; rewrite He; reflexivity|].
    split; [exact Hau|exact Hi].
  Qed.

  Ltac name_eq :=
    repeat match goal with
           | H : str_eqb ?c ?w = true |- _ => apply str_eqb_spec in H; subst c
           end.

  Lemma handle_sim a line :
    ainv a -> ascii_command line ->
    rsim (handle a line) (server_step (conf_of a) (parse_command line)).
  Proof.
    intros Hi Ha. pose proof Hi as (Hau & Hwt & Hcur).
    unfold AuthServer.handle, parse_command. unfold ascii_command in Ha.
    destruct (cut_space line) as [cmd rest]. cbn [fst] in Ha. rewrite Ha. cbn [negb].
    set (args := match rest with Some r => r | None => [] end).
    destruct (str_eqb cmd w_AUTH) eqn:E1.
    { unfold auth_AUTH, AuthSpec.server_step. cbn [conf_of s_state].
      destruct (a_state a) eqn:Est; cbn [sstate_of].
      - destruct (split_ws args) as [|mech [|r rest']].
        + apply rejected_sim; try assumption; reflexivity.
        + unfold offered. destruct (existsb (str_eqb mech) mechs).
          * apply consult_sim; try assumption; try reflexivity; cbn; congruence.
          * apply rejected_sim; try assumption; reflexivity.
        + unfold offered. destruct (existsb (str_eqb mech) mechs).
          * destruct (understood r) eqn:Eu.
            -- apply consult_sim; try assumption; try reflexivity;
                 rewrite decode_understood, Eu; congruence.
            -- unfold AuthServer.step_auth. cbn [a_cur]. rewrite decode_understood, Eu.
               unfold rsim, AuthSpec.send_error. cbn [a_authd]. rewrite Hau.
               split; [unfold conf_of; cbn; rewrite Est; reflexivity|].
               split; [reflexivity|]. split; [reflexivity|]. split; [exact Hwt|].
               cbn. intros X; congruence.
          * apply rejected_sim; try assumption; reflexivity.
      - destruct (split_ws args) as [|mech [|r rest']];
          (replace (conf_of a) with (conf_of a) by reflexivity);
          apply (send_error_sim a l_ERROR Hi eq_refl).
      - destruct (split_ws args) as [|mech [|r rest']];
          apply (send_error_sim a l_ERROR Hi eq_refl). }
    destruct (str_eqb cmd w_DATA) eqn:E2.
    { name_eq. cbn.
      unfold auth_DATA, AuthSpec.server_step. cbn [conf_of s_state s_mech].
      destruct (a_state a) eqn:Est; cbn [sstate_of].
      - apply (send_error_sim a l_ERROR Hi eq_refl).
      - destruct (a_cur a) as [m|] eqn:Ec; [|exfalso; apply Hcur; congruence].
        destruct (understood args) eqn:Eu.
        + apply consult_sim; try assumption; try reflexivity;
            rewrite decode_understood, Eu; congruence.
        + unfold AuthServer.step_auth. rewrite Ec, decode_understood, Eu.
          apply (send_error_sim a l_ERROR_hex Hi eq_refl).
      - apply (send_error_sim a l_ERROR Hi eq_refl). }
    destruct (str_eqb cmd w_BEGIN) eqn:E3.
    { name_eq. cbn.
      unfold auth_BEGIN, AuthSpec.server_step. cbn [conf_of s_state].
      destruct (a_state a) eqn:Est; cbn [sstate_of].
      - split; reflexivity.
      - split; reflexivity.
      - unfold rsim. cbn. split; reflexivity. }
    destruct (str_eqb cmd w_CANCEL) eqn:E4.
    { name_eq. cbn.
      unfold auth_CANCEL, AuthSpec.server_step. cbn [conf_of s_state].
      destruct (a_state a) eqn:Est; cbn [sstate_of].
      - apply (send_error_sim a l_ERROR Hi eq_refl).
      - apply rejected_sim; try assumption; reflexivity.
      - apply rejected_sim; try assumption; reflexivity. }
    destruct (str_eqb cmd w_ERROR) eqn:E5.
    { name_eq. cbn.
      unfold auth_ERROR, AuthSpec.server_step. cbn [conf_of s_state].
      destruct (a_state a) eqn:Est; cbn [sstate_of];
        apply rejected_sim; try assumption; reflexivity. }
    destruct (str_eqb cmd w_NEGOTIATE_UNIX_FD) eqn:E6.
    { name_eq. cbn.
      unfold auth_NEGOTIATE, AuthSpec.server_step. cbn [conf_of s_state].
      destruct (a_state a) eqn:Est; cbn [sstate_of];
        apply (send_error_sim a l_ERROR Hi eq_refl). }
    (* unknown command *)
    unfold AuthSpec.server_step. cbn [conf_of s_state].
    destruct (a_state a) eqn:Est; cbn [sstate_of];
      apply (send_error_sim a l_ERROR_unknown Hi eq_refl).
  Qed.

  Definition sim (c : conn (M:=list verdict)) (s : sconf) : Prop :=
    match c_mode c with
    | Live => s = conf_of (c_auth c) /\ ainv (c_auth c)
    | Closed => s_state s = SDisconnected
    | Authd => s_state s = SAuthenticated
    | Dead => False
    end.

  Lemma map_abs_evs evs tail :
    map abs_out (map ev_out evs ++ tail) = map abs_ev evs ++ map abs_out tail.
  Proof. rewrite map_app, map_map. reflexivity. Qed.

  Lemma feed_sim c s l :
    sim c s -> ascii_command l ->
    sim (fst (feed c l)) (fst (server_line s l)) /\
    map abs_out (snd (feed c l)) = snd (server_line s l).
  Proof.
    unfold sim at 1. intros Hs Ha. unfold AuthServer.feed, AuthSpec.server_line.
    destruct (c_mode c) eqn:Em.
    - destruct Hs as [-> Hi].
      assert (Est : forall X Y : sconf * list sevent,
                 match s_state (conf_of (c_auth c)) with
                 | SAuthenticated | SDisconnected => X
                 | _ => Y
                 end = Y).
      { intros X Y. unfold conf_of; cbn. destruct (a_state (c_auth c)); reflexivity. }
      rewrite Est. change MAX_AUTH with 16384.
      destruct (16384 <? N.of_nat (length l)).
      + cbn. unfold sim; cbn. split; reflexivity.
      + pose proof (handle_sim _ _ Hi Ha) as R. unfold rsim in R.
        destruct (handle (c_auth c) l) as [[a' evs] x].
        destruct (server_step (conf_of (c_auth c)) (parse_command l)) as [s' e].
        destruct x.
        * destruct (a_authd a') eqn:Ea.
          -- destruct R as [R1 ->]. cbn. unfold sim; cbn. split; [exact R1|]. apply map_abs_evs.
          -- destruct R as (-> & -> & R3). cbn. unfold sim; cbn. split; [split; [reflexivity|exact R3]|].
             rewrite map_map. reflexivity.
        * destruct R as [R1 ->]. cbn. unfold sim; cbn. split; [exact R1|]. apply map_abs_evs.
        * destruct R.
    - rewrite Hs. cbn. unfold sim. rewrite Em. split; [exact Hs|reflexivity].
    - rewrite Hs. cbn. unfold sim. rewrite Em. split; [exact Hs|reflexivity].
    - destruct Hs.
  Qed.

  Lemma feed_all_sim lines : forall c s,
    sim c s -> Forall ascii_command lines ->
    map abs_out (snd (feed_all c lines)) = snd (server_lines s lines).
  Proof.
    induction lines as [|l r IH]; intros c s Hs Ha; [reflexivity|].
    inversion Ha as [|? ? Hl Hr]; subst. cbn.
    pose proof (feed_sim c s l Hs Hl) as [H1 H2].
    destruct (feed c l) as [c1 o1]. destruct (server_line s l) as [s1 e1]. cbn in H1, H2.
    specialize (IH c1 s1 H1 Hr).
    destruct (feed_all c1 r) as [c2 o2]. destruct (server_lines s1 r) as [s2 e2]. cbn in *.
    rewrite map_app, H2, IH. reflexivity.
  Qed.

  Lemma feed_all_sim_state lines : forall c s,
    sim c s -> Forall ascii_command lines ->
    sim (fst (feed_all c lines)) (fst (server_lines s lines)).
  Proof.
    induction lines as [|l r IH]; intros c s Hs Ha; [exact Hs|].
    inversion Ha as [|? ? Hl Hr]; subst. cbn.
    pose proof (feed_sim c s l Hs Hl) as [H1 _].
    destruct (feed c l) as [c1 o1]. destruct (server_line s l) as [s1 e1]. cbn in H1.
    specialize (IH c1 s1 H1 Hr).
    destruct (feed_all c1 r) as [c2 o2]. destruct (server_lines s1 r) as [s2 e2]. exact IH.
  Qed.

  (* the whole byte stream of a connection delivered in one read *)
  Theorem follows_spec_stream (sc : list verdict) (stream : bytes) :
    stream <> [] -> Forall well_typed sc ->
    Forall ascii_command (removelast (split_crlf (tl stream))) ->
    map abs_out (run_reads current oracle_if mechs guid sc [stream]) =
    spec_stream mechs guid false 5%nat 16384 sc stream.
  Proof.
    intros Hne Hw Ha. destruct stream as [|b rest]; [congruence|]. cbn [tl] in Ha.
    unfold run_reads, spec_stream. cbn [recv_all]. unfold AuthServer.recv. cbn [c_mode c_first init_conn].
    destruct (b =? 0).
    2:{ reflexivity. }
    unfold AuthServer.process, init_conn. cbn [c_buf c_mode c_first c_auth app].
    set (ls := split_crlf rest) in *.
    set (c1 := {| c_mode := Live; c_first := false; c_buf := last ls []; c_auth := init_auth sc |}).
    assert (Hs : sim c1 (server_init sc)).
    { unfold sim; cbn. split; [reflexivity|]. split; [reflexivity|]. split; [exact Hw|].
      cbn. intros X; exfalso; apply X; reflexivity. }
    pose proof (feed_all_sim (removelast ls) c1 (server_init sc) Hs Ha) as Ho.
    pose proof (feed_all_sim_state (removelast ls) c1 (server_init sc) Hs Ha) as Hst.
    assert (Hbuf : forall c, c_buf (fst (feed_all c (removelast ls))) = c_buf c).
    { generalize (removelast ls). intros lines. induction lines as [|l r IH]; intros c; [reflexivity|].
      cbn. destruct (feed c l) as [c' o'] eqn:Ef. specialize (IH c').
      destruct (feed_all c' r) as [c2 o2]. cbn in *. rewrite IH.
      unfold AuthServer.feed in Ef. destruct (c_mode c); try (inversion Ef; reflexivity).
      destruct (MAX_AUTH <? _); [inversion Ef; reflexivity|].
      destruct (handle (c_auth c) l) as [[a evs] x]. destruct x; [destruct (a_authd a)| |]; inversion Ef; reflexivity. }
    specialize (Hbuf c1).
    destruct (feed_all c1 (removelast ls)) as [c2 outs].
    destruct (server_lines (server_init sc) (removelast ls)) as [s2 evs]. cbn [fst snd] in *.
    unfold sim in Hst. rewrite Hbuf. cbn [c_buf c1].
    change (buf_limit current) with 16385. change (16384 + 1) with 16385.
    destruct (c_mode c2) eqn:Em.
    - destruct Hst as [-> _]. unfold conf_of; cbn [s_state].
      destruct (a_state (c_auth c2)); cbn [sstate_of];
        (destruct (16385 <? N.of_nat (length (last ls []))); cbn [snd];
         rewrite ?app_nil_r, ?map_app, Ho; reflexivity).
    - rewrite Hst. cbn [snd]. rewrite app_nil_r. exact Ho.
    - rewrite Hst. cbn [snd]. rewrite app_nil_r. exact Ho.
    - destruct Hst.
  Qed.

  Theorem follows_spec (sc : list verdict) (lines : list bytes) :
    Forall well_typed sc -> Forall ascii_command lines ->
    map abs_out (run_lines current oracle_if mechs guid sc lines) =
    spec_lines mechs guid false 5%nat 16384 sc lines.
  Proof.
    intros Hw Ha. unfold run_lines, spec_lines. apply feed_all_sim; [|exact Ha].
    unfold sim; cbn. split; [reflexivity|]. split; [reflexivity|]. split; [exact Hw|].
    cbn. intros X; exfalso; apply X; reflexivity.
  Qed.
End Oracle.

(* ------------------------------------------------------------------------- *)
(* Part C: the closing rules, for arbitrary mechanisms                        *)

Definition is_rejected (o : out) : bool :=
  match o with OLine l => starts_with w_REJECTED l | _ => false end.

Definition count_rejected (o : list out) : nat := length (filter is_rejected o).

Lemma count_rejected_app a b : count_rejected (a ++ b) = (count_rejected a + count_rejected b)%nat.
Proof. unfold count_rejected. rewrite filter_app, app_length. reflexivity. Qed.

Lemma close_is_last_aux (x : out) o' : ~ In x o' ->
  forall a b, a ++ x :: b = o' ++ [x] -> b = [].
Proof.
  induction o' as [|y o' IH]; intros Hn a b E.
  - destruct a as [|z a]; cbn in E.
    + inversion E; reflexivity.
    + inversion E as [[E1 E2]]. destruct a; discriminate.
  - destruct a as [|z a]; cbn in E.
    + inversion E; subst. exfalso; apply Hn; left; reflexivity.
    + inversion E; subst. apply (IH (fun H => Hn (or_intror H)) a b). assumption.
Qed.

Lemma app_split_notin (x : out) o1 : ~ In x o1 ->
  forall a b o2, a ++ x :: b = o1 ++ o2 -> exists a', a = o1 ++ a' /\ a' ++ x :: b = o2.
Proof.
  induction o1 as [|y o1 IH]; intros Hn a b o2 E.
  - exists a. split; [reflexivity|exact E].
  - destruct a as [|z a]; cbn in E.
    + inversion E; subst. exfalso; apply Hn; left; reflexivity.
    + inversion E; subst.
      destruct (IH (fun H => Hn (or_intror H)) a b o2) as (a' & -> & E'); [assumption|].
      exists a'. split; [reflexivity|exact E'].
Qed.

Section Closes.
  Context {M : Type}.
  Variable F : fixes.
  Variable I : mech_if M.
  Variable mechs : list bytes.
  Variable guid : bytes.

  Notation reject := (reject I mechs).
  Notation step_auth := (step_auth F I mechs guid).
  Notation handle := (handle F I mechs guid).
  Notation feed := (feed F I mechs guid).
  Notation feed_all := (feed_all F I mechs guid).
  Notation recv := (recv F I mechs guid).
  Notation process := (process F I mechs guid).

  Definition closed_conn (c : conn) (a : auth M) : conn := with_mode c Closed a.

  Lemma begin_out_of_turn c l :
    c_mode c = Live -> a_state (c_auth c) <> WaitingForBegin ->
    fst (cut_space l) = w_BEGIN ->
    feed c l = (closed_conn c (c_auth c), [OClose]).
  Proof.
    intros Hl Hs Hb. unfold AuthServer.feed. rewrite Hl.
    destruct (MAX_AUTH <? N.of_nat (length l)); [reflexivity|].
    unfold AuthServer.handle. destruct (cut_space l) as [cmd rest]. cbn in Hb. subst cmd. cbn.
    unfold auth_BEGIN. destruct (a_state (c_auth c)); try reflexivity. congruence.
  Qed.

  Lemma first_byte_not_nul (w : M) b d :
    b <> 0 -> recv (init_conn w) (b :: d) = (closed_conn (init_conn w) (init_auth w), [OClose]).
  Proof.
    intros Hb. unfold AuthServer.recv. cbn. apply N.eqb_neq in Hb. rewrite Hb. reflexivity.
  Qed.

  Lemma long_line c l :
    c_mode c = Live -> MAX_AUTH < N.of_nat (length l) ->
    feed c l = (closed_conn c (c_auth c), [OClose]).
  Proof.
    intros Hl Hn. unfold AuthServer.feed. rewrite Hl. apply N.ltb_lt in Hn. rewrite Hn. reflexivity.
  Qed.

  Lemma long_unfinished_line c d x :
    c_mode c = Live -> c_first c = false -> split_crlf (c_buf c ++ d) = [x] ->
    buf_limit F < N.of_nat (length x) ->
    snd (recv c d) = [OClose] /\ c_mode (fst (recv c d)) = Closed.
  Proof.
    intros Hl Hf Hs Hn. unfold AuthServer.recv. rewrite Hl, Hf. unfold AuthServer.process.
    rewrite Hs. cbn. rewrite Hl. apply N.ltb_lt in Hn. rewrite Hn. cbn. split; reflexivity.
  Qed.

  (* ... and a remainder within the bound is kept, nothing happens *)
  Lemma short_unfinished_line c d x :
    c_mode c = Live -> c_first c = false -> split_crlf (c_buf c ++ d) = [x] ->
    N.of_nat (length x) <= buf_limit F ->
    snd (recv c d) = [] /\ c_mode (fst (recv c d)) = Live /\ c_buf (fst (recv c d)) = x.
  Proof.
    intros Hl Hf Hs Hn. unfold AuthServer.recv. rewrite Hl, Hf. unfold AuthServer.process.
    rewrite Hs. cbn. rewrite Hl. apply N.ltb_ge in Hn. rewrite Hn. cbn. repeat split; reflexivity.
  Qed.

  Lemma feed_closed c l : c_mode c <> Live -> feed c l = (c, []).
  Proof. unfold AuthServer.feed. destruct (c_mode c); congruence. Qed.

  Lemma recv_closed c d : c_mode c <> Live -> recv c d = (c, []).
  Proof. unfold AuthServer.recv. destruct (c_mode c); congruence. Qed.

  Lemma feed_all_closed lines : forall c, c_mode c <> Live -> feed_all c lines = (c, []).
  Proof.
    induction lines as [|l r IH]; intros c Hc; [reflexivity|]. cbn.
    rewrite (feed_closed _ _ Hc), (IH c Hc). reflexivity.
  Qed.

  Lemma no_close_in_evs evs : ~ In OClose (map ev_out evs).
  Proof. induction evs as [|e r IH]; cbn; [tauto|]. intros [H|H]; [destruct e; discriminate|tauto]. Qed.

  (* a line that closes: Close is the last thing, and the connection is closed *)
  Lemma feed_close c l :
    In OClose (snd (feed c l)) ->
    c_mode (fst (feed c l)) = Closed /\
    exists o', snd (feed c l) = o' ++ [OClose] /\ ~ In OClose o'.
  Proof.
    unfold AuthServer.feed. destruct (c_mode c); cbn; try tauto.
    destruct (MAX_AUTH <? N.of_nat (length l)).
    { cbn. intros _. split; [reflexivity|]. exists []. split; [reflexivity|tauto]. }
    destruct (handle (c_auth c) l) as [[a evs] x]. destruct x.
    - destruct (a_authd a); cbn; intros H.
      + apply in_app_or in H as [H|[H|[]]]; [apply no_close_in_evs in H; destruct H|discriminate].
      + apply no_close_in_evs in H; destruct H.
    - cbn. intros _. split; [reflexivity|]. exists (map ev_out evs). split; [reflexivity|apply no_close_in_evs].
    - cbn. intros H. apply in_app_or in H as [H|[H|[]]]; [apply no_close_in_evs in H; destruct H|discriminate].
  Qed.

  Lemma close_is_last_gen lines : forall c a b,
    snd (feed_all c lines) = a ++ OClose :: b -> b = [].
  Proof.
    induction lines as [|l r IH]; intros c a b E; cbn in E.
    - destruct a; discriminate.
    - pose proof (feed_close c l) as Hc.
      destruct (feed c l) as [c1 o1]. cbn in Hc.
      destruct (feed_all c1 r) as [c2 o2] eqn:Er. cbn in E.
      destruct (in_dec (fun x y : out => ltac:(decide equality; try apply list_eq_dec; try apply N.eq_dec;
                                                 decide equality; try apply list_eq_dec; try apply N.eq_dec;
                                                 apply Bool.bool_dec)) OClose o1) as [Hin|Hnin].
      + destruct (Hc Hin) as (Hm & o' & -> & Hn).
        rewrite feed_all_closed in Er by congruence. inversion Er; subst.
        rewrite app_nil_r in E. symmetry in E. apply (close_is_last_aux OClose o' Hn a b). exact E.
      + symmetry in E. destruct (app_split_notin OClose o1 Hnin a b o2) as (a' & -> & E'); [exact E|].
        apply (IH c1 a' b). rewrite Er. cbn. symmetry; exact E'.
  Qed.

  Theorem close_is_last (w : M) lines a b :
    run_lines F I mechs guid w lines = a ++ OClose :: b -> b = [].
  Proof. unfold run_lines. apply close_is_last_gen. Qed.

  (* ----- counting rejections ------------------------------------------------- *)
  Definition count_ev (evs : list ev) : nat := count_rejected (map ev_out evs).

  Definition rej_rel (a : auth M) (r : auth M * list ev * exit) : Prop :=
    let '(a', evs, x) := r in
    (count_ev evs = 0%nat /\ a_rejects a' = a_rejects a) \/
    (x = XNormal /\ count_ev evs = 1%nat /\ a_rejects a' = S (a_rejects a) /\ (a_rejects a < 5)%nat) \/
    (x = XFailed /\ count_ev evs = 0%nat /\ a_rejects a' = S (a_rejects a) /\ (5 <= a_rejects a)%nat) \/
    (x = XCrashed /\ count_ev evs = 0%nat).

  Lemma reject_rel a : rej_rel a (reject a).
  Proof.
    unfold rej_rel, AuthServer.reject.
    destruct (match a_cur a with Some _ => m_cancel I (a_world a) | None => (false, a_world a) end)
      as [crashed w].
    destruct crashed; [right; right; right; split; reflexivity|].
    change (Nat.ltb MAX_REJECTS (S (a_rejects a))) with (Nat.leb 5 (a_rejects a)).
    destruct (Nat.leb 5 (a_rejects a)) eqn:E.
    - right; right; left. apply Nat.leb_le in E. repeat split; try reflexivity. exact E.
    - right; left. apply Nat.leb_gt in E. repeat split; try reflexivity. exact E.
  Qed.

  Lemma rej_rel_world a w r : rej_rel (set_world a w) r -> rej_rel a r.
  Proof. destruct r as [[a' evs] x]. exact (fun H => H). Qed.

  Lemma rej_rel_mech a a' evs x n v :
    rej_rel a (a', evs, x) -> rej_rel a (a', EMech n v :: evs, x).
  Proof. exact (fun H => H). Qed.

  Lemma step_auth_rel a resp : rej_rel a (step_auth a resp).
  Proof.
    unfold AuthServer.step_auth. destruct (a_cur a) as [name|]; [|apply reject_rel].
    destruct (decode_response F resp) as [as_str arg| |].
    - destruct (m_step I as_str arg (a_world a)) as [v w].
      destruct v as [|is_str chal|].
      + left. split; reflexivity.
      + destruct (is_str && (negb (fx09 F) || nonempty chal)).
        * right; right; right. split; reflexivity.
        * left. split; reflexivity.
      + pose proof (reject_rel (set_world a w)) as R.
        destruct (reject (set_world a w)) as [[a2 evs] x2].
        apply rej_rel_mech. apply (rej_rel_world a w). exact R.
    - left. split; reflexivity.
    - right; right; right. split; reflexivity.
  Qed.

  Lemma handle_rel a line : rej_rel a (handle a line).
  Proof.
    unfold AuthServer.handle. destruct (cut_space line) as [cmd rest].
    assert (Hs : forall e, starts_with w_REJECTED e = false -> rej_rel a (a, [ELine e], XNormal)).
    { intros e He. left. split; [|reflexivity]. unfold count_ev, count_rejected.
      cbn [map ev_out filter is_rejected]. rewrite He. reflexivity. }
    destruct (negb (all_ascii cmd)); [right; right; right; split; reflexivity|].
    destruct (str_eqb cmd w_AUTH).
    { unfold auth_AUTH. destruct (a_state a); try (apply Hs; reflexivity).
      destruct (split_ws _) as [|mech rest']; [apply reject_rel|].
      destruct (existsb (str_eqb mech) mechs); [|apply reject_rel].
      match goal with |- rej_rel a (step_auth ?b ?r) => pose proof (step_auth_rel b r) as R end.
      destruct (step_auth _ _) as [[a' evs] x]. exact R. }
    destruct (str_eqb cmd w_DATA).
    { unfold auth_DATA. destruct (a_state a); try (apply Hs; reflexivity). apply step_auth_rel. }
    destruct (str_eqb cmd w_BEGIN).
    { unfold auth_BEGIN. destruct (a_state a); left; split; reflexivity. }
    destruct (str_eqb cmd w_CANCEL).
    { unfold auth_CANCEL. destruct (a_state a); try (apply Hs; reflexivity); apply reject_rel. }
    destruct (str_eqb cmd w_ERROR); [apply reject_rel|].
    destruct (str_eqb cmd w_NEGOTIATE_UNIX_FD); apply Hs; reflexivity.
  Qed.

  Lemma count_tail evs (x : out) : is_rejected x = false ->
    count_rejected (map ev_out evs ++ [x]) = count_ev evs.
  Proof.
    intros Hx. rewrite count_rejected_app. unfold count_rejected at 2. cbn. rewrite Hx. cbn.
    apply Nat.add_0_r.
  Qed.

  (* one line: the counter and the REJECTED lines move together, there are never more
     than five of them, and once five were sent none is sent any more: whatever counts
     as a further rejection ends the conversation *)
  Lemma feed_count c l :
    c_mode c = Live ->
    let c' := fst (feed c l) in
    let o := snd (feed c l) in
    ((a_rejects (c_auth c) <= 5)%nat -> (a_rejects (c_auth c) + count_rejected o <= 5)%nat) /\
    (c_mode c' = Live -> a_rejects (c_auth c') = (a_rejects (c_auth c) + count_rejected o)%nat) /\
    ((5 <= a_rejects (c_auth c))%nat -> count_rejected o = 0%nat).
  Proof.
    intros Hl. unfold AuthServer.feed. rewrite Hl.
    destruct (MAX_AUTH <? N.of_nat (length l)).
    { cbn. split; [intros X; rewrite Nat.add_0_r; exact X|]. split; [intros X; discriminate|reflexivity]. }
    pose proof (handle_rel (c_auth c) l) as R. unfold rej_rel in R.
    destruct (handle (c_auth c) l) as [[a evs] x].
    assert (Hcnt : (count_ev evs = 0%nat /\ (x = XNormal -> a_rejects a = a_rejects (c_auth c))) \/
                   (count_ev evs = 1%nat /\ a_rejects a = S (a_rejects (c_auth c)) /\
                    (a_rejects (c_auth c) < 5)%nat)).
    { destruct R as [[R1 R2]|[(_ & R1 & R2 & R3)|[(X & R1 & _)|(X & R1)]]].
      - left. split; [exact R1|intros _; exact R2].
      - right. repeat split; assumption.
      - left. split; [exact R1|intros Y; congruence].
      - left. split; [exact R1|intros Y; congruence]. }
    assert (Ho : forall tail, (forall t, In t tail -> is_rejected t = false) ->
                 count_rejected (map ev_out evs ++ tail) = count_ev evs).
    { intros tail Ht. rewrite count_rejected_app. unfold count_ev.
      replace (count_rejected tail) with 0%nat; [apply Nat.add_0_r|].
      unfold count_rejected. induction tail as [|t tl IHt]; [reflexivity|]. cbn.
      rewrite (Ht t (or_introl eq_refl)). apply IHt. intros u Hu; apply Ht; right; exact Hu. }
    assert (Ho1 : forall t, is_rejected t = false -> count_rejected (map ev_out evs ++ [t]) = count_ev evs).
    { intros t Ht. apply Ho. intros u [<-|[]]; exact Ht. }
    assert (Ho0 : count_rejected (map ev_out evs) = count_ev evs) by reflexivity.
    assert (Hgen : forall (n : nat), n = count_ev evs ->
              ((a_rejects (c_auth c) <= 5)%nat -> (a_rejects (c_auth c) + n <= 5)%nat) /\
              ((5 <= a_rejects (c_auth c))%nat -> n = 0%nat)).
    { intros n ->. destruct Hcnt as [[H0 _]|(H1 & _ & H5)].
      - rewrite H0. split; [intros X; rewrite Nat.add_0_r; exact X|reflexivity].
      - rewrite H1. split; [intros _; rewrite Nat.add_1_r; exact H5|].
        intros X. exfalso. apply (Nat.lt_irrefl 5). eapply Nat.le_lt_trans; eassumption. }
    destruct x.
    - destruct (a_authd a); cbn [fst snd].
      + rewrite (Ho1 OAuthd eq_refl). destruct (Hgen _ eq_refl) as [G1 G2].
        split; [exact G1|]. split; [intros X; discriminate|exact G2].
      + rewrite Ho0. destruct (Hgen _ eq_refl) as [G1 G2].
        split; [exact G1|]. split; [|exact G2].
        intros _. cbn. destruct Hcnt as [[H0 Hs]|(H1 & Hs & _)].
        * rewrite H0, Nat.add_0_r. apply Hs; reflexivity.
        * rewrite H1, Nat.add_1_r. exact Hs.
    - cbn [fst snd]. rewrite (Ho1 OClose eq_refl). destruct (Hgen _ eq_refl) as [G1 G2].
      split; [exact G1|]. split; [intros X; discriminate|exact G2].
    - cbn [fst snd]. rewrite (Ho1 OCrash eq_refl). destruct (Hgen _ eq_refl) as [G1 G2].
      split; [exact G1|]. split; [intros X; discriminate|exact G2].
  Qed.

  Lemma feed_all_count lines : forall c,
    c_mode c = Live -> (a_rejects (c_auth c) <= 5)%nat ->
    (a_rejects (c_auth c) + count_rejected (snd (feed_all c lines)) <= 5)%nat.
  Proof.
    induction lines as [|l r IH]; intros c Hl H5; cbn [AuthServer.feed_all].
    - cbn. rewrite Nat.add_0_r. exact H5.
    - pose proof (feed_count c l Hl) as (A & B & _). cbn [fst snd] in A, B.
      destruct (feed c l) as [c1 o1]. cbn [fst snd] in A, B.
      destruct (feed_all c1 r) as [c2 o2] eqn:Er. cbn [fst snd].
      rewrite count_rejected_app.
      destruct (c_mode c1) eqn:Em.
      + specialize (IH c1 Em). rewrite Er in IH. cbn in IH.
        rewrite (B eq_refl) in IH. rewrite Nat.add_assoc. apply IH.
        rewrite <- (B eq_refl). rewrite (B eq_refl). apply A; exact H5.
      + rewrite feed_all_closed in Er by congruence. inversion Er; subst.
        unfold count_rejected at 2. cbn. rewrite Nat.add_0_r. apply A; exact H5.
      + rewrite feed_all_closed in Er by congruence. inversion Er; subst.
        unfold count_rejected at 2. cbn. rewrite Nat.add_0_r. apply A; exact H5.
      + rewrite feed_all_closed in Er by congruence. inversion Er; subst.
        unfold count_rejected at 2. cbn. rewrite Nat.add_0_r. apply A; exact H5.
  Qed.

  Theorem at_most_five_rejected (w : M) lines :
    (count_rejected (run_lines F I mechs guid w lines) <= 5)%nat.
  Proof.
    unfold run_lines. apply (feed_all_count lines (line_conn w)); [reflexivity|].
    cbn. apply Nat.le_0_l.
  Qed.
End Closes.

(* ------------------------------------------------------------------------- *)
(* Part D: the concrete mechanisms                                            *)

Section Cookie.
  Variable F : fixes.
  Variable E : cenv.
  Variable sha1hex : bytes -> bytes.

  Notation cookie_step := (cookie_step F E sha1hex).
  Notation c_step := (c_step F E sha1hex).

  (* the cookie mechanism says OK only in its second step, to a bytes response made of
     exactly two tokens the second of which is the hash of challenge:token:cookie *)
  Lemma cookie_ok_only_right as_str arg w s cid chal cookie :
    fst (cookie_step as_str arg w s cid chal cookie) = VOk ->
    exists resp cc, arg = Some resp /\ s = 1%nat /\ as_str = false /\
                    split_ws resp = [cc; sha1hex (colon chal (colon cc cookie))].
  Proof.
    unfold AuthServer.cookie_step. destruct arg as [a|]; [|discriminate].
    destruct s as [|[|s]].
    - destruct (_ && _ && _); discriminate.
    - destruct cid as [i|]; [|discriminate].
      destruct (delete_cookie (w_store w) i); [|discriminate].
      destruct (split_ws a) as [|cc [|h [|x r]]] eqn:Es; try discriminate.
      destruct as_str; [discriminate|].
      destruct (str_eqb (sha1hex (colon chal (colon cc cookie))) h) eqn:Eh; [|discriminate].
      intros _. apply str_eqb_spec in Eh. subst h. exists a, cc. repeat split; try reflexivity. exact Es.
    - discriminate.
  Qed.

  (* the exchange as the bus runs it: step one on a fresh instance, then step two *)
  Theorem wrong_cookie_never w as1 user as2 resp :
    w_inst w = ICookie 0 None [] [] ->
    let r1 := c_step as1 (Some user) w in
    let r2 := c_step as2 (Some resp) (snd r1) in
    fst r1 <> VOk /\
    ((forall cc, split_ws resp <>
                 [cc; sha1hex (colon (e_chal E (w_made w)) (colon cc (e_cookie E (w_made w))))]) ->
     fst r2 <> VOk).
  Proof.
    intros Hi. cbn zeta.
    assert (H1 : c_step as1 (Some user) w = cookie_step as1 (Some user) w 0 None [] [])
      by (unfold AuthServer.c_step; rewrite Hi; reflexivity).
    rewrite H1. unfold AuthServer.cookie_step at 1 2.
    destruct ((if fx10a F then true else as1) && all_ascii user && e_user_ok E user).
    - cbn [fst snd]. split; [intros X; discriminate X|]. intros Hw Hok.
      unfold AuthServer.c_step in Hok. cbn [w_inst] in Hok.
      apply cookie_ok_only_right in Hok as (r & cc & Hr & _ & _ & Hs).
      inversion Hr; subst r. apply (Hw cc). exact Hs.
    - cbn [fst snd]. split; [intros X; discriminate X|]. intros Hw Hok.
      unfold AuthServer.c_step in Hok. cbn in Hok. discriminate Hok.
  Qed.
End Cookie.

(* ----- closed loop with the specification's client ----------------------------- *)
Definition env (creds : bool) (user_ok : bytes -> bool) (ctx : bytes) (chal cookie : nat -> bytes) : cenv :=
  {| e_creds := creds; e_user_ok := user_ok; e_ctx := ctx; e_chal := chal; e_cookie := cookie |}.

(* the bus with its three mechanisms, as a line server *)
Definition bus (F : fixes) (E : cenv) (sha1hex : bytes -> bytes) (guid : bytes) :=
  serve F (concrete_if F E sha1hex) bus_mechs guid.

Definition bus_accepts (F : fixes) (E : cenv) (sha1hex : bytes -> bytes) (guid : bytes)
           (store : list N) (clients : list cmech) : bool :=
  accepted (bus F E sha1hex guid) 12 (line_conn (init_world store)) clients.

(* a client that states its identity in the initial response (as libdbus does) *)
Definition external_client_with_identity (uid : bytes) : cmech :=
  {| cm_name := n_EXTERNAL; cm_initial := Some uid; cm_expects_challenge := false;
     cm_respond := fun _ => CFail |}.

Lemma accepts_external user_ok ctx chal cookie sha1hex guid store :
  bus_accepts current (env true user_ok ctx chal cookie) sha1hex guid store [external_client] = true.
Proof. vm_compute. reflexivity. Qed.

Lemma accepts_anonymous creds user_ok ctx chal cookie sha1hex guid store :
  bus_accepts current (env creds user_ok ctx chal cookie) sha1hex guid store [anonymous_client None] = true /\
  bus_accepts current (env creds user_ok ctx chal cookie) sha1hex guid store
              [anonymous_client (Some [116; 120; 100; 98; 117; 115])] = true.
Proof. split; vm_compute; reflexivity. Qed.

(* EXTERNAL unusable (no credentials): the client falls through to ANONYMOUS;
   identity sent up front: the bus challenges, the client cancels and falls through *)
Lemma accepts_fallback user_ok ctx chal cookie sha1hex guid store :
  bus_accepts current (env false user_ok ctx chal cookie) sha1hex guid store
              [external_client; anonymous_client None] = true /\
  bus_accepts current (env true user_ok ctx chal cookie) sha1hex guid store
              [external_client_with_identity [49; 48; 48; 48]; anonymous_client None] = true.
Proof. split; vm_compute; reflexivity. Qed.

(* observation (DESIGN.md section 4): with EXTERNAL as its only mechanism, the client
   that sends its identity up front is not accepted *)
Lemma external_identity_first_only user_ok ctx chal cookie sha1hex guid store :
  bus_accepts current (env true user_ok ctx chal cookie) sha1hex guid store
              [external_client_with_identity [49; 48; 48; 48]] = false.
Proof. vm_compute. reflexivity. Qed.

(* D09 on the tree without the repair *)
Lemma accepts_external_legacy user_ok ctx chal cookie sha1hex guid store :
  bus_accepts legacy (env true user_ok ctx chal cookie) sha1hex guid store [external_client] = false /\
  run_lines legacy (concrete_if legacy (env true user_ok ctx chal cookie) sha1hex) bus_mechs guid
            (init_world store) [sp w_AUTH n_EXTERNAL] =
  [OMech n_EXTERNAL (VContinue true []); OCrash].
Proof. split; vm_compute; reflexivity. Qed.

(* ----- witnesses for the defects repaired (legacy flags) ----------------------- *)
Definition toy_sha (x : bytes) : bytes := 104 :: x.                   (* any function will do *)
Definition toy_env : cenv :=
  env true (fun u => str_eqb u [114; 111; 111; 116]) [99; 116; 120]
      (fun _ => [115; 99]) (fun _ => [107]).
Definition l_auth_cookie_root : bytes :=                               (* AUTH DBUS_COOKIE_SHA1 726f6f74 *)
  sp w_AUTH (sp n_DBUS_COOKIE_SHA1 (hexlify [114; 111; 111; 116])).
Definition l_right_response : bytes :=                                 (* DATA hex("cc h") *)
  sp w_DATA (hexlify (sp [99; 99] (toy_sha [115; 99; 58; 99; 99; 58; 107]))).
Definition l_wrong_response : bytes := sp w_DATA (hexlify (sp [99; 99] [120])).

Definition concrete_run (F : fixes) (lines : list bytes) : list out :=
  run_lines F (concrete_if F toy_env toy_sha) bus_mechs [103] (init_world []) lines.

Definition only10a : fixes := {| fx09 := true; fx10a := true; fx10b := false; fx11 := true; fx32 := true |}.

Lemma witnesses :
  (* repaired: the right response is accepted, the wrong one answered REJECTED *)
  concrete_run current [l_auth_cookie_root; l_right_response; w_BEGIN] =
    [OMech n_DBUS_COOKIE_SHA1 (VContinue false [99; 116; 120; 32; 49; 32; 115; 99]);
     OLine (sp w_DATA (hexlify [99; 116; 120; 32; 49; 32; 115; 99]));
     OMech n_DBUS_COOKIE_SHA1 VOk; OLine (sp w_OK [103]); OAuthd] /\
  concrete_run current [l_auth_cookie_root; l_wrong_response; w_BEGIN] =
    [OMech n_DBUS_COOKIE_SHA1 (VContinue false [99; 116; 120; 32; 49; 32; 115; 99]);
     OLine (sp w_DATA (hexlify [99; 116; 120; 32; 49; 32; 115; 99]));
     OMech n_DBUS_COOKIE_SHA1 VReject; OLine (reject_msg bus_mechs); OClose] /\
  (* D10 (a): the right response is rejected - and then (b) the second deletion raises *)
  concrete_run legacy [l_auth_cookie_root; l_right_response; w_BEGIN] =
    [OMech n_DBUS_COOKIE_SHA1 (VContinue false [99; 116; 120; 32; 49; 32; 115; 99]);
     OLine (sp w_DATA (hexlify [99; 116; 120; 32; 49; 32; 115; 99]));
     OMech n_DBUS_COOKIE_SHA1 VReject; OCrash] /\
  (* D10 (b) alone: a wrong response is not answered REJECTED, an exception escapes *)
  concrete_run only10a [l_auth_cookie_root; l_wrong_response] =
    [OMech n_DBUS_COOKIE_SHA1 (VContinue false [99; 116; 120; 32; 49; 32; 115; 99]);
     OLine (sp w_DATA (hexlify [99; 116; 120; 32; 49; 32; 115; 99]));
     OMech n_DBUS_COOKIE_SHA1 VReject; OCrash] /\
  (* D11: AUTH ANONYMOUS zz *)
  concrete_run legacy [sp w_AUTH (sp n_ANONYMOUS [122; 122])] = [OCrash] /\
  concrete_run current [sp w_AUTH (sp n_ANONYMOUS [122; 122])] = [OLine l_ERROR_hex].
Proof. vm_compute. repeat split; reflexivity. Qed.

Lemma follows_spec_legacy_fails :
  exists mechs guid sc lines,
    Forall well_typed sc /\ Forall ascii_command lines /\
    map abs_out (run_lines legacy oracle_if mechs guid sc lines) <>
    spec_lines mechs guid false 5%nat 16384 sc lines.
Proof.
  exists [n_ANONYMOUS], [103], [VOk], [sp w_AUTH (sp n_ANONYMOUS [122; 122])].
  split; [repeat constructor|]. split; [repeat constructor|]. vm_compute. discriminate.
Qed.

(* ----- the model's constants are those of the tree under test ------------------- *)
From Tx Require Gen.Generated.
Lemma constants :
  Generated.MAX_AUTH_LENGTH = Some MAX_AUTH /\
  Generated.MAX_REJECTS_ALLOWED = Some (N.of_nat MAX_REJECTS) /\
  Generated.bus_mechanisms = Some bus_mechs /\
  Generated.auth_delimiter = Some [13; 10].
Proof. repeat split; reflexivity. Qed.

(* the command words the bus has a handler for (open getattr dispatch on '_auth_' + word) are exactly the
   commands of the server state machine: no other word reaches a handler *)
Lemma commands_from_source :
  Generated.bus_auth_commands =
  Some [w_AUTH; w_BEGIN; w_CANCEL; w_DATA; w_ERROR; w_NEGOTIATE_UNIX_FD].
Proof. reflexivity. Qed.

(* ----- DBUS_COOKIE_SHA1 with the right cookie, every parameter symbolic ---------- *)
Definition is_bytes (l : bytes) : Prop := Forall (fun c => c < 256) l.
Definition no_ws (l : bytes) : Prop := Forall (fun c => is_ws c = false) l.
Definition is_token (l : bytes) : Prop := l <> [] /\ no_ws l /\ is_bytes l.

Lemma is_ws_big c : 48 <= c -> is_ws c = false.
Proof.
  intros H. unfold is_ws.
  destruct (N.eqb_spec c 32) as [->|_]; [exfalso; revert H; apply N.lt_nge; reflexivity|].
  destruct (N.leb_spec 9 c); [|reflexivity].
  destruct (N.leb_spec c 13) as [H13|]; [|reflexivity].
  exfalso. apply (N.lt_irrefl 13). eapply N.lt_le_trans; [|exact H13].
  eapply N.lt_le_trans; [|exact H]. reflexivity.
Qed.

Lemma hexdigit_big v : 48 <= hexdigit v.
Proof.
  unfold hexdigit. destruct (v <? 10).
  - apply N.le_add_r.
  - etransitivity; [|apply N.le_add_r]. discriminate.
Qed.

Lemma hex_no_ws x : no_ws (hex_chars x).
Proof.
  induction x as [|c x IH]; [constructor|]. cbn [hex_chars].
  constructor; [apply is_ws_big, hexdigit_big|].
  constructor; [apply is_ws_big, hexdigit_big|exact IH].
Qed.

Lemma lstrip_no_ws s : no_ws s -> lstrip_ws s = s.
Proof. intros H. destruct H as [|c s Hc Hs]; [reflexivity|]. cbn. rewrite Hc. reflexivity. Qed.

Lemma rstrip_no_ws s : no_ws s -> rstrip_ws s = s.
Proof.
  induction 1 as [|c s Hc Hs IH]; [reflexivity|]. cbn [rstrip_ws]. rewrite IH.
  destruct s; [rewrite Hc|]; reflexivity.
Qed.

Lemma strip_no_ws s : no_ws s -> strip_ws s = s.
Proof. intros H. unfold strip_ws. rewrite (lstrip_no_ws s H). apply rstrip_no_ws; exact H. Qed.

Lemma hexval_hexdigit v : v < 16 -> hexval (hexdigit v) = Some v.
Proof.
  intros Hv.
  assert (E : v = 0 \/ v = 1 \/ v = 2 \/ v = 3 \/ v = 4 \/ v = 5 \/ v = 6 \/ v = 7 \/ v = 8 \/ v = 9 \/
              v = 10 \/ v = 11 \/ v = 12 \/ v = 13 \/ v = 14 \/ v = 15) by lia.
  repeat (destruct E as [->|E]; [reflexivity|]). subst; reflexivity.
Qed.

Lemma unhex_hex x : is_bytes x -> unhex (hex_chars x) = Some x.
Proof.
  induction 1 as [|c x Hc Hx IH]; [reflexivity|]. cbn [hex_chars unhex].
  rewrite hexval_hexdigit by (apply N.div_lt_upper_bound; [discriminate|exact Hc]).
  rewrite hexval_hexdigit by (apply N.mod_lt; discriminate).
  rewrite IH. f_equal. f_equal.
  rewrite N.mul_comm. symmetry. apply N.div_mod. discriminate.
Qed.

Lemma decode_hex r : r <> [] -> is_bytes r ->
  decode_response current (Some (hexlify r)) = DArg false (Some r).
Proof.
  intros Hn Hb. unfold decode_response, hexlify.
  destruct r as [|c r]; [congruence|]. cbn [hex_chars nonempty].
  change (hexdigit (c / 16) :: hexdigit (c mod 16) :: hex_chars r) with (hex_chars (c :: r)).
  rewrite strip_no_ws by apply hex_no_ws. rewrite unhex_hex by exact Hb. reflexivity.
Qed.

Lemma split_ws_token t : t <> [] -> no_ws t -> split_ws t = [t].
Proof.
  intros Hn H. induction H as [|c s Hc Hs IH]; [congruence|].
  cbn [split_ws]. rewrite Hc. destruct s as [|d s]; [reflexivity|].
  inversion Hs as [|? ? Hd _]; subst. rewrite Hd. rewrite IH by discriminate. reflexivity.
Qed.

Lemma split_ws_sp t rest : t <> [] -> no_ws t -> split_ws (sp t rest) = t :: split_ws rest.
Proof.
  intros Hn H. unfold sp. induction H as [|c s Hc Hs IH]; [congruence|].
  cbn [app split_ws]. rewrite Hc. destruct s as [|d s].
  - cbn [app]. reflexivity.
  - inversion Hs as [|? ? Hd _]; subst. cbn [app]. rewrite Hd.
    change (d :: s ++ 32 :: rest) with ((d :: s) ++ 32 :: rest). rewrite IH by discriminate. reflexivity.
Qed.

Lemma is_bytes_app a b : is_bytes a -> is_bytes b -> is_bytes (a ++ b).
Proof. intros; apply Forall_app; split; assumption. Qed.

Section CookieAccept.
  Variable sha1hex : bytes -> bytes.
  Variable user_ok : bytes -> bool.
  Variable creds : bool.
  Variable ctx : bytes.
  Variables chal cookie : nat -> bytes.
  Variables guid user cc : bytes.

  Let E := env creds user_ok ctx chal cookie.
  Let I := concrete_if current E sha1hex.
  Let H := sha1hex (colon (chal 0%nat) (colon cc (cookie 0%nat))).
  Let line1 := sp w_AUTH (sp n_DBUS_COOKIE_SHA1 (hexlify user)).
  Let line2 := sp w_DATA (hexlify (sp cc H)).

  Hypothesis Huser : user_ok user = true.
  Hypothesis Hascii : all_ascii user = true.
  Hypothesis Hne : user <> [].
  Hypothesis Hubytes : is_bytes user.
  Hypothesis Hcc : is_token cc.
  Hypothesis HH : is_token H.
  Hypothesis Hlen1 : N.of_nat (length line1) <= MAX_AUTH.
  Hypothesis Hlen2 : N.of_nat (length line2) <= MAX_AUTH.

  Notation handle := (AuthServer.handle current I bus_mechs guid).
  Notation feed := (AuthServer.feed current I bus_mechs guid).

  Lemma handle_AUTH a args : handle a (sp w_AUTH args) = auth_AUTH current I bus_mechs guid a args.
  Proof. reflexivity. Qed.
  Lemma handle_DATA a args : handle a (sp w_DATA args) = auth_DATA current I bus_mechs guid a args.
  Proof. reflexivity. Qed.

  Definition world1 : cworld :=
    {| w_inst := ICookie 1 (Some 1) (chal 0%nat) (cookie 0%nat); w_store := [1]; w_made := 1 |}.
  Definition auth1 : auth cworld :=
    {| a_state := WaitingForData; a_cur := Some n_DBUS_COOKIE_SHA1; a_rejects := 0; a_authd := false;
       a_world := world1 |}.
  Definition world2 : cworld :=
    {| w_inst := ICookie 2 None (chal 0%nat) (cookie 0%nat); w_store := []; w_made := 1 |}.
  Definition auth2 : auth cworld :=
    {| a_state := WaitingForBegin; a_cur := Some n_DBUS_COOKIE_SHA1; a_rejects := 0; a_authd := false;
       a_world := world2 |}.
  Definition challenge_msg : bytes := sp ctx (sp [49] (chal 0%nat)).

  Lemma step1 :
    handle (init_auth (init_world [])) line1 =
    (auth1, [EMech n_DBUS_COOKIE_SHA1 (VContinue false challenge_msg);
             ELine (sp w_DATA (hexlify challenge_msg))], XNormal).
  Proof.
    unfold line1. rewrite handle_AUTH. unfold auth_AUTH. cbn [a_state init_auth].
    rewrite split_ws_sp by (try discriminate; repeat constructor).
    unfold hexlify. rewrite split_ws_token; [| destruct user; [congruence|discriminate] | apply hex_no_ws].
    change (existsb (str_eqb n_DBUS_COOKIE_SHA1) bus_mechs) with true. cbn iota.
    unfold step_auth. cbn [a_cur]. fold (hexlify user). rewrite decode_hex by assumption.
    cbn [a_world m_start m_step I concrete_if].
    unfold c_start, c_step. cbn. rewrite Hascii, Huser. cbn. reflexivity.
  Qed.

  Lemma step2 :
    handle auth1 line2 =
    (auth2, [EMech n_DBUS_COOKIE_SHA1 VOk; ELine (sp w_OK guid)], XNormal).
  Proof.
    unfold line2. rewrite handle_DATA. unfold auth_DATA. cbn [a_state auth1].
    unfold step_auth. cbn [a_cur auth1].
    destruct Hcc as (Hc1 & Hc2 & Hc3). destruct HH as (Hh1 & Hh2 & Hh3).
    rewrite decode_hex.
    2:{ unfold sp. destruct cc; [congruence|discriminate]. }
    2:{ unfold sp. apply is_bytes_app; [exact Hc3|]. constructor; [reflexivity|exact Hh3]. }
    cbn [a_world auth1 m_step I concrete_if].
    unfold c_step. cbn [w_inst world1]. unfold cookie_step. cbn [w_store world1 delete_cookie remove_first].
    change (1 =? 1) with true. cbn iota.
    rewrite split_ws_sp by assumption. rewrite split_ws_token by assumption.
    fold H. rewrite str_eqb_refl. reflexivity.
  Qed.

  Lemma accepts_cookie_gen :
    run_lines current I bus_mechs guid (init_world []) [line1; line2; w_BEGIN] =
    [ OMech n_DBUS_COOKIE_SHA1 (VContinue false challenge_msg);
      OLine (sp w_DATA (hexlify challenge_msg));
      OMech n_DBUS_COOKIE_SHA1 VOk; OLine (sp w_OK guid); OAuthd ].
  Proof.
    unfold run_lines. cbn [feed_all]. unfold line_conn.
    unfold AuthServer.feed at 1. cbn [c_mode c_auth].
    rewrite (proj2 (N.ltb_ge _ _) Hlen1). rewrite step1. cbn [a_authd auth1 map ev_out with_mode c_first c_buf].
    unfold AuthServer.feed at 1. cbn [c_mode c_auth with_mode].
    rewrite (proj2 (N.ltb_ge _ _) Hlen2). rewrite step2. cbn [a_authd auth2 map ev_out with_mode c_first c_buf].
    reflexivity.
  Qed.
End CookieAccept.
