(* Proofs for the byte-level system (Model/SystemBytes.v): every byte-level
   schedule is a message-level schedule of Model/System.v - a message is
   delivered at the moment the read carrying its last byte is - with the same
   state, hence the same invocation records, result records and completions.

   Per link (C04): the receiver's buffer is a prefix of the link's stream, the
   stream is the concatenation of well-framed encodings, so whatever the read
   adds, what dataReceived frames is a prefix of the messages written, each
   byte-identical ([link_read], from FramingProofs.bin_process_sem /
   frames_of_msgs, the lemmas behind C04_partition_independent and
   C04_messages_intact); parsing gives the message back ([encodable]: C03), and
   the handler is the message-level one. *)
From Tx Require Import Lib.Base.
From Tx Require Import Model.Framing Spec.FramingSpec Proofs.FramingProofs.
From Tx Require Import Model.PyVal Model.BusNames Model.ProxyCall Model.System Model.SystemBytes.
From Tx Require Model.BusRoute Model.Dispatch Model.Calls.
From Tx Require Import Proofs.SystemProofs.
Local Open Scope N_scope.

(* ======================================================================== *)
(* 1. lists of link items                                                    *)

Lemma link_eqb_refl lk : link_eqb lk lk = true.
Proof. destruct lk; cbn; apply N.eqb_refl. Qed.

Lemma link_eqb_eq a b : link_eqb a b = true -> a = b.
Proof. destruct a, b; cbn; intro H; try discriminate; apply N.eqb_eq in H; subst; reflexivity. Qed.

Lemma items_on_app lk a b : items_on lk (a ++ b) = items_on lk a ++ items_on lk b.
Proof. unfold items_on. rewrite filter_app, map_app. reflexivity. Qed.

Lemma items_on_cons lk k x net :
  items_on lk ((k, x) :: net) = if link_eqb lk k then x :: items_on lk net else items_on lk net.
Proof. unfold items_on. cbn [filter]. unfold link_eq at 1. cbn [fst]. destruct (link_eqb lk k); reflexivity. Qed.

Lemma take_items lk net :
  match take lk net with
  | Some (w, rest) => items_on lk net = w :: items_on lk rest /\
                      forall lk', lk' <> lk -> items_on lk' rest = items_on lk' net
  | None => items_on lk net = []
  end.
Proof.
  induction net as [|[k x] net IH]; cbn [take]; [reflexivity|].
  destruct (link_eqb lk k) eqn:E.
  - apply link_eqb_eq in E. subst k. split.
    + rewrite items_on_cons, link_eqb_refl. reflexivity.
    + intros lk' NE. rewrite items_on_cons.
      destruct (link_eqb lk' lk) eqn:E2; [apply link_eqb_eq in E2; contradiction | reflexivity].
  - destruct (take lk net) as [[y r']|].
    + destruct IH as [IH1 IH2]. split.
      * rewrite !items_on_cons, E. exact IH1.
      * intros lk' NE. rewrite !items_on_cons. destruct (link_eqb lk' k); [f_equal|]; apply IH2; exact NE.
    + rewrite items_on_cons, E. exact IH.
Qed.

Lemma items_on_other lk new :
  Forall (fun x => link_eqb lk (fst x) = false) new -> items_on lk new = [].
Proof.
  induction 1 as [|[k x] l H _ IH]; [reflexivity|]. rewrite items_on_cons. cbn [fst] in H. rewrite H. exact IH.
Qed.

(* ======================================================================== *)
(* 2. where the message-level handlers write                                 *)

Lemma send_replies_net g : forall rs s c dc,
  exists new, s_net (send_replies g s c dc rs) = s_net s ++ new /\ Forall (fun x => fst x = Up c) new.
Proof.
  induction rs as [|r rs IH]; intros s c dc; cbn [send_replies].
  - exists []. rewrite app_nil_r. split; [reflexivity | constructor].
  - match goal with |- context [send_replies g ?S c dc rs] => destruct (IH S c dc) as (new & E & F) end.
    rewrite E. destruct (Calls.max_serial <? p_serial (proc_of g s c)).
    + exists new. split; [reflexivity | exact F].
    + cbn [set_net set_procs s_net]. rewrite <- app_assoc. eexists. split; [reflexivity|].
      constructor; [reflexivity | exact F].
Qed.

Lemma finish_net g s c id x xml : s_net (finish g s c id x xml) = s_net s.
Proof. destruct (finish_spec g s c id x xml) as ([_ _ H _ _ _ _ _ _ _] & _). exact H. Qed.

Lemma client_deliver_net g s c w :
  exists new, s_net (client_deliver g s c w) = s_net s ++ new /\ Forall (fun x => fst x = Up c) new.
Proof.
  assert (SAME : exists new, s_net s = s_net s ++ new /\ Forall (fun x : link * wire => fst x = Up c) new)
    by (exists []; rewrite app_nil_r; split; [reflexivity | constructor]).
  unfold client_deliver. destruct (is_dead s c); [exact SAME|].
  destruct (BusRoute.g_type (w_msg w) =? 1).
  - unfold deliver_call. destruct (call_of (g_fuel g) (w_msg w)) as [dc|e]; [|exact SAME].
    destruct (Dispatch.handle (g_exports g c) (g_beh g c) dc) as [e|rs invs p]; [exact SAME|].
    destruct (send_replies_net g rs (add_invs s c (tag_of_call dc) invs (results_now (g_beh g c) invs) p) c dc) as (new & E & F).
    exists new. split; [exact E | exact F].
  - destruct ((BusRoute.g_type (w_msg w) =? 2) || (BusRoute.g_type (w_msg w) =? 3)).
    + unfold deliver_reply. destruct (decode_body (g_fuel g) (w_msg w)); [|exact SAME].
      destruct (BusRoute.g_reply_serial (w_msg w)); [|exact SAME].
      destruct (alist_get N.eqb n (Calls.st_pending (s_calls s c))); [|exact SAME].
      destruct (BusRoute.g_type (w_msg w) =? 2); rewrite finish_net; exact SAME.
    + destruct (BusRoute.g_type (w_msg w) =? 4); exact SAME.
Qed.

Lemma bus_deliver_net s c w :
  exists new, s_net (bus_deliver s c w) = s_net s ++ new /\ Forall (fun x => exists o, fst x = Down o) new.
Proof.
  unfold bus_deliver. destruct (mem c (s_closed s)).
  - exists []. rewrite app_nil_r. split; [reflexivity | constructor].
  - destruct (BusRoute.step (s_bus s) (BusRoute.ESend c (w_msg w))) as [b o]. cbn [s_net].
    eexists. split; [reflexivity|]. unfold fwd_items. apply Forall_forall. intros x H.
    apply in_flat_map in H as (y & _ & H). destruct (snd y) as [m|n0 a|sg]; [|destruct H|destruct H].
    destruct H as [<-|[]]. eexists. reflexivity.
Qed.

(* application steps only write *)
Lemma app_step_net g s a : is_app a = true -> exists new, s_net (step g s a) = s_net s ++ new.
Proof.
  assert (SAME : exists new, s_net s = s_net s ++ new) by (exists []; rewrite app_nil_r; reflexivity).
  assert (CC : forall c q k, exists new, s_net (conn_call g s c q k) = s_net s ++ new).
  { intros c q k. destruct (conn_call_spec g s c q k) as [_ O]. destruct O; rewrite Hnet; [exact SAME | eexists; reflexivity | eexists; reflexivity]. }
  intro H. destruct a as [c name ds noreg|c bus path a replace|c pidx mem args kw|c|c|c key l]; try discriminate; cbn [step].
  - unfold declare_iface. destruct (Introspect.declare _ _ name ds noreg) as [[[h k] x]|e]; exact SAME.
  - unfold get_remote. destruct (str_eqb bus BusRoute.bus_name); [exact SAME|].
    destruct (get_remote_object _ _ bus path a); [exact SAME | apply CC].
  - unfold proxy_call. destruct (nth_error (s_proxies s c) pidx) as [px|]; [|exact SAME].
    destruct (call_remote _ (px_bus px) (px_path px) mem args kw); try exact SAME. apply CC.
  - unfold fire_open. destruct (take_open c key (s_open s)) as [[p rest]|]; [|exact SAME].
    match goal with |- context [send_replies g ?S c ?DC ?RS] => destruct (send_replies_net g RS S c DC) as (new & E & _) end.
    exists new. exact E.
Qed.

(* ======================================================================== *)
(* 3. one link: what a read frames                                           *)

Definition raws (evs : list event) : list bytes :=
  flat_map (fun e => match e with Msg r => [r] | _ => [] end) evs.

Lemma frames_conserve : forall f s evs r,
  frames f s = (evs, Some r) -> s = concat (raws evs) ++ r /\ evs = map Msg (raws evs).
Proof.
  induction f as [|f IH]; intros s evs r H; cbn [frames] in H.
  - inversion H; subst. split; reflexivity.
  - destruct (take_N s 16) as [[h0 t0]|]; [|inversion H; subst; split; reflexivity].
    destruct (take_N s (frame_total s)) as [[m rest]|] eqn:T; [|inversion H; subst; split; reflexivity].
    destruct (frames f rest) as [evs' r'] eqn:F. inversion H; subst.
    destruct (IH rest evs' r F) as [C1 C2]. apply take_N_Some in T as [E _].
    cbn [raws flat_map app concat map]. fold (raws evs'). split.
    + rewrite E. rewrite C1 at 1. rewrite <- app_assoc. reflexivity.
    + rewrite <- C2. reflexivity.
Qed.

Lemma firstn_in {A} (x : A) : forall k l, In x (firstn k l) -> In x l.
Proof.
  induction k as [|k IH]; intros [|y l] H; cbn [firstn] in H; try destruct H.
  - left. exact H.
  - right. exact (IH l H).
Qed.

Lemma map_msg_inj a b : map Msg a = map Msg b -> a = b.
Proof.
  revert b. induction a as [|x a IH]; intros [|y b] H; try discriminate; [reflexivity|].
  cbn [map] in H. injection H as -> H. f_equal. exact (IH b H).
Qed.

Lemma prefix_split {A} (a x l : list A) : a ++ x = l -> a = firstn (length a) l /\ x = skipn (length a) l.
Proof.
  intros <-. split.
  - rewrite firstn_app, Nat.sub_diag, firstn_all. cbn. rewrite app_nil_r. reflexivity.
  - rewrite skipn_app, Nat.sub_diag, skipn_all. reflexivity.
Qed.

Section Bytes.
  Variable g : config.
  Variable enc : BusRoute.bmsg -> bytes.
  Variable dec : bytes -> option BusRoute.bmsg.

  Notation stream := (stream enc).
  Notation pending := (pending enc).
  Notation bstep := (bstep g enc dec).
  Notation brun_from := (brun_from g enc dec).
  Notation handle_event := (handle_event g dec).

  (* what the theorems need of the codec, message by message: the encoding
     announces its own length (C03_frame_length), and parses back (C03_parse_own) *)
  Definition encodable (m : BusRoute.bmsg) : Prop := wellframed (enc m) /\ dec (enc m) = Some m.

  Definition net_ok (net : list (link * wire)) : Prop :=
    forall lk w, In (lk, w) net -> encodable (w_msg w).

  Definition encs (ws : list wire) : list bytes := map (fun w => enc (w_msg w)) ws.

  Lemma encs_length ws : length (encs ws) = length ws.
  Proof. apply map_length. Qed.

  Lemma stream_encs ws : stream ws = concat (encs ws).
  Proof. reflexivity. Qed.

  (* the reader of a link: authenticated, open, and what it has buffered is the
     beginning of what is written on the link *)
  Definition rx_ok (r : rx_state) (ws : list wire) : Prop :=
    s_authed r = true /\ Framing.s_closed r = false /\ cache_ok (s_buf r) (s_next r) /\
    exists rest, stream ws = s_buf r ++ rest.

  Definition LinkInv (bs : bsys) : Prop :=
    forall lk, rx_ok (bs_rx bs lk) (items_on lk (s_net (bs_sys bs))).

  (* ANY read of the link's pending bytes frames exactly the first k messages
     written on it, byte-identical, for some k; the reader is then in the same
     relation to the remaining ones *)
  Lemma link_read r ws n :
    rx_ok r ws -> Forall (fun w => wellframed (enc (w_msg w))) ws ->
    let chunk := firstn n (skipn (length (s_buf r)) (stream ws)) in
    exists k, snd (rx_recv r chunk) = map Msg (encs (firstn k ws)) /\ rx_ok (fst (rx_recv r chunk)) (skipn k ws).
  Proof.
    intros (HA & HC & HK & (rest & HS)) HW. cbn zeta.
    assert (SK : skipn (length (s_buf r)) (stream ws) = rest).
    { rewrite HS, skipn_app, Nat.sub_diag, skipn_all. reflexivity. }
    rewrite SK. set (chunk := firstn n rest). set (w := skipn n rest).
    assert (RW : rest = chunk ++ w) by (symmetry; apply firstn_skipn).
    unfold rx_recv, Framing.recv. rewrite HA.
    destruct (bin_process (set_buf r (s_buf r ++ chunk))) as [r' evs] eqn:BP. cbn [fst snd].
    assert (K : cache_ok (s_buf r ++ chunk) (s_next r)).
    { destruct HK as [K|[K1 K2]]; [left; exact K | right].
      split; [rewrite len_app; lia | rewrite frame_total_app by assumption; exact K2]. }
    destruct (bin_process_sem no_auth 0 (set_buf r (s_buf r ++ chunk)) r' evs w HA HC K BP) as (X1 & X2 & _ & X4).
    destruct (bin_process_fields _ _ _ BP) as (_ & _ & _).
    (* the reader stays open: bin_process never closes *)
    assert (C' : Framing.s_closed r' = false).
    { unfold bin_process in BP. destruct (bin_loop _ _ _ _) as [[[b n0] big] e]. injection BP as <- _. exact HC. }
    unfold extends in X1. unfold sem_from in X1. rewrite C', X4 in X1.
    cbn [set_buf s_buf] in X1. rewrite <- app_assoc, <- RW, <- HS in X1.
    assert (FS : frames_of (stream ws) = (map Msg (encs ws), Some [])).
    { rewrite stream_encs. apply frames_of_msgs. unfold encs. apply Forall_map. exact HW. }
    rewrite FS in X1. injection X1 as E1 E2.
    destruct (frames_of (s_buf r' ++ w)) as [evs2 x2] eqn:F2. cbn [fst snd] in E1, E2. subst x2.
    destruct (frames_conserve _ _ _ _ F2) as [CS CM].
    destruct (prefix_split _ _ _ (eq_sym E1)) as [P1 P2].
    set (k := length evs) in *.
    exists k. split.
    - rewrite P1. unfold encs. rewrite <- !firstn_map. reflexivity.
    - split; [exact X4|]. split; [exact C'|]. split; [destruct X2 as (I1 & _); exact (I1 X4)|].
      exists w. rewrite app_nil_r in CS. rewrite CS, stream_encs. f_equal.
      apply map_msg_inj. rewrite <- CM, P2. unfold encs. rewrite !skipn_map. reflexivity.
  Qed.

  (* ====================================================================== *)
  (* 4. the messages of a read are handled as the message-level schedule does  *)

  Lemma handle_msg_step lk s w rest :
    take lk (s_net s) = Some (w, rest) -> dec (enc (w_msg w)) = Some (w_msg w) ->
    handle_event lk s (Msg (enc (w_msg w))) = step g s (deliver_action lk).
  Proof.
    intros T D. unfold SystemBytes.handle_event. rewrite T. unfold handle_raw. rewrite D.
    destruct w as [m x]. destruct lk as [c|c]; cbn [deliver_action step w_msg w_xml]; rewrite T; reflexivity.
  Qed.

  (* a delivery on lk leaves the other messages of lk where they are *)
  Lemma deliver_step_items lk s w rest :
    take lk (s_net s) = Some (w, rest) ->
    items_on lk (s_net (step g s (deliver_action lk))) = items_on lk rest /\
    forall lk', lk' <> lk -> exists new, items_on lk' (s_net (step g s (deliver_action lk))) = items_on lk' (s_net s) ++ new.
  Proof.
    intro T. pose proof (take_items lk (s_net s)) as TI. rewrite T in TI. destruct TI as [_ TO].
    destruct lk as [c|c]; cbn [deliver_action step]; rewrite T.
    - destruct (bus_deliver_net (set_net s rest) c w) as (new & E & F). rewrite E. cbn [set_net s_net]. split.
      + rewrite items_on_app, (items_on_other (Up c) new), app_nil_r; [reflexivity|].
        eapply Forall_impl; [|exact F]. intros x (o & ->). reflexivity.
      + intros lk' NE. exists (items_on lk' new). rewrite items_on_app, (TO lk' NE). reflexivity.
    - destruct (client_deliver_net g (set_net s rest) c w) as (new & E & F). rewrite E. cbn [set_net s_net]. split.
      + rewrite items_on_app, (items_on_other (Down c) new), app_nil_r; [reflexivity|].
        eapply Forall_impl; [|exact F]. intros x ->. reflexivity.
      + intros lk' NE. exists (items_on lk' new). rewrite items_on_app, (TO lk' NE). reflexivity.
  Qed.

  Lemma fold_deliveries lk : forall k s,
    (k <= length (items_on lk (s_net s)))%nat ->
    Forall (fun w => dec (enc (w_msg w)) = Some (w_msg w)) (firstn k (items_on lk (s_net s))) ->
    let s' := fold_left (handle_event lk) (map Msg (encs (firstn k (items_on lk (s_net s))))) s in
    s' = run_from g s (repeat (deliver_action lk) k) /\
    items_on lk (s_net s') = skipn k (items_on lk (s_net s)) /\
    forall lk', lk' <> lk -> exists new, items_on lk' (s_net s') = items_on lk' (s_net s) ++ new.
  Proof.
    induction k as [|k IH]; intros s LK HD; cbn zeta.
    - cbn. split; [reflexivity|]. split; [reflexivity|]. intros lk' _. exists []. rewrite app_nil_r. reflexivity.
    - pose proof (take_items lk (s_net s)) as TI.
      destruct (take lk (s_net s)) as [[w rest]|] eqn:T; [|rewrite TI in LK; cbn in LK; lia].
      destruct TI as [TI _]. rewrite TI in *. cbn [firstn encs map fold_left] in *.
      inversion HD as [|? ? D1 D2]; subst.
      rewrite (handle_msg_step lk s w rest T D1).
      destruct (deliver_step_items lk s w rest T) as [SI SO].
      set (s1 := step g s (deliver_action lk)) in *.
      cbn [length] in LK.
      assert (IHs := IH s1). rewrite SI in IHs. cbn zeta in IHs.
      destruct IHs as (E1 & E2 & E3); [lia | exact D2 |].
      fold (encs (firstn k (items_on lk rest))).
      split; [rewrite E1; cbn [repeat run_from fold_left]; reflexivity|]. split; [rewrite E2; reflexivity|].
      intros lk' NE. destruct (E3 lk' NE) as (n2 & E4). destruct (SO lk' NE) as (n1 & E5).
      exists (n1 ++ n2). rewrite E4, E5, app_assoc. reflexivity.
  Qed.

  (* ====================================================================== *)
  (* 5. steps and runs                                                         *)

  Lemma msg_count_map l : msg_count (map Msg l) = length l.
  Proof. induction l; cbn; congruence. Qed.

  Lemma rx_ok_extend r ws new : rx_ok r ws -> rx_ok r (ws ++ new).
  Proof.
    intros (A & C & K & (rest & E)). split; [exact A|]. split; [exact C|]. split; [exact K|].
    exists (rest ++ stream new). unfold SystemBytes.stream in *. rewrite map_app, concat_app, E, app_assoc. reflexivity.
  Qed.

  (* one byte-level step is the message-level steps it reports, and keeps the links in order *)
  Lemma bstep_refines bs ba :
    LinkInv bs -> net_ok (s_net (bs_sys bs)) ->
    bs_sys (fst (bstep bs ba)) = run_from g (bs_sys bs) (snd (bstep bs ba)) /\ LinkInv (fst (bstep bs ba)).
  Proof.
    intros LI NO. destruct ba as [a|lk n]; cbn [SystemBytes.bstep].
    - destruct (is_app a) eqn:IA; [|split; [reflexivity | exact LI]]. cbn [fst snd bs_sys bs_rx run_from fold_left].
      split; [reflexivity|]. intro lk. destruct (app_step_net g (bs_sys bs) a IA) as (new & E).
      cbn [bs_sys bs_rx]. rewrite E, items_on_app. apply rx_ok_extend. apply LI.
    - set (ws := items_on lk (s_net (bs_sys bs))).
      assert (WF : Forall (fun w => wellframed (enc (w_msg w))) ws).
      { apply Forall_forall. intros w H. unfold ws, items_on in H. apply in_map_iff in H as ([k x] & <- & H).
        apply filter_In in H as [H _]. exact (proj1 (NO k x H)). }
      assert (DC : forall k, Forall (fun w => dec (enc (w_msg w)) = Some (w_msg w)) (firstn k ws)).
      { intro k. apply Forall_forall. intros w H. apply firstn_in in H. unfold ws, items_on in H.
        apply in_map_iff in H as ([k0 x] & <- & H). apply filter_In in H as [H _]. exact (proj2 (NO k0 x H)). }
      destruct (link_read (bs_rx bs lk) ws n (LI lk) WF) as (k & EV & RX). cbn zeta in EV, RX.
      unfold SystemBytes.pending. fold ws.
      destruct (rx_recv (bs_rx bs lk) (firstn n (skipn (length (s_buf (bs_rx bs lk))) (stream ws)))) as [r' evs] eqn:RR.
      cbn [fst snd] in EV, RX. subst evs. cbn [fst snd bs_sys bs_rx].
      assert (KL : (length (firstn k ws) <= length ws)%nat) by (rewrite firstn_length; lia).
      set (k' := length (firstn k ws)).
      assert (FK : firstn k ws = firstn k' ws).
      { unfold k'. rewrite firstn_length. destruct (Nat.le_ge_cases k (length ws)) as [L|L].
        - rewrite Nat.min_l by exact L. reflexivity.
        - rewrite Nat.min_r by exact L. rewrite !firstn_all2 by lia. reflexivity. }
      assert (SKK : skipn k ws = skipn k' ws).
      { unfold k'. rewrite firstn_length. destruct (Nat.le_ge_cases k (length ws)) as [L|L].
        - rewrite Nat.min_l by exact L. reflexivity.
        - rewrite Nat.min_r by exact L. rewrite !skipn_all2 by lia. reflexivity. }
      assert (LK' : length (firstn k' ws) = k') by (apply firstn_length_le; exact KL).
      rewrite FK. rewrite msg_count_map, encs_length, LK'.
      destruct (fold_deliveries lk k' (bs_sys bs) KL (DC k')) as (E1 & E2 & E3). fold ws in E1, E2, E3. cbn zeta in E1, E2, E3.
      split; [exact E1|].
      intro lk'. cbn [bs_sys bs_rx]. unfold set_rx. destruct (link_eqb lk' lk) eqn:EL.
      + apply link_eqb_eq in EL. subst lk'. rewrite E2, <- SKK. exact RX.
      + assert (NE : lk' <> lk) by (intros ->; rewrite link_eqb_refl in EL; discriminate).
        destruct (E3 lk' NE) as (new & E4). rewrite E4. apply rx_ok_extend. apply LI.
  Qed.

  (* every state the run passes through holds only encodable messages *)
  Fixpoint good_run (bs : bsys) (sched : list baction) : Prop :=
    net_ok (s_net (bs_sys bs)) /\
    match sched with
    | [] => True
    | a :: r => good_run (fst (bstep bs a)) r
    end.

  Theorem brun_refines : forall sched bs,
    LinkInv bs -> good_run bs sched ->
    bs_sys (fst (brun_from bs sched)) = run_from g (bs_sys bs) (snd (brun_from bs sched)).
  Proof.
    induction sched as [|a r IH]; intros bs LI GR; cbn [SystemBytes.brun_from]; [reflexivity|].
    destruct GR as [NO GR]. destruct (bstep_refines bs a LI NO) as [E1 LI1].
    destruct (bstep bs a) as [bs1 t1] eqn:B1. cbn [fst snd] in *.
    specialize (IH bs1 LI1 GR). destruct (brun_from bs1 r) as [bs2 t2]. cbn [fst snd] in *.
    unfold run_from in *. rewrite fold_left_app, <- E1. exact IH.
  Qed.

  Lemma linkinv_init s : s_net s = [] -> LinkInv (binit s).
  Proof.
    intros E lk. cbn [binit bs_sys bs_rx]. rewrite E.
    destruct lk; (split; [reflexivity|]; split; [reflexivity|]; split; [left; reflexivity|]; exists []; reflexivity).
  Qed.

  (* the trace of a run is the trace of its parts *)
  Lemma brun_from_app a b bs :
    brun_from bs (a ++ b) =
    (fst (brun_from (fst (brun_from bs a)) b), snd (brun_from bs a) ++ snd (brun_from (fst (brun_from bs a)) b)).
  Proof.
    revert bs. induction a as [|x a IH]; intro bs; cbn [app SystemBytes.brun_from].
    - cbn [fst snd app]. destruct (brun_from bs b); reflexivity.
    - destruct (bstep bs x) as [bs1 t1]. rewrite IH. destruct (brun_from bs1 a) as [bs2 t2]. cbn [fst snd].
      rewrite app_assoc. reflexivity.
  Qed.

  Lemma good_run_app a b bs : good_run bs (a ++ b) -> good_run bs a /\ good_run (fst (brun_from bs a)) b.
  Proof.
    revert bs. induction a as [|x a IH]; intro bs; cbn [app good_run SystemBytes.brun_from].
    - intro H. split; [split; [exact (match b return good_run bs b -> _ with [] => fun h => proj1 h | _ => fun h => proj1 h end H) | exact I] | exact H].
    - intros [NO H]. destruct (IH _ H) as [H1 H2]. split; [split; assumption|].
      destruct (bstep bs x) as [bs1 t1]. cbn [fst] in *. destruct (brun_from bs1 a). exact H2.
  Qed.

  (* ====================================================================== *)
  (* 6. the end-to-end theorem over byte-level schedules                        *)

  Notation brun := (brun g enc dec).

  Theorem bytes_refine_messages h0 serial0 sched :
    good_run (binit (init h0 serial0)) sched ->
    bs_sys (fst (brun h0 serial0 sched)) = run g h0 serial0 (snd (brun h0 serial0 sched)).
  Proof.
    intro GR. unfold SystemBytes.brun, run. apply brun_refines; [|exact GR]. apply linkinv_init. reflexivity.
  Qed.

  Theorem end_to_end_bytes :
    forall (h0 : list BusRoute.event) (serial0 : nat -> N)
           (bpre bpost : list baction) (i j : client) (pidx : nat) (member : str) (args : list pyval) (kw : kwargs)
           (px : proxy) (q : creq) (d : str) (ts_in ts_out : list WireSpec.ty) (ws_in : list WireSpec.wval)
           (o : Dispatch.object) (im : Dispatch.iface) (m : Dispatch.meth),
    let B := fst (BusRoute.run h0) in
    let s1 := bs_sys (fst (brun h0 serial0 bpre)) in
    let st := bs_sys (fst (brun h0 serial0 (bpre ++ BApp (ACall i pidx member args kw) :: bpost))) in
    let n := p_serial (proc_of g s1 i) in
    let id := Calls.st_next_id (s_calls s1 i) in
    let dc := SystemSpec.arriving_call q (SystemSpec.arrived ts_in ws_in) (unique_name i) (Z.of_N n) in
    good_run (binit (init h0 serial0)) (bpre ++ BApp (ACall i pidx member args kw) :: bpost) ->
    all_hello B -> mem i (b_clients (BusRoute.r_bus B)) = true -> mem j (b_clients (BusRoute.r_bus B)) = true ->
    Validators.validate_bus (unique_name i) = true ->
    nth_error (s_proxies s1 i) pidx = Some px ->
    call_remote (ifaces_of (p_heap (proc_of g s1 i)) (px_ifaces px)) (px_bus px) (px_path px) member args kw = PcCall q ->
    q_expect q = true -> q_dest q = Some d -> route B d = Some j ->
    q_sig q = Some (WireSpec.show_list ts_in) -> q_args q = args ->
    constructible q -> n <= Calls.max_serial ->
  (forall body, encode_body (g_fuel g) (q_sig q) (PTuple (q_args q)) (Some []) = Ok body ->
                too_big (g_limit g) (g_fuel g) (call_msg q n body) = false) ->
    SystemSpec.passed ts_in args ws_in (g_fuel g) ->
    DispatchSpec.distinct_interfaces (g_exports g j) -> DispatchSpec.builtin dc = false ->
    DispatchSpec.addressed (g_exports g j) dc = DispatchSpec.TMethod o im m ->
    DispatchSpec.candidates o (Dispatch.i_name im) (q_member q) <> [] ->
    q_rs q = Calls.RsStr (Dispatch.m_out m) -> Dispatch.m_out m = WireSpec.show_list ts_out ->
    quiescent st -> ~ stuck g i j st ->
    exists f l x,
      In f (DispatchSpec.candidates o (Dispatch.i_name im) (q_member q)) /\
      SystemSpec.only (has_tag (tag_of i n)) (s_invs st) (j, tag_of i n, DispatchSpec.expected_invocation dc f) /\
      SystemSpec.only (has_tag (tag_of i n)) (s_results st) (j, tag_of i n, l) /\
      SystemSpec.only (is_done i id) (s_done st) (i, id, x) /\
      SystemSpec.mirrors ts_out (g_fuel g) l x.
  Proof.
    intros h0 serial0 bpre bpost i j pidx member args kw px q d ts_in ts_out ws_in o im m B s1 st n id dc GR.
    set (call := ACall i pidx member args kw) in *.
    set (bs0 := binit (init h0 serial0)) in *.
    destruct (good_run_app bpre (BApp call :: bpost) bs0 GR) as [G1 G2].
    (* the state in which the call is made *)
    assert (E1 : s1 = run g h0 serial0 (snd (brun h0 serial0 bpre))) by (apply bytes_refine_messages; exact G1).
    (* the whole run *)
    assert (E2 : st = run g h0 serial0 (snd (brun h0 serial0 bpre) ++ call :: snd (brun_from (fst (bstep (fst (brun h0 serial0 bpre)) (BApp call))) bpost))).
    { unfold st. rewrite (bytes_refine_messages h0 serial0 _ GR). unfold SystemBytes.brun. fold bs0.
      rewrite brun_from_app. cbn [snd]. f_equal. f_equal.
      cbn [SystemBytes.brun_from SystemBytes.bstep is_app call].
      destruct (brun_from _ bpost) as [b2 t2]. reflexivity. }
    clearbody s1 st. subst s1 st. apply end_to_end.
  Qed.
End Bytes.

(* ======================================================================== *)
(* 7. the hypothesis on the messages in flight, decided by computation        *)
From Tx Require Model.Router.
From Tx Require Import Model.WireCodec.

Lemma ostr_eqb_eq a b : ostr_eqb a b = true -> a = b.
Proof. destruct a, b; cbn; intro H; try discriminate; [apply str_eqb_spec in H; subst|]; reflexivity. Qed.

Lemma bmsg_eqb_eq a b : bmsg_eqb a b = true -> a = b.
Proof.
  unfold bmsg_eqb. intro H. repeat (apply andb_true_iff in H as [H ?]).
  destruct a, b; cbn in *.
  repeat match goal with
         | X : Bool.eqb _ _ = true |- _ => apply Bool.eqb_prop in X
         | X : (_ =? _) = true |- _ => apply N.eqb_eq in X
         | X : ostr_eqb _ _ = true |- _ => apply ostr_eqb_eq in X
         | X : str_eqb _ _ = true |- _ => apply str_eqb_spec in X
         end.
  subst.
  repeat match goal with
         | X : match ?a with Some _ => _ | None => _ end = true |- _ => destruct a
         | X : match ?a with Some _ => _ | None => _ end = true |- _ => destruct a
         end; try discriminate;
  repeat match goal with X : (_ =? _) = true |- _ => apply N.eqb_eq in X end; subst; reflexivity.
Qed.

Section Decide.
  Variable g : config.
  Variable enc : BusRoute.bmsg -> bytes.
  Variable dec : bytes -> option BusRoute.bmsg.

  Lemma encodableb_ok m : encodableb enc dec m = true -> encodable enc dec m.
  Proof.
    unfold WireCodec.encodableb. intro H. apply andb_true_iff in H as [H H3]. apply andb_true_iff in H as [H1 H2].
    split; [split; [apply N.leb_le; exact H1 | apply N.eqb_eq; exact H2]|].
    destruct (dec (enc m)) as [m'|]; [|discriminate]. apply bmsg_eqb_eq in H3. subst. reflexivity.
  Qed.

  Lemma net_okb_ok net : net_okb enc dec net = true -> net_ok enc dec net.
  Proof.
    intros H lk w IN. unfold WireCodec.net_okb in H. rewrite forallb_forall in H. apply encodableb_ok. exact (H (lk, w) IN).
  Qed.

  Fixpoint good_runb (bs : bsys) (sched : list baction) : bool :=
    net_okb enc dec (s_net (bs_sys bs)) &&
    match sched with
    | [] => true
    | a :: r => good_runb (fst (bstep g enc dec bs a)) r
    end.

  Lemma good_runb_ok : forall sched bs, good_runb bs sched = true -> good_run g enc dec bs sched.
  Proof.
    induction sched as [|a r IH]; intros bs H; cbn [good_runb good_run] in *; apply andb_true_iff in H as [H1 H2].
    - split; [apply net_okb_ok; exact H1 | exact I].
    - split; [apply net_okb_ok; exact H1 | apply IH; exact H2].
  Qed.
End Decide.

(* ======================================================================== *)
(* 8. the two-order scenario of Proofs/SystemProofs.v, order B, at byte level:
      everything the exporter (client 2) reads arrives one byte at a time       *)

Definition y_enc := wire_enc 8.
Definition y_dec := wire_dec 8.

Definition y_all (lk : link) : baction := BDeliver lk 4000.         (* everything pending, in one read *)
Definition y_bytewise (lk : link) : list baction := repeat (BDeliver lk 1) 200.   (* 200 reads of one byte *)

Definition y_pre : list baction :=
  map BApp x_prefix ++ [BApp (x_call 3 9); y_all (Up 3)] ++ y_bytewise (Down 2).
Definition y_post : list baction :=
  [y_all (Up 2); y_all (Up 1); y_all (Down 3)] ++ y_bytewise (Down 2) ++ [y_all (Up 2); y_all (Down 1)].
Definition y_sched : list baction := y_pre ++ BApp (x_call 1 7) :: y_post.

Definition y_run := brun x_cfg y_enc y_dec x_h0 (fun _ => 10) y_sched.

Lemma example_bytes :
  (* the request of client 3 is 92 bytes long: 91 one-byte reads deliver nothing, the 92nd the call *)
  length (y_enc (call_msg (mkReq x_path x_M (Some x_iface) (Some (unique_name 2)) (Some x_i) [PInt 9] true true None
                                 (Calls.RsStr x_i)) 10 [9; 0; 0; 0])) = 92%nat /\
  (* the message-level schedule the byte-level one amounts to is order B *)
  snd y_run = x_order_b /\
  x_done (bs_sys (fst y_run)) = [(3, 0%nat, CValue (Some (PInt 9))); (1, 0%nat, CValue (Some (PInt 7)))] /\
  x_args (bs_sys (fst y_run)) = [(2, [PInt 9]); (2, [PInt 7])] /\
  s_net (bs_sys (fst y_run)) = [] /\ s_open (bs_sys (fst y_run)) = [] /\
  (* every message in flight at every step is encodable: the hypothesis of the refinement holds *)
  good_runb x_cfg y_enc y_dec (binit (init x_h0 (fun _ => 10))) y_sched = true.
Proof. vm_compute. repeat split; reflexivity. Qed.
