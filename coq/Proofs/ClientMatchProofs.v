(* Proofs for C12, client layer: the rule texts the reference daemon holds are
   the texts of the client's live rules (as multisets), so a signal that
   satisfies a live rule is forwarded and reaches its callback once. *)
From Tx Require Import Lib.Base Lib.Sexp Model.Router Spec.MatchSpec Spec.DaemonSpec Model.ClientMatch.
From Tx Require Import Proofs.RouterProofs Proofs.RuleTextProofs.
From Coq Require Import Permutation.
Local Open Scope N_scope.

(* the hypotheses of C12_rule_string *)
(* the hypotheses of C12_rule_string on the values; the rule without any
   constraint (text '') is allowed *)
Definition good_rule (r : rule) : Prop :=
  values_clean c_comma r = true /\ values_clean c_eq r = true.

Definition good_history (h : list cevent) : Prop :=
  forall r k, In (CAdd r k) h -> good_rule r /\ cb_acts k = [].

Definition texts_of (l : list (nat * rule * cbk)) : list (nat * str) :=
  map (fun x => (fst (fst x), rule_string (snd (fst x)))) l.

Lemma rule_of_text_good r :
  good_rule r -> rule_of_text (rule_string r) = if registrable r then Some r else None.
Proof.
  intros (H2 & H3). unfold rule_of_text.
  destruct (rule_items r) as [|it items] eqn:E.
  - rewrite (rule_items_nil r E). reflexivity.
  - assert (H1 : r <> empty_rule) by (intro X; rewrite X in E; discriminate E).
    pose proof (rule_string_round_trip r H1 H2 H3) as RT.
    destruct (rule_string r) as [|c t] eqn:Es.
    + vm_compute in RT. discriminate RT.
    + rewrite RT. reflexivity.
Qed.

(* ---- histories grown at the end ------------------------------------------------------ *)

Lemma registrations_length h n : length (registrations h n) = length (registrations h 0).
Proof.
  revert n. induction h as [|e h IH]; intros n; cbn; [reflexivity|].
  destruct e as [r k|j|m]; try apply IH.
  destruct (registrable r); cbn; [rewrite (IH (S n)), (IH 1%nat); reflexivity | apply IH].
Qed.

Definition lid (x : nat * rule * cbk) : nat := fst (fst x).

Lemma flat_map_removed_snoc (j : option nat) (l : list (nat * rule * cbk * list event)) e :
  (forall i, removed_in i [e] = match j with Some j' => Nat.eqb i j' | None => false end) ->
  flat_map (fun x => match x with (i, r, k, later) => if removed_in i later then [] else [(i, r, k)] end)
           (map (fun x => match x with (i, r, k, later) => (i, r, k, later ++ [e]) end) l) =
  filter (fun x => match j with Some j' => negb (Nat.eqb (lid x) j') | None => true end)
         (flat_map (fun x => match x with (i, r, k, later) => if removed_in i later then [] else [(i, r, k)] end) l).
Proof.
  intros He. induction l as [|[[[i r] k] later] l IH]; cbn [map flat_map]; [reflexivity|].
  rewrite IH, filter_app_, removed_in_app, He. f_equal.
  destruct (removed_in i later); cbn [orb filter]; [reflexivity|].
  destruct j as [j'|]; cbn [filter lid fst]; [destruct (Nat.eqb i j'); reflexivity | reflexivity].
Qed.

Lemma live_snoc h e :
  live (h ++ [e]) =
  match e with
  | EAdd r k => live h ++ (if registrable r then [(length (registrations h 0), r, k)] else [])
  | EDel j => filter (fun x => negb (Nat.eqb (lid x) j)) (live h)
  | ERoute _ => live h
  end.
Proof.
  unfold live. rewrite registrations_app, flat_map_app. cbn [plus].
  destruct e as [r k|j|m].
  - rewrite (flat_map_removed_snoc None) by reflexivity.
    rewrite filter_true_ by reflexivity. f_equal.
    cbn [registrations]. destruct (registrable r); reflexivity.
  - rewrite (flat_map_removed_snoc (Some j)); [|intros i; cbn; apply orb_false_r].
    cbn [registrations flat_map]. apply app_nil_r.
  - rewrite (flat_map_removed_snoc None) by reflexivity.
    rewrite filter_true_ by reflexivity. cbn [registrations flat_map]. apply app_nil_r.
Qed.

Lemma run_snoc h e : run (h ++ [e]) = fst (step (run h) e).
Proof. unfold run, run_from. rewrite fold_left_app. reflexivity. Qed.

Lemma passive_app h1 h2 : passive_history (h1 ++ h2) -> passive_history h1.
Proof. intros P r k H. eapply P. apply in_or_app. left; exact H. Qed.

Lemma next_id_run h : passive_history h -> next_id (run h) = length (registrations h 0).
Proof.
  induction h as [|e h IH] using rev_ind; intros P; [reflexivity|].
  pose proof (passive_app _ _ P) as Ph. specialize (IH Ph). destruct (run_rules h Ph) as [W _].
  rewrite run_snoc, registrations_app, app_length, map_length. cbn [plus].
  rewrite (registrations_length [e] (length (registrations h 0))), <- IH.
  destruct e as [r k|j|m]; cbn [step registrations length].
  - unfold add_match, add_match_with. destruct (registrable r) eqn:R.
    + destruct (proj1 (compile_registrable r) R) as [c ->]. cbn. lia.
    + destruct (proj2 (compile_registrable r) R) as [-> _]. cbn. lia.
  - unfold del_match. destruct (alist_get Nat.eqb j (rules (run h))); cbn; lia.
  - rewrite (route_message_passive m _ W). cbn. lia.
Qed.

(* ---- association lists and multisets --------------------------------------------------- *)

Lemma d_remove_in t d :
  In t d -> exists d', d_remove t d = Some d' /\ Permutation d (t :: d').
Proof.
  induction d as [|x d IH]; [intros []|]. intros H. cbn [d_remove].
  destruct (str_eqb t x) eqn:E.
  - apply str_eqb_spec in E. subst x. exists d. split; [reflexivity | apply Permutation_refl].
  - destruct H as [H|H]; [subst x; rewrite str_eqb_refl in E; discriminate|].
    destruct (IH H) as (d' & -> & P). exists (x :: d'). split; [reflexivity|].
    eapply perm_trans; [apply perm_skip; exact P | apply perm_swap].
Qed.

Lemma alist_del_perm (l : list (nat * str)) j t :
  alist_get Nat.eqb j l = Some t ->
  Permutation (map snd l) (t :: map snd (alist_del Nat.eqb j l)).
Proof.
  induction l as [|[i x] l IH]; cbn; [discriminate|].
  destruct (Nat.eqb j i).
  - intros [= ->]. apply Permutation_refl.
  - intros H. cbn. eapply perm_trans; [apply perm_skip; apply IH; exact H | apply perm_swap].
Qed.

Lemma texts_keys l : map fst (texts_of l) = map lid l.
Proof. unfold texts_of. rewrite map_map. reflexivity. Qed.

Lemma enc_keys l : map fst (map enc l) = map lid l.
Proof. rewrite map_map. apply map_ext. intros [[i r] k]. reflexivity. Qed.

Lemma texts_of_filter f l :
  filter (fun e => f (fst e)) (texts_of l) = texts_of (filter (fun x => f (lid x)) l).
Proof.
  induction l as [|x l IH]; [reflexivity|].
  change (texts_of (x :: l)) with ((lid x, rule_string (snd (fst x))) :: texts_of l).
  cbn [filter fst]. destruct (f (lid x)); [change (texts_of (x :: filter (fun x0 => f (lid x0)) l))
    with ((lid x, rule_string (snd (fst x))) :: texts_of (filter (fun x0 => f (lid x0)) l))|]; rewrite IH; reflexivity.
Qed.

Lemma live_from_event h n i r k : In (i, r, k) (live_from h n) -> In (EAdd r k) h.
Proof.
  intros H. apply live_in_registrations in H as (later & H & _). revert n H.
  induction h as [|e h IH]; intros n; cbn; [tauto|].
  destruct e as [r' k'|j|m]; try (intros H; right; eapply IH; exact H).
  destruct (registrable r'); [|intros H; right; eapply IH; exact H].
  intros [H|H]; [left; congruence | right; eapply IH; exact H].
Qed.

Lemma nodup_keys_functional (l : list (nat * str)) i a b :
  NoDup (map fst l) -> In (i, a) l -> In (i, b) l -> a = b.
Proof.
  induction l as [|[j x] l IH]; [intros _ []|].
  cbn [map fst]. intros ND Ha Hb. inversion ND as [|? ? Hj ND']; subst.
  assert (K : forall y, In (j, y) l -> False).
  { intros y Hy. apply Hj. apply in_map_iff. exists (j, y). split; [reflexivity | exact Hy]. }
  destruct Ha as [Ea|Ha], Hb as [Eb|Hb].
  - congruence.
  - injection Ea as -> ->. exfalso. eapply K; exact Hb.
  - injection Eb as -> ->. exfalso. eapply K; exact Ha.
  - apply IH; assumption.
Qed.

(* ---- the invariant ------------------------------------------------------------------------ *)

Definition agree (h : list cevent) : Prop :=
  cl_router (fst (crun h)) = run (map revent h) /\
  cl_texts (fst (crun h)) = texts_of (live (map revent h)) /\
  Permutation (snd (crun h)) (map snd (cl_texts (fst (crun h)))).

Lemma good_passive h : good_history h -> passive_history (map revent h).
Proof.
  intros G r k H. apply in_map_iff in H as (e & E & Hin). destruct e; try discriminate.
  injection E as -> ->. exact (proj2 (G _ _ Hin)).
Qed.

Lemma good_app h1 h2 : good_history (h1 ++ h2) -> good_history h1.
Proof. intros G r k H. apply G. apply in_or_app. left; exact H. Qed.

Lemma crun_snoc h e : crun (h ++ [e]) = fst (cstep (crun h) e).
Proof. unfold crun. rewrite fold_left_app. reflexivity. Qed.

Theorem client_daemon_agree h : good_history h -> agree h.
Proof.
  induction h as [|e h IH] using rev_ind; intros G.
  - repeat split. apply Permutation_refl.
  - pose proof (good_app _ _ G) as Gh. destruct (IH Gh) as (Hr & Ht & Hp). clear IH.
    pose proof (good_passive h Gh) as P. destruct (run_rules _ P) as [W Hrules].
    unfold agree. rewrite crun_snoc, map_app. cbn [map]. rewrite run_snoc, live_snoc.
    destruct (crun h) as [c d] eqn:Ecr. cbn [fst snd] in Hr, Ht, Hp.
    assert (Hkeys : map fst (cl_texts c) = map fst (rules (run (map revent h)))).
    { rewrite Ht, Hrules, texts_keys, enc_keys. reflexivity. }
    destruct e as [r k|j|m]; cbn [cstep revent step].
    + (* addMatch *)
      assert (Gr : good_rule r) by (apply (G r k); apply in_or_app; right; left; reflexivity).
      unfold d_add. rewrite (rule_of_text_good r Gr).
      unfold client_add_ok, add_match, add_match_with. rewrite Hr.
      destruct (registrable r) eqn:R.
      * destruct (proj1 (compile_registrable r) R) as [cc Ec]. rewrite Ec. cbn [fst snd cl_router cl_texts].
        assert (Hfresh : ~ In (next_id (run (map revent h))) (map fst (cl_texts c))).
        { rewrite Hkeys. intro H. apply in_map_iff in H as ([i x] & Ei & Hin). cbn in Ei. subst i.
          apply (wf_lt _ W) in Hin. lia. }
        rewrite (alist_set_fresh (cl_texts c)) by exact Hfresh.
        split; [reflexivity|]. split.
        -- rewrite Ht. unfold texts_of. rewrite map_app. cbn [map fst snd].
           rewrite (next_id_run _ P). reflexivity.
        -- rewrite map_app. cbn [map snd]. apply Permutation_cons_app. rewrite app_nil_r. exact Hp.
      * destruct (proj2 (compile_registrable r) R) as [Ec _]. rewrite Ec. cbn [fst snd].
        rewrite app_nil_r. split; [exact Hr|]. split; [exact Ht | exact Hp].
    + (* delMatch *)
      unfold client_del_text.
      destruct (alist_get Nat.eqb j (cl_texts c)) as [t|] eqn:Gt.
      * assert (Hin : In t d).
        { apply (Permutation_in t (Permutation_sym Hp)). apply alist_get_some_in in Gt.
          apply in_map_iff. exists (j, t). split; [reflexivity | exact Gt]. }
        destruct (d_remove_in t d Hin) as (d' & -> & Pd). cbn [fst snd client_del_ok cl_router cl_texts].
        rewrite Hr.
        assert (ND : NoDup (map fst (cl_texts c))) by (rewrite Hkeys; exact (wf_nodup _ W)).
        split; [destruct (del_match j (run (map revent h))); reflexivity|]. split.
        -- rewrite alist_del_filter by exact ND. rewrite Ht.
           rewrite (texts_of_filter (fun i => negb (Nat.eqb j i))).
           f_equal. apply filter_ext_in_. intros x _. rewrite Nat.eqb_sym. reflexivity.
        -- apply (Permutation_cons_inv (a := t)).
           eapply perm_trans; [apply Permutation_sym; exact Pd|].
           eapply perm_trans; [exact Hp|]. apply alist_del_perm; exact Gt.
      * cbn [fst snd].
        assert (Hn : ~ In j (map fst (rules (run (map revent h))))).
        { rewrite <- Hkeys. apply alist_get_none. exact Gt. }
        unfold del_match. rewrite (proj2 (alist_get_none _ _) Hn). cbn [fst].
        split; [exact Hr|]. split; [|exact Hp].
        rewrite Ht. f_equal. symmetry. apply filter_true_. intros x Hx.
        apply negb_true_iff. apply Nat.eqb_neq. intro E. apply Hn.
        rewrite Hrules, enc_keys. apply in_map_iff. exists x. split; [exact E | exact Hx].
    + (* a signal on the bus *)
      rewrite (route_message_passive m _ W). cbn [fst].
      destruct (d_forwards d m); [|cbn [fst snd]; auto].
      rewrite Hr, (route_message_passive m _ W). cbn [fst snd cl_router cl_texts]. auto.
Qed.

(* ---- consequences ------------------------------------------------------------------------- *)

(* a signal emitted after the history reaches exactly one callback per live
   rule it satisfies: the daemon forwards it when there is such a rule, and
   otherwise nothing is called *)
Theorem client_signal_served h m :
  good_history h -> csignal_called h m = expected (map revent h) m.
Proof.
  intros G. destruct (client_daemon_agree h G) as (Hr & Ht & Hp).
  pose proof (good_passive h G) as P.
  unfold csignal_called. destruct (crun h) as [c d]. cbn [fst snd] in *. cbn [cstep].
  destruct (d_forwards d m) eqn:F.
  - destruct (route_message m (cl_router c)) as [rt l] eqn:E. cbn [snd].
    rewrite <- (called_expected _ m P). unfold called_after. rewrite <- Hr, E. reflexivity.
  - cbn [snd]. destruct (expected (map revent h) m) as [|[i t] l] eqn:E; [reflexivity|]. exfalso.
    assert (Hin : In (i, t) (expected (map revent h) m)) by (rewrite E; left; reflexivity).
    apply expected_in in Hin as (r & k & Hl & _ & M).
    assert (Gr : good_rule r).
    { rewrite live_is_live_from in Hl. apply live_from_event in Hl.
      apply in_map_iff in Hl as (e & Ee & He). destruct e; try discriminate. injection Ee as -> ->.
      exact (proj1 (G _ _ He)). }
    assert (R : registrable r = true) by (rewrite live_is_live_from in Hl; eapply live_from_registrable; exact Hl).
    assert (Hd : In (rule_string r) d).
    { apply (Permutation_in _ (Permutation_sym Hp)). rewrite Ht. unfold texts_of. rewrite map_map. cbn [snd].
      apply in_map_iff. exists (i, r, k). split; [reflexivity | exact Hl]. }
    unfold d_forwards in F. rewrite <- not_true_iff_false in F. apply F. apply existsb_exists.
    exists (rule_string r). split; [exact Hd|]. rewrite (rule_of_text_good r Gr), R. exact M.
Qed.

(* RemoveMatch for a live rule is never refused, and carries the text the
   rule was added with *)
Theorem client_remove_live_ok h i r k :
  good_history h -> In (i, r, k) (live (map revent h)) ->
  snd (cstep (crun h) (CDel i)) = OCDeleted [WRemove (rule_string r)] (Ok tt).
Proof.
  intros G Hl. destruct (client_daemon_agree h G) as (Hr & Ht & Hp).
  pose proof (good_passive h G) as P. destruct (run_rules _ P) as [W Hrules].
  destruct (crun h) as [c d]. cbn [fst snd] in *. cbn [cstep]. unfold client_del_text.
  assert (ND : NoDup (map fst (cl_texts c))).
  { rewrite Ht, texts_keys, <- enc_keys, <- Hrules. exact (wf_nodup _ W). }
  assert (Hin : In (i, rule_string r) (cl_texts c)).
  { rewrite Ht. unfold texts_of. apply in_map_iff. exists (i, r, k). split; [reflexivity | exact Hl]. }
  destruct (alist_get Nat.eqb i (cl_texts c)) as [t|] eqn:Gt.
  - assert (t = rule_string r).
    { apply alist_get_some_in in Gt. exact (nodup_keys_functional _ _ _ _ ND Gt Hin). }
    subst t.
    assert (Hd : In (rule_string r) d).
    { apply (Permutation_in _ (Permutation_sym Hp)). apply in_map_iff. eexists; split; [|exact Hin]; reflexivity. }
    destruct (d_remove_in _ _ Hd) as (d' & -> & _). reflexivity.
  - exfalso. apply alist_get_none in Gt. apply Gt. apply in_map_iff. eexists; split; [|exact Hin]; reflexivity.
Qed.

(* non-vacuity: the same rule text registered twice, one instance removed *)
Definition w_dup : list cevent :=
  [ CAdd w_rule (passive 1 false); CAdd w_rule (passive 2 true); CDel 0%nat;
    CSignal (w_sig w_ab None); CDel 0%nat; CDel 1%nat; CSignal (w_sig w_ab None) ].

Definition w_rule_text : str := rule_string w_rule.

Lemma w_dup_ok :
  good_history w_dup /\
  ctrace w_dup =
    [ OCAdded [WAdd w_rule_text] (Ok 0%nat); OCAdded [WAdd w_rule_text] (Ok 1%nat);
      OCDeleted [WRemove w_rule_text] (Ok tt);
      OCSignal true [(1%nat, 2)];
      OCDeleted [] (Err EKey); OCDeleted [WRemove w_rule_text] (Ok tt);
      OCSignal false [] ] /\
  snd (crun (firstn 3 w_dup)) = [w_rule_text] /\
  snd (crun w_dup) = [].
Proof.
  split.
  - intros r k H. cbn in H.
    repeat (destruct H as [H|H]; [try discriminate H; injection H as <- <-; (split; [|reflexivity]);
                                  (split; vm_compute; reflexivity)|]).
    destruct H.
  - vm_compute. repeat split; reflexivity.
Qed.

(* non-vacuity: the rule without constraints (text '') added, removed,
   added again, with signals in between *)
Definition w_catch_all : list cevent :=
  [ CAdd empty_rule (passive 1 false); CSignal (w_sig w_ab None); CDel 0%nat; CSignal (w_sig w_ab None);
    CAdd empty_rule (passive 2 true); CSignal (w_sig w_abc None); CDel 0%nat; CDel 1%nat;
    CSignal (w_sig w_ab None) ].

Lemma w_catch_all_ok :
  good_history w_catch_all /\
  ctrace w_catch_all =
    [ OCAdded [WAdd []] (Ok 0%nat); OCSignal true [(0%nat, 1)];
      OCDeleted [WRemove []] (Ok tt); OCSignal false [];
      OCAdded [WAdd []] (Ok 1%nat); OCSignal true [(1%nat, 2)];
      OCDeleted [] (Err EKey); OCDeleted [WRemove []] (Ok tt);
      OCSignal false [] ].
Proof.
  split.
  - intros r k H. cbn in H.
    repeat (destruct H as [H|H]; [try discriminate H; injection H as <- <-; (split; [|reflexivity]);
                                  (split; vm_compute; reflexivity)|]).
    destruct H.
  - vm_compute. reflexivity.
Qed.

Theorem client_daemon_agree_perm h :
  good_history h ->
  Permutation (snd (crun h)) (map snd (cl_texts (fst (crun h)))) /\
  cl_texts (fst (crun h)) = texts_of (live (map revent h)) /\
  cl_router (fst (crun h)) = run (map revent h).
Proof. intros G. destruct (client_daemon_agree h G) as (a & b & c). auto. Qed.
