(* Bridges between the model of the current message.py (Model/MessageCur.v) and
   the models the individual properties use: Model/Message.v (C03, C04),
   Model/MarshalCost.v (C05), Model/FdFraming.v (C20), Model/BusRoute.v (C14). *)
From Tx Require Import Lib.Base Model.PyVal Model.Validators Model.Marshal Model.Message Model.MessageCur
  Model.FdFraming Model.MarshalCost Proofs.FdProofs Proofs.MessageProofs
  Spec.WireSpec Spec.Readback Spec.Conforms Spec.WireTyped Spec.Grammar Spec.MsgSpec
  Proofs.BytesProofs Proofs.SigProofs Proofs.MarshalProofs Proofs.UnmarshalProofs Proofs.ValidatorsProofs.
Local Open Scope N_scope.

(* the message part of a parseMessage result *)
Definition msg_part (r : res parsed_cur) : res parsed :=
  match r with Ok (p, _, _) => Ok p | Err e => Err e end.

(* case analysis on a decoded header along "hval[1], hval[2], hval[5], hval[6]":
   leaves the one case [_; PInt mt; PInt flags; _; _; PInt serial; PList fields] *)
Ltac split_hval hval :=
  let a := fresh "h0" in let b := fresh "h1" in let c := fresh "h2" in let d := fresh "h3" in
  let e := fresh "h4" in let f := fresh "h5" in let g := fresh "h6" in let h := fresh "h7" in let t := fresh "ht" in
  let done := (cbn [msg_part hdr_view bind snd]; match goal with |- Err _ = Err _ => reflexivity end) in
  destruct hval as [|a [|b [|c [|d [|e [|f [|g [|h t]]]]]]]]; try done;
  destruct b; try done; destruct c; try done;
  destruct f; try done; destruct g; try done.

(* --- the helper functions are the same functions --------------------------------------- *)

Lemma sig_check_body_sig attrs : sig_check attrs = body_sig attrs.
Proof. reflexivity. Qed.

Lemma slice_bound_bound_of v : slice_bound v = bound_of v.
Proof. reflexivity. Qed.

Lemma take_upto_slice_to l b : take_upto l b = slice_to l b.
Proof. reflexivity. Qed.

Lemma own_fds_body_fds attrs fds : own_fds attrs fds = body_fds false attrs fds.
Proof. reflexivity. Qed.

Lemma raw_body_of_body_of n raw : raw_body_of n raw = body_of n raw.
Proof. reflexivity. Qed.

(* --- 1. MarshalCost.parse_gen / parse_message_v2 (C05), all inputs ------------------------- *)

Theorem parse_cur_gen_parse_gen fh fb raw fds :
  msg_part (parse_cur_gen fh fb raw fds) = parse_gen fh fb raw fds.
Proof.
  unfold parse_cur_gen, parse_gen. destruct raw as [|b0 raw']; [reflexivity|].
  destruct (m_unmarshal fh header_format (b0 :: raw') 0 (b0 =? 108) fds) as [[nheader hval]|e]; [|reflexivity].
  cbn [bind]. split_hval hval. cbn [hdr_view].
  destruct (negb ((1 <=? z)%Z && (z <=? 4)%Z)); [reflexivity|].
  destruct (set_fields l []) as [attrs|e]; [|reflexivity]. cbn [bind].
  rewrite sig_check_body_sig. destruct (body_sig attrs) as [[sig|]|e]; [|reflexivity|reflexivity]. cbn [bind].
  rewrite own_fds_body_fds. destruct (body_fds false attrs fds) as [bf|e]; [|reflexivity]. cbn [bind].
  rewrite raw_body_of_body_of.
  destruct (m_unmarshal _ sig _ 0 _ bf) as [[n body]|e]; reflexivity.
Qed.

(* parseMessage with the fuel that always suffices for each of the two decoder calls *)
Definition parse_message_cur_lin (raw : bytes) (fds : fdst) : res parsed_cur :=
  parse_cur_gen (lin_fuel header_format raw) lin_fuel raw fds.

Theorem parse_cur_v2 raw fds : msg_part (parse_message_cur_lin raw fds) = parse_message_v2 raw fds.
Proof. unfold parse_message_cur_lin, parse_message_v2. exact (parse_cur_gen_parse_gen _ _ raw fds). Qed.

(* --- 2. FdFraming.parse_message_fd false (C20) ---------------------------------------------- *)

(* the attributes the header of a message sets *)
Definition header_attrs (fuel : nat) (raw : bytes) (fds : fdst) : res (list (attr * pyval)) :=
  match raw with
  | [] => Err EIndex
  | b0 :: _ =>
      do r <- m_unmarshal fuel header_format raw 0 (b0 =? 108) fds;
      match snd r with
      | [_; PInt _; PInt _; _; _; PInt _; PList fields] => set_fields fields []
      | _ => Err EOther
      end
  end.

(* the SIGNATURE field is absent, empty (falsy), or a str of at most 255
   characters (hence at most 1020 bytes of UTF-8) *)
Definition sig_attr_ok (attrs : list (attr * pyval)) : Prop :=
  match get_attr ASignature attrs with
  | None => True
  | Some sv => truthy sv = false \/
               exists sig, sv = PStr sig /\ (str_len sig <= 255)%nat /\ (length sig <= 1020)%nat
  end.

Lemma sig_check_ok attrs : sig_attr_ok attrs ->
  sig_check attrs = match get_attr ASignature attrs with
                    | Some sv => if truthy sv then match sv with PStr sig => Ok (Some sig) | _ => Err EMarshal end
                                 else Ok None
                    | None => Ok None
                    end /\
  match get_attr ASignature attrs with
  | Some sv => truthy sv = true -> exists sig, sv = PStr sig
  | None => True
  end.
Proof.
  unfold sig_attr_ok, sig_check. destruct (get_attr ASignature attrs) as [sv|]; [|auto].
  intros [F | (sig & -> & L1 & L2)].
  - rewrite F. split; [reflexivity|]. discriminate.
  - split; [|eauto]. destruct (truthy (PStr sig)); [|reflexivity].
    destruct (Nat.ltb_spec 255 (str_len sig)); [lia|]. destruct (Nat.ltb_spec 1020 (length sig)); [lia|]. reflexivity.
Qed.

Theorem parse_cur_fd fuel raw fds :
  (forall attrs, header_attrs fuel raw fds = Ok attrs -> sig_attr_ok attrs) ->
  msg_part (parse_message_cur fuel raw fds) = parse_message_fd false fuel raw fds.
Proof.
  unfold parse_message_cur, parse_cur_gen, parse_message_fd, header_attrs. intros H.
  destruct raw as [|b0 raw']; [reflexivity|].
  destruct (m_unmarshal fuel header_format (b0 :: raw') 0 (b0 =? 108) fds) as [[nheader hval]|e]; [|reflexivity].
  cbn [bind snd] in *. split_hval hval.
  destruct (negb ((1 <=? z)%Z && (z <=? 4)%Z)); [reflexivity|].
  destruct (set_fields l []) as [attrs|e]; [|reflexivity]. cbn [bind].
  destruct (sig_check_ok attrs (H attrs eq_refl)) as [-> Hs].
  destruct (get_attr ASignature attrs) as [sv|]; [|reflexivity].
  destruct (truthy sv) eqn:T; [|reflexivity].
  destruct (Hs eq_refl) as [sig ->]. cbn [bind].
  rewrite own_fds_body_fds. destruct (body_fds false attrs fds) as [bf|e]; [|reflexivity]. cbn [bind].
  unfold raw_body_of.
  destruct (m_unmarshal fuel sig _ 0 _ bf) as [[n body]|e]; reflexivity.
Qed.

(* --- 3. Message.parse_message false (C03, C04) ------------------------------------------------ *)

(* no descriptors: no list, or an empty one and a UNIX_FDS field (if any) that is an integer *)
Definition fds_trivial (attrs : list (attr * pyval)) (fds : fdst) : Prop :=
  fds = None \/
  (fds = Some [] /\ match get_attr AUnixFds attrs with
                    | None => True
                    | Some v => exists b, slice_bound v = Ok b
                    end).

Lemma own_fds_trivial attrs fds : fds_trivial attrs fds -> own_fds attrs fds = Ok fds.
Proof.
  intros [-> | [-> H]]; [reflexivity|]. unfold own_fds.
  destruct (get_attr AUnixFds attrs) as [v|]; [|reflexivity].
  destruct H as [b ->]. cbn [bind]. destruct b as [z|]; [|reflexivity].
  unfold take_upto. rewrite firstn_nil. reflexivity.
Qed.

Theorem parse_cur_message fuel raw fds :
  (forall attrs, header_attrs fuel raw fds = Ok attrs -> sig_attr_ok attrs /\ fds_trivial attrs fds) ->
  msg_part (parse_message_cur fuel raw fds) = parse_message false fuel raw fds.
Proof.
  intros H. rewrite parse_cur_fd by (intros attrs Ha; exact (proj1 (H attrs Ha))).
  rewrite <- parse_message_fd_legacy.
  unfold parse_message_fd, header_attrs in *.
  destruct raw as [|b0 raw']; [reflexivity|].
  destruct (m_unmarshal fuel header_format (b0 :: raw') 0 (b0 =? 108) fds) as [[nheader hval]|e]; [|reflexivity].
  cbn [bind snd] in *. split_hval hval.
  destruct (negb ((1 <=? z)%Z && (z <=? 4)%Z)); [reflexivity|].
  destruct (set_fields l []) as [attrs|e]; [|reflexivity]. cbn [bind].
  destruct (H attrs eq_refl) as [_ Ht].
  destruct (get_attr ASignature attrs) as [sv|]; [|reflexivity].
  destruct (truthy sv); [|reflexivity].
  rewrite <- own_fds_body_fds, (own_fds_trivial attrs fds Ht). reflexivity.
Qed.

(* --- 4. Message.marshal_msg / marshal_msg_st / construct_st (C03) ---------------------------- *)

(* reply_serial is unset, None, or stored the way the constructors store it
   (marshal.UInt32) - the pre-D25 _marshal wrote a plain int as INT32 *)
Definition rs_wrapped (attrs : list (attr * pyval)) : Prop :=
  match get_attr AReplySerial attrs with
  | None | Some PNone => True
  | Some v => exists z, v = PWrap 117 (PInt z)
  end.

(* path and signature are unset, None or a plain str (ObjectPath / Signature of
   anything else: str() conversion, outside both models) *)
Definition plain_str (a : attr) (attrs : list (attr * pyval)) : Prop :=
  match get_attr a attrs with
  | None | Some PNone => True
  | Some v => exists s, v = PStr s
  end.

Definition marshal_args_ok (attrs : list (attr * pyval)) : Prop :=
  rs_wrapped attrs /\ plain_str APath attrs /\ plain_str ASignature attrs.

Definition hdr_item_m (attrs : list (attr * pyval)) (a : attr) : list pyval :=
  match get_attr a attrs with
  | Some PNone | None => []
  | Some v => [PList [PInt (Z.of_N (attr_code a)); header_value a v]]
  end.

Lemma header_items_cur_flat attrs order :
  (forall a v, In a order -> get_attr a attrs = Some v -> v <> PNone ->
               header_value_cur a v = Ok (header_value a v)) ->
  header_items_cur attrs order = Ok (flat_map (hdr_item_m attrs) order).
Proof.
  induction order as [|a r IH]; intros H; [reflexivity|].
  cbn [header_items_cur flat_map]. unfold hdr_item_m at 1.
  assert (IH' := IH (fun a' v Hi => H a' v (or_intror Hi))).
  destruct (get_attr a attrs) as [v|] eqn:G; [|exact IH'].
  destruct v; try (rewrite (H a _ (or_introl eq_refl) G) by discriminate; cbn [bind]; rewrite IH'; reflexivity).
  exact IH'.
Qed.

Lemma hv_agree a v : a <> AReplySerial -> a <> AUnixFds -> a <> APath -> a <> ASignature ->
  header_value_cur a v = Ok (header_value a v).
Proof. intros H1 H2 H3 H4. destruct a; try reflexivity; congruence. Qed.

Lemma hattrs_no_fds mt : ~ In AUnixFds (hattrs mt).
Proof.
  destruct mt as [|[[[]|[]|]|[[]|[]|]|]]; cbn; intuition discriminate.
Qed.

Lemma get_attr_app_last attrs a v : get_attr a (attrs ++ [(a, v)]) = Some v.
Proof.
  induction attrs as [|[a' v'] r IH]; cbn [app get_attr].
  - unfold attr_eqb. rewrite N.eqb_refl. reflexivity.
  - rewrite IH. reflexivity.
Qed.

Lemma header_list_cur_eq mt attrs fds' (wf : bool) :
  marshal_args_ok attrs ->
  wf = sig_truthy (get_attr ASignature attrs) && match fds' with Some (_ :: _) => true | _ => false end ->
  header_list_cur mt attrs fds' wf = Ok (header_list mt attrs fds').
Proof.
  intros (R & Pp & Ps) ->. unfold header_list_cur, header_list.
  set (wf := sig_truthy (get_attr ASignature attrs) && match fds' with Some (_ :: _) => true | _ => false end).
  set (n := PInt (Z.of_nat (match fds' with Some l => length l | None => 0%nat end))).
  fold (hdr_item_m (if wf then attrs ++ [(AUnixFds, n)] else attrs)).
  apply header_items_cur_flat. intros a v Hin G Hv.
  assert (Gs : forall a, a <> AUnixFds -> get_attr a attrs = get_attr a (if wf then attrs ++ [(AUnixFds, n)] else attrs)).
  { intros a' Ha. destruct wf; [rewrite get_attr_app_fds by exact Ha|]; reflexivity. }
  destruct a; try (apply hv_agree; discriminate).
  - (* path *)
    unfold plain_str in Pp. rewrite (Gs APath) in Pp by discriminate. rewrite G in Pp.
    destruct v; try contradiction; destruct Pp as [s' Pp]; try discriminate. reflexivity.
  - (* reply_serial *)
    assert (G' : get_attr AReplySerial attrs = Some v).
    { destruct wf; [rewrite get_attr_app_fds in G by discriminate|]; exact G. }
    unfold rs_wrapped in R. rewrite G' in R. destruct v; try contradiction; destruct R as [zz R]; try discriminate.
    injection R as -> ->. reflexivity.
  - (* signature *)
    unfold plain_str in Ps. rewrite (Gs ASignature) in Ps by discriminate. rewrite G in Ps.
    destruct v; try contradiction; destruct Ps as [s' Ps]; try discriminate. reflexivity.
  - (* unix_fds: only in the order when the header was added *)
    destruct wf.
    + rewrite get_attr_app_last in G. injection G as <-. reflexivity.
    + exfalso. exact (hattrs_no_fds mt Hin).
Qed.

Lemma flags_cur_0 er au : flags_cur 0 er au = flags_of er au.
Proof. destruct er, au; reflexivity. Qed.

Lemma marshal_body_cur_none fuel attrs body fds :
  marshal_body_cur fuel attrs body fds None =
  match marshal_body fuel attrs body fds with
  | Ok (b, fds') => Ok (b, fds', sig_truthy (get_attr ASignature attrs) && match fds' with Some (_ :: _) => true | _ => false end)
  | Err e => Err e
  end.
Proof.
  unfold marshal_body_cur, marshal_body.
  destruct (get_attr ASignature attrs) as [sv|]; [|reflexivity].
  destruct (sig_truthy (Some sv)); [|reflexivity].
  destruct (str_of sv) as [sig|]; [|reflexivity].
  destruct (m_marshal fuel sig body 0 true fds) as [[[n b] f']|e]; reflexivity.
Qed.

Lemma marshal_header_cur_le fuel mt flags hl bb serial fds' er au attrs :
  flags = flags_of er au -> hl = header_list mt attrs fds' ->
  marshal_header_cur fuel mt 108 flags hl bb serial fds' = marshal_header fuel mt er au attrs bb serial fds'.
Proof. intros -> ->. reflexivity. Qed.

Theorem marshal_cur_message fuel mt er au attrs body serial fds :
  marshal_args_ok attrs ->
  marshal_msg_cur fuel mt 108 0 er au attrs body serial fds None
  = marshal_msg fuel mt er au attrs body serial fds.
Proof.
  intros R. unfold marshal_msg_cur, marshal_msg. rewrite marshal_body_cur_none.
  destruct (marshal_body fuel attrs body fds) as [[bb f']|e]; [|reflexivity]. cbn [bind].
  rewrite (header_list_cur_eq mt attrs f' _ R eq_refl). cbn [bind].
  apply marshal_header_cur_le; [apply flags_cur_0|reflexivity].
Qed.

Theorem marshal_cur_message_st fuel mt er au attrs body self_serial next fds :
  marshal_args_ok attrs ->
  marshal_msg_cur_st fuel mt 108 0 er au attrs body true self_serial next fds None
  = marshal_msg_st fuel mt er au attrs body next fds.
Proof.
  intros R. unfold marshal_msg_cur_st, marshal_msg_st. rewrite marshal_body_cur_none.
  destruct (marshal_body fuel attrs body fds) as [[bb f']|e]; [|reflexivity].
  rewrite (header_list_cur_eq mt attrs f' _ R eq_refl).
  rewrite (marshal_header_cur_le fuel mt _ _ bb next f' er au attrs (flags_cur_0 er au) eq_refl). reflexivity.
Qed.

Theorem construct_cur_message fuel mt er au attrs body next fds :
  marshal_args_ok attrs ->
  construct_cur_st fuel mt er au attrs body next fds = construct_st false fuel mt er au attrs body next fds.
Proof.
  intros R. unfold construct_cur_st, construct_st. destruct (validate_args false mt attrs); [|reflexivity].
  apply marshal_cur_message_st, R.
Qed.

(* a _marshal(newSerial=False) leaves the counter alone and writes self.serial *)
Theorem marshal_cur_st_keep fuel mt endian other er au attrs body self_serial next fds rb :
  marshal_msg_cur_st fuel mt endian other er au attrs body false self_serial next fds rb
  = (marshal_msg_cur fuel mt endian other er au attrs body self_serial fds rb, next).
Proof.
  unfold marshal_msg_cur_st, marshal_msg_cur.
  destruct (marshal_body_cur fuel attrs body fds rb) as [[[bb f'] wf]|e]; [|reflexivity]. cbn [bind].
  destruct (header_list_cur mt attrs f' wf); reflexivity.
Qed.

(* --- 5. the re-marshal law the bus relies on ---------------------------------------------------- *)

(* the last header field with a given code (setattr: the later one wins) *)
Fixpoint last_field (code : Z) (fields : list (Z * ty * wval)) : option (ty * wval) :=
  match fields with
  | [] => None
  | (c, t, w) :: r =>
      match last_field code r with
      | Some x => Some x
      | None => if (c =? code)%Z then Some (t, w) else None
      end
  end.

Lemma attr_code_range a : (1 <= Z.of_N (attr_code a) <= 9)%Z.
Proof. destruct a; cbn; lia. Qed.

Lemma get_attr_last fdl a fields :
  get_attr a (attrs_of_fields fdl fields)
  = option_map (fun tw => readback fdl (fst tw) (snd tw)) (last_field (Z.of_N (attr_code a)) fields).
Proof.
  induction fields as [|[[c t] w] r IH]; [reflexivity|].
  unfold attrs_of_fields. cbn [flat_map last_field]. fold (attrs_of_fields fdl r).
  pose proof (attr_of_code_known c) as K. pose proof (attr_code_range a) as Ra.
  destruct (attr_of_code c) as [a'|].
  - destruct K as [_ K]. cbn [app get_attr]. rewrite IH.
    destruct (last_field (Z.of_N (attr_code a)) r) as [x|]; [reflexivity|]. cbn [option_map].
    unfold attr_eqb. rewrite <- K.
    destruct (N.eqb_spec (attr_code a) (attr_code a')) as [E|E].
    + rewrite E, Z.eqb_refl. reflexivity.
    + destruct (Z.eqb_spec (Z.of_N (attr_code a')) (Z.of_N (attr_code a))) as [E'|_]; [|reflexivity].
      apply N2Z.inj in E'. congruence.
  - cbn [app]. rewrite IH. destruct (last_field (Z.of_N (attr_code a)) r) as [x|]; [reflexivity|].
    unfold known_code in K. destruct (Z.eqb_spec c (Z.of_N (attr_code a))) as [E|_]; [|reflexivity].
    exfalso. subst c. destruct (Z.leb_spec 1 (Z.of_N (attr_code a))), (Z.leb_spec (Z.of_N (attr_code a)) 9);
      cbn in K; try discriminate; lia.
Qed.

Lemma last_field_in (P : Z * ty * wval -> Prop) code fields t w :
  Forall P fields -> last_field code fields = Some (t, w) -> P (code, t, w).
Proof.
  induction 1 as [|[[c t'] w'] r Hx Hr IH]; [discriminate|]. cbn [last_field].
  destruct (last_field code r) as [x|]; [intros E; injection E as ->; exact (IH eq_refl)|].
  destruct (Z.eqb_spec c code) as [->|_]; [|discriminate]. intros E. injection E as <- <-. exact Hx.
Qed.

Lemma sig_field_last fields : Forall (field_ok []) fields ->
  sig_field fields = match last_field 8 fields with Some (_, WStr g) => Some g | _ => None end.
Proof.
  induction 1 as [|[[c t] w] r (Hc & Hl & Hw & Ht) Hr IH]; [reflexivity|]. cbn [sig_field last_field].
  rewrite IH. destruct (last_field 8 r) as [[t' w']|] eqn:L.
  - pose proof (last_field_in _ _ _ _ _ Hr L) as (_ & _ & Hw' & Ht'). cbn in Ht'. subst t'.
    destruct (wt_sig_str [] w' Hw') as [g ->]. reflexivity.
  - destruct (Z.eqb_spec c 8) as [->|N8].
    + cbn in Ht. subst t. destruct (wt_sig_str [] w Hw) as [g ->]. reflexivity.
    + destruct c as [|q|q]; try reflexivity.
      do 4 (try destruct q as [q|q|]); try reflexivity; congruence.
Qed.

Lemma str_len_le s : (str_len s <= length s)%nat.
Proof.
  unfold str_len. induction s as [|x s IH]; [reflexivity|]. cbn [filter].
  destruct (negb (cont x)); cbn [length]; lia.
Qed.

(* parseMessage (current) on the specification encoding of a well-typed message, no descriptors *)
Theorem parse_cur_refines s fuel :
  msg_wt [] s -> (msg_depth s <= fuel)%nat ->
  parse_message_cur fuel (msg_enc s) (Some []) =
    Ok ((Z.to_N (s_type s), s_serial s, expect_reply_of s, auto_start_of s,
         attrs_of_fields [] (s_fields s), recovered_body [] s),
        Z.land (s_flags s) (Z.lnot 3), msg_body s).
Proof.
  intros W Hd. pose proof W as (Ht & Hf & Hs & Hfs & Hwb & Hsig & Hlen).
  fold two32 in Hlen.
  assert (HR : hdr_ranges s) by (unfold hdr_ranges; lia).
  assert (Hb : len (msg_body s) < two32).
  { unfold msg_enc in Hlen. rewrite !len_app in Hlen. lia. }
  assert (Hh : len (msg_header s) < two32).
  { unfold msg_enc in Hlen. rewrite !len_app in Hlen. lia. }
  unfold msg_depth in Hd.
  unfold parse_message_cur, parse_cur_gen.
  assert (E0 : exists r, msg_enc s = (if s_le s then 108 else 66) :: r).
  { unfold msg_enc. rewrite (msg_header_eq s) by (try lia; exact Hb). eexists. reflexivity. }
  destruct E0 as [r0 E0]. rewrite E0.
  assert (Ele : ((if s_le s then 108 else 66) =? 108) = s_le s) by (destruct (s_le s); reflexivity).
  rewrite Ele. rewrite <- E0. clear E0 Ele r0.
  assert (Hu : m_unmarshal fuel header_format (msg_enc s) 0 (s_le s) (Some [])
               = Ok (len (msg_header s), readback_seq [] hdr_ts (hdr_ws s (len (msg_body s))))).
  { pose proof (unmarshal_inverts [] (s_le s) hdr_ts (hdr_ws s (len (msg_body s))) []
                  (padding 8 (length (msg_header s)) ++ msg_body s) fuel
                  (wt_hdr [] s _ W Hb)) as U.
    cbn [length app] in U. change (len []) with 0 in U.
    change (enc_seq hdr_ts (hdr_ws s (len (msg_body s))) 0 (s_le s)) with (msg_header s) in U.
    apply U; [rewrite wdepth_hdr; lia|exact Hh]. }
  rewrite Hu. cbn [bind]. rewrite readback_hdr.
  assert (Hmt : negb ((1 <=? s_type s)%Z && (s_type s <=? 4)%Z) = false).
  { destruct (Z.leb_spec 1 (s_type s)), (Z.leb_spec (s_type s) 4); try lia; reflexivity. }
  rewrite Hmt.
  rewrite (set_fields_spec [] (s_fields s) []). cbn [bind app].
  unfold expect_reply_of, auto_start_of. rewrite <- even_testbit0, <- even_testbit1.
  assert (Hskip : raw_body_of (len (msg_header s)) (msg_enc s) = msg_body s).
  { unfold raw_body_of. change 8 with (N.of_nat 8). unfold len at 2. rewrite (pad_len_spec 8) by (unfold good_align; auto).
    unfold msg_enc. rewrite app_assoc. apply skipn_all_app.
    rewrite !len_app, N.min_l by lia. unfold len. rewrite app_length. lia. }
  rewrite Hskip.
  unfold sig_check. rewrite (get_attr_sig [] _ Hfs).
  unfold recovered_body.
  pose proof (unmarshal_inverts [] (s_le s) (s_body_ts s) (s_body s) [] [] fuel Hwb) as U.
  cbn [length app] in U. change (len []) with 0 in U. rewrite app_nil_r in U.
  change (enc_seq (s_body_ts s) (s_body s) 0 (s_le s)) with (msg_body s) in U.
  specialize (U ltac:(lia) Hb).
  (* the descriptor list handed to the body decoder stays empty *)
  assert (Hown : own_fds (attrs_of_fields [] (s_fields s)) (Some []) = Ok (Some [])).
  { unfold own_fds. rewrite get_attr_last.
    destruct (last_field (Z.of_N (attr_code AUnixFds)) (s_fields s)) as [[t9 w9]|] eqn:L; [|reflexivity].
    cbn [option_map fst snd].
    pose proof (last_field_in _ _ _ _ _ Hfs L) as (_ & _ & Hw9 & Ht9). cbn in Ht9. subst t9.
    destruct w9; cbn in Hw9; try contradiction. cbn [readback slice_bound bind take_upto].
    rewrite firstn_nil. reflexivity. }
  destruct (s_body_ts s) as [|t ts] eqn:Ets.
  - destruct Hsig as [-> | ->]; reflexivity.
  - rewrite Hsig. cbn [option_map].
    assert (Htr : truthy (PStr (show_list (t :: ts))) = true).
    { unfold truthy. cbn [unwrap]. destruct (show_list (t :: ts)) eqn:E; [apply show_list_nil in E; discriminate|reflexivity]. }
    rewrite Htr.
    assert (Hl : (length (show_list (t :: ts)) <= 255)%nat).
    { rewrite (sig_field_last _ Hfs) in Hsig.
      destruct (last_field 8 (s_fields s)) as [[t8 w8]|] eqn:L; [|discriminate].
      pose proof (last_field_in _ _ _ _ _ Hfs L) as (_ & _ & Hw8 & Ht8). cbn in Ht8. subst t8.
      destruct w8 as [| | |g8| | |]; try discriminate.
      assert (Hg : g8 = show_list (t :: ts)) by congruence. rewrite <- Hg. cbn in Hw8. tauto. }
    pose proof (str_len_le (show_list (t :: ts))) as Hsl.
    destruct (Nat.ltb_spec 255 (str_len (show_list (t :: ts)))); [lia|].
    destruct (Nat.ltb_spec 1020 (length (show_list (t :: ts)))); [lia|]. cbn [orb bind].
    rewrite Hown. cbn [bind]. rewrite U. reflexivity.
Qed.

(* the forwarded message: the header fields of the class table of the type, each
   with its last occurrence, the sender replaced; everything else unchanged *)
Definition fwd_field (u : str) (fields : list (Z * ty * wval)) (a : attr) : list (Z * ty * wval) :=
  match a with
  | ASender => [(7%Z, TString, WStr u)]
  | _ => match last_field (Z.of_N (attr_code a)) fields with
         | Some (t, w) => [(Z.of_N (attr_code a), t, w)]
         | None => []
         end
  end.

Definition restamp (u : str) (s : smsg) : smsg :=
  {| s_le := s_le s; s_type := s_type s; s_flags := s_flags s; s_serial := s_serial s;
     s_fields := flat_map (fwd_field u (s_fields s)) (hattrs (Z.to_N (s_type s)));
     s_body_ts := s_body_ts s; s_body := s_body s |}.

(* what _marshal demands of the values parseMessage accepted: a grammatical
   object path, strings without NUL *)
Definition fwd_ok (f : Z * ty * wval) : Prop :=
  let '(c, t, w) := f in
  match c with
  | 1 => exists p, w = WStr p /\ g_path p = true
  | 2 | 3 | 4 | 6 => exists x, w = WStr x /\ string_ok x = true
  | _ => True
  end%Z.

Lemma get_attr_app_other a a' v attrs : attr_eqb a a' = false ->
  get_attr a (attrs ++ [(a', v)]) = get_attr a attrs.
Proof.
  intros H. induction attrs as [|[b w] r IH]; cbn [app get_attr]; [rewrite H; reflexivity|].
  rewrite IH. reflexivity.
Qed.

Lemma fwd_item u fields a :
  Forall (field_ok []) fields -> Forall fwd_ok fields -> string_ok u = true -> a <> AUnixFds ->
  exists hl, header_items_cur (set_sender u (attrs_of_fields [] fields)) [a] = Ok hl /\
             conf_all farr_ty hl (map field_w (fwd_field u fields a)).
Proof.
  intros Hf Hw Hu Ha. unfold set_sender. cbn [header_items_cur].
  destruct (attr_eqb a ASender) eqn:Es.
  - assert (a = ASender) by (destruct a; try discriminate; reflexivity). subst a.
    rewrite get_attr_app_last. cbn [header_value_cur bind fwd_field map]. eexists. split; [reflexivity|].
    cbn [conf_all]. split; [|exact I].
    apply field_conf; [cbn; lia|reflexivity|cbn; lia|]. apply string_ok_conf, Hu.
  - rewrite (get_attr_app_other _ _ _ _ Es), get_attr_last.
    assert (Fw : fwd_field u fields a = match last_field (Z.of_N (attr_code a)) fields with
                                        | Some (t, w) => [(Z.of_N (attr_code a), t, w)] | None => [] end)
      by (destruct a; try reflexivity; discriminate).
    rewrite Fw.
    destruct (last_field (Z.of_N (attr_code a)) fields) as [[t w]|] eqn:L; [|eexists; split; [reflexivity|exact I]].
    pose proof (last_field_in _ _ _ _ _ Hf L) as (Hc & Hl & Hwt & Hty).
    pose proof (last_field_in _ _ _ _ _ Hw L) as Hok.
    cbn [option_map fst snd map].
    destruct a; try discriminate; try congruence; cbn in Hty, Hok; subst t.
    + destruct Hok as (p & -> & Gp). cbn [readback header_value_cur to_str_wrapper str_of unwrap bind].
      eexists. split; [reflexivity|]. cbn [conf_all]. split; [|exact I].
      rewrite <- validate_path_grammar in Gp. pose proof (path_string_ok p Gp) as So.
      unfold string_ok in So. apply andb_true_iff in So as [S1 S2]. apply negb_true_iff in S1.
      apply field_conf; [cbn; lia|reflexivity|cbn; lia|]. cbn. auto.
    + destruct Hok as (x & -> & Gx). cbn [readback header_value_cur bind].
      eexists. split; [reflexivity|]. cbn [conf_all]. split; [|exact I].
      apply field_conf; [cbn; lia|reflexivity|cbn; lia|]. apply string_ok_conf, Gx.
    + destruct Hok as (x & -> & Gx). cbn [readback header_value_cur bind].
      eexists. split; [reflexivity|]. cbn [conf_all]. split; [|exact I].
      apply field_conf; [cbn; lia|reflexivity|cbn; lia|]. apply string_ok_conf, Gx.
    + destruct Hok as (x & -> & Gx). cbn [readback header_value_cur bind].
      eexists. split; [reflexivity|]. cbn [conf_all]. split; [|exact I].
      apply field_conf; [cbn; lia|reflexivity|cbn; lia|]. apply string_ok_conf, Gx.
    + destruct w; cbn in Hwt; try contradiction. cbn [readback header_value_cur to_uint32 bind].
      eexists. split; [reflexivity|]. cbn [conf_all]. split; [|exact I].
      apply field_conf; [cbn; lia|reflexivity|cbn; lia|]. cbn. split; [reflexivity|exact Hwt].
    + destruct Hok as (x & -> & Gx). cbn [readback header_value_cur bind].
      eexists. split; [reflexivity|]. cbn [conf_all]. split; [|exact I].
      apply field_conf; [cbn; lia|reflexivity|cbn; lia|]. apply string_ok_conf, Gx.
    + destruct w; cbn in Hwt; try contradiction.
      cbn [readback header_value_cur to_str_wrapper str_of unwrap bind].
      eexists. split; [reflexivity|]. cbn [conf_all]. split; [|exact I].
      apply field_conf; [cbn; lia|reflexivity|cbn; lia|]. cbn. tauto.
Qed.

Lemma header_items_cons attrs a r h1 h2 :
  header_items_cur attrs [a] = Ok h1 -> header_items_cur attrs r = Ok h2 ->
  header_items_cur attrs (a :: r) = Ok (h1 ++ h2).
Proof.
  cbn [header_items_cur]. intros H1 H2. rewrite H2.
  destruct (get_attr a attrs) as [v|]; [|injection H1 as <-; reflexivity].
  destruct v; try (destruct (header_value_cur a _) as [hv|e]; [|discriminate]; cbn [bind] in *;
                   injection H1 as <-; reflexivity).
  injection H1 as <-. reflexivity.
Qed.

Lemma fwd_items u fields order :
  Forall (field_ok []) fields -> Forall fwd_ok fields -> string_ok u = true -> ~ In AUnixFds order ->
  exists hl, header_items_cur (set_sender u (attrs_of_fields [] fields)) order = Ok hl /\
             conf_all farr_ty hl (map field_w (flat_map (fwd_field u fields) order)).
Proof.
  intros Hf Hw Hu. induction order as [|a r IH]; intros Hn.
  - exists []. split; [reflexivity|exact I].
  - destruct IH as (h2 & E2 & C2); [intros X; apply Hn; right; exact X|].
    destruct (fwd_item u fields a Hf Hw Hu) as (h1 & E1 & C1); [intros ->; apply Hn; left; reflexivity|].
    exists (h1 ++ h2). split; [exact (header_items_cons _ _ _ _ _ E1 E2)|].
    cbn [flat_map]. rewrite map_app. apply conf_all_app; assumption.
Qed.

Lemma flags_recombine f : (0 <= f < 256)%Z ->
  flags_cur (Z.land f (Z.lnot 3)) (negb (Z.testbit f 0)) (negb (Z.testbit f 1)) = f.
Proof.
  intros H.
  assert (E : forallb (fun n => let f := Z.of_nat n in
                                Z.eqb (flags_cur (Z.land f (Z.lnot 3)) (negb (Z.testbit f 0)) (negb (Z.testbit f 1))) f)
                      (seq 0 256) = true) by (vm_compute; reflexivity).
  rewrite forallb_forall in E. specialize (E (Z.to_nat f)).
  rewrite Z2Nat.id in E by lia. apply Z.eqb_eq, E, in_seq. lia.
Qed.

Lemma fwd_field_ok u fields a : Forall (field_ok []) fields -> string_ok u = true ->
  Forall (field_ok []) (fwd_field u fields a).
Proof.
  intros Hf Hu.
  assert (G : Forall (field_ok []) match last_field (Z.of_N (attr_code a)) fields with
                                   | Some (t, w) => [(Z.of_N (attr_code a), t, w)] | None => [] end).
  { destruct (last_field (Z.of_N (attr_code a)) fields) as [[t w]|] eqn:L; constructor; [|constructor].
    exact (last_field_in _ _ _ _ _ Hf L). }
  destruct a; try exact G. cbn [fwd_field]. constructor; [|constructor].
  apply string_field_ok; [lia|reflexivity|exact Hu].
Qed.

Lemma last_field_app c a b :
  last_field c (a ++ b) = match last_field c b with Some x => Some x | None => last_field c a end.
Proof.
  induction a as [|[[c' t] w] a IH]; cbn [app last_field]; [destruct (last_field c b); reflexivity|].
  rewrite IH. destruct (last_field c b); reflexivity.
Qed.

Lemma last_field_fwd_sig u fields a :
  last_field 8 (fwd_field u fields a) = match a with ASignature => last_field 8 fields | _ => None end.
Proof.
  destruct a; cbn [fwd_field attr_code Z.of_N]; try reflexivity;
    match goal with |- context [last_field ?c fields] => destruct (last_field c fields) as [[t w]|] end; reflexivity.
Qed.

Lemma restamp_sig u s : (1 <= s_type s <= 4)%Z ->
  last_field 8 (s_fields (restamp u s)) = last_field 8 (s_fields s).
Proof.
  intros Ht. cbn [s_fields restamp].
  assert (T : Z.to_N (s_type s) = 1 \/ Z.to_N (s_type s) = 2 \/ Z.to_N (s_type s) = 3 \/ Z.to_N (s_type s) = 4) by lia.
  destruct T as [-> | [-> | [-> | ->]]]; cbn [hattrs flat_map]; rewrite !last_field_app, !last_field_fwd_sig;
    cbn [last_field]; destruct (last_field 8 (s_fields s)); reflexivity.
Qed.

Lemma restamp_wt u s : msg_wt [] s -> string_ok u = true ->
  len (msg_enc (restamp u s)) < 4294967296 -> msg_wt [] (restamp u s).
Proof.
  intros (Ht & Hf & Hs & Hfs & Hwb & Hsig & _) Hu Hlen.
  assert (Hfs' : Forall (field_ok []) (s_fields (restamp u s))).
  { cbn [s_fields restamp]. induction (hattrs (Z.to_N (s_type s))) as [|a r IH]; [constructor|].
    cbn [flat_map]. apply Forall_app. split; [apply fwd_field_ok; assumption|exact IH]. }
  unfold msg_wt. split; [exact Ht|]. split; [exact Hf|]. split; [exact Hs|]. split; [exact Hfs'|].
  split; [exact Hwb|]. split; [|exact Hlen].
  rewrite (sig_field_last _ Hfs'), (restamp_sig u s Ht), <- (sig_field_last _ Hfs). exact Hsig.
Qed.

(* The law: parse a well-typed message whose values _marshal accepts, set the
   sender, re-marshal the header around the received body in the original byte
   order with the original serial - the bytes are the specification encoding of
   the message with the fields of its class table and the new sender
   ([restamp]), and they parse to that message: same type, serial, flags
   (_otherFlags included), body and raw body. *)
Theorem remarshal_law s u fuel :
  msg_wt [] s -> Forall fwd_ok (s_fields s) -> string_ok u = true ->
  (msg_depth s <= fuel)%nat -> (msg_depth (restamp u s) <= fuel)%nat ->
  len (msg_enc (restamp u s)) <= max_msg_len ->
  exists m h p,
    parse_message_cur fuel (msg_enc s) (Some []) = Ok m /\
    remarshal_cur fuel (msg_enc s) u m = Ok (h, p, msg_body s, None) /\
    h ++ p ++ msg_body s = msg_enc (restamp u s) /\
    parse_message_cur fuel (msg_enc (restamp u s)) (Some []) =
      Ok ((Z.to_N (s_type s), s_serial s, expect_reply_of s, auto_start_of s,
           attrs_of_fields [] (s_fields (restamp u s)), recovered_body [] s),
          Z.land (s_flags s) (Z.lnot 3), msg_body s).
Proof.
  intros W Hok Hu Hd Hd' Hsz. set (s' := restamp u s) in *.
  assert (Hlt : len (msg_enc s') < 4294967296) by (unfold max_msg_len in Hsz; lia).
  pose proof (restamp_wt u s W Hu Hlt) as W'.
  pose proof W as (Ht & Hf & Hs & Hfs & Hwb & Hsig & Hlen).
  eexists _, (msg_header s'), (padding 8 (length (msg_header s'))).
  split; [exact (parse_cur_refines s fuel W Hd)|].
  split; [|split; [reflexivity|exact (parse_cur_refines s' fuel W' Hd')]].
  unfold remarshal_cur, marshal_msg_cur. cbn [marshal_body_cur bind].
  unfold header_list_cur.
  destruct (fwd_items u (s_fields s) (hattrs (Z.to_N (s_type s))) Hfs Hok Hu (hattrs_no_fds _)) as (hl & -> & Chl).
  cbn [bind]. unfold marshal_header_cur.
  assert (Hb : len (msg_body s) < two32).
  { unfold msg_enc in Hlen. rewrite !len_app in Hlen. unfold two32. lia. }
  assert (Ehd : hd 0 (msg_enc s) = if s_le s then 108 else 66).
  { unfold msg_enc. rewrite (msg_header_eq s) by (try lia; exact Hb). reflexivity. }
  rewrite Ehd.
  assert (Ele : (Z.of_N (if s_le s then 108 else 66) =? 108)%Z = s_le s) by (destruct (s_le s); reflexivity).
  rewrite Ele. unfold expect_reply_of, auto_start_of. rewrite (flags_recombine _ Hf).
  set (hlist := [PInt (Z.of_N (if s_le s then 108 else 66)); PInt (Z.of_N (Z.to_N (s_type s))); PInt (s_flags s);
                 PInt 1; PInt (Z.of_N (len (msg_body s))); PInt (s_serial s); PList hl]).
  assert (Hconf : conf_seq hdr_ts hlist (hdr_ws s' (len (msg_body s')))).
  { unfold hlist, hdr_ts, hdr_ws. cbn [conf_seq s_le s_type s_flags s_serial s_fields s' restamp].
    rewrite Z2N.id by lia.
    repeat split; try reflexivity; try (destruct (s_le s); reflexivity); try (cbn; lia).
    - change (msg_body s') with (msg_body s). unfold int_range, two32, len in *. lia.
    - rewrite conf_array. eexists. split; [reflexivity|]. exact Chl. }
  change header_format with (show_list hdr_ts). change 0 with (N.of_nat 0).
  change (s_le s) with (s_le s').
  rewrite (marshal_refines hdr_ts (PList hlist) hlist _ 0 (s_le s') None fuel eq_refl Hconf).
  - cbn [bind]. change (enc_seq hdr_ts (hdr_ws s' (len (msg_body s'))) 0 (s_le s')) with (msg_header s').
    change (msg_body s) with (msg_body s') in *.
    assert (Hl3 : len (msg_header s') + len (padding 8 (length (msg_header s'))) + len (msg_body s') <= max_msg_len).
    { unfold msg_enc in Hsz. rewrite !len_app in Hsz. lia. }
    replace (pad_len 8 (len (msg_header s'))) with (len (padding 8 (length (msg_header s')))).
    + rewrite zeros_padding. unfold max_msg_len in *.
      destruct (N.ltb_spec 134217728 (len (msg_header s') + len (padding 8 (length (msg_header s'))) + len (msg_body s'))) as [X|_]; [lia|].
      reflexivity.
    + symmetry. change 8 with (N.of_nat 8) at 1. apply pad_len_spec. unfold good_align. auto.
  - unfold msg_depth in Hd'. rewrite wdepth_hdr. fold s' in Hd'. lia.
  - change (enc_seq hdr_ts (hdr_ws s' (len (msg_body s'))) 0 (s_le s')) with (msg_header s').
    unfold msg_enc in Hlt. rewrite !len_app in Hlt. unfold two32. lia.
Qed.

(* non-vacuity: the big-endian error message ex_foreign (permuted fields, an
   unknown field code, flags 1) satisfies the hypotheses; the model run on it *)
Definition ex_sender : str := [58; 49; 46; 52; 50].   (* :1.42 *)

Lemma remarshal_nonvacuous :
  msg_wt [] ex_foreign /\ Forall fwd_ok (s_fields ex_foreign) /\ string_ok ex_sender = true /\
  (msg_depth ex_foreign <= 6)%nat /\ (msg_depth (restamp ex_sender ex_foreign) <= 6)%nat /\
  len (msg_enc (restamp ex_sender ex_foreign)) <= max_msg_len /\
  s_fields (restamp ex_sender ex_foreign)
    = [(4%Z, TString, WStr [97; 46; 69]); (5%Z, TUInt32, WInt 9); (7%Z, TString, WStr ex_sender);
       (8%Z, TSig, WStr [40; 121; 118; 41])] /\
  exists m h p,
    parse_message_cur 6 (msg_enc ex_foreign) (Some []) = Ok m /\
    remarshal_cur 6 (msg_enc ex_foreign) ex_sender m = Ok (h, p, msg_body ex_foreign, None) /\
    h ++ p ++ msg_body ex_foreign = msg_enc (restamp ex_sender ex_foreign) /\ hd 0 h = 66.
Proof.
  split; [exact (proj1 c03_nonvacuous_foreign)|].
  split; [repeat constructor; cbn; eauto|].
  split; [reflexivity|]. split; [vm_compute; lia|]. split; [vm_compute; lia|].
  split; [vm_compute; discriminate|]. split; [reflexivity|].
  eexists _, _, _. split; [vm_compute; reflexivity|]. split; [vm_compute; reflexivity|].
  split; vm_compute; reflexivity.
Qed.

(* --- the conjunction stated in Props/C03.v ------------------------------------------------------- *)
Theorem current_model_bridges :
  (* C05's model, every input *)
  (forall fh fb raw fds, msg_part (parse_cur_gen fh fb raw fds) = parse_gen fh fb raw fds) /\
  (forall raw fds, msg_part (parse_message_cur_lin raw fds) = parse_message_v2 raw fds) /\
  (* C20's model, when the SIGNATURE field is absent, empty, or a str of at most 255 characters *)
  (forall fuel raw fds,
     (forall attrs, header_attrs fuel raw fds = Ok attrs -> sig_attr_ok attrs) ->
     msg_part (parse_message_cur fuel raw fds) = parse_message_fd false fuel raw fds) /\
  (* C03's / C04's model, when moreover no descriptors are involved *)
  (forall fuel raw fds,
     (forall attrs, header_attrs fuel raw fds = Ok attrs -> sig_attr_ok attrs /\ fds_trivial attrs fds) ->
     msg_part (parse_message_cur fuel raw fds) = parse_message false fuel raw fds) /\
  (* _marshal with the class defaults (endian 'l', _otherFlags 0, no rawBody) is C03's model *)
  (forall fuel mt er au attrs body serial fds,
     marshal_args_ok attrs ->
     marshal_msg_cur fuel mt 108 0 er au attrs body serial fds None = marshal_msg fuel mt er au attrs body serial fds) /\
  (forall fuel mt er au attrs body self_serial next fds,
     marshal_args_ok attrs ->
     marshal_msg_cur_st fuel mt 108 0 er au attrs body true self_serial next fds None
     = marshal_msg_st fuel mt er au attrs body next fds) /\
  (forall fuel mt er au attrs body next fds,
     marshal_args_ok attrs ->
     construct_cur_st fuel mt er au attrs body next fds = construct_st false fuel mt er au attrs body next fds) /\
  (* _marshal(False, ...) writes self.serial and leaves the counter alone *)
  (forall fuel mt endian other er au attrs body self_serial next fds rb,
     marshal_msg_cur_st fuel mt endian other er au attrs body false self_serial next fds rb
     = (marshal_msg_cur fuel mt endian other er au attrs body self_serial fds rb, next)).
Proof.
  split; [exact parse_cur_gen_parse_gen|]. split; [exact parse_cur_v2|]. split; [exact parse_cur_fd|].
  split; [exact parse_cur_message|]. split; [exact marshal_cur_message|]. split; [exact marshal_cur_message_st|].
  split; [exact construct_cur_message|]. exact marshal_cur_st_keep.
Qed.
