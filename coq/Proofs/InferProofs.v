(* sigFromPy (Model/Marshal.v sig_from_py): the inferred signature is always a
   single complete type of the type grammar. *)
From Tx Require Import Lib.Base Model.PyVal Model.Marshal Spec.WireSpec Proofs.SigProofs.
Local Open Scope N_scope.

Section PyvalInd.
  Variable P : pyval -> Prop.
  Hypothesis Hint : forall z, P (PInt z).
  Hypothesis Hbool : forall b, P (PBool b).
  Hypothesis Hfloat : forall b, P (PFloat b).
  Hypothesis Hstr : forall s, P (PStr s).
  Hypothesis Hbytes : forall s, P (PBytes s).
  Hypothesis Hlist : forall l, Forall P l -> P (PList l).
  Hypothesis Htuple : forall l, Forall P l -> P (PTuple l).
  Hypothesis Hdict : forall l, Forall (fun kv => P (fst kv) /\ P (snd kv)) l -> P (PDict l).
  Hypothesis Hobj : forall l, Forall P l -> P (PObj l).
  Hypothesis Hwrap : forall c x, P x -> P (PWrap c x).
  Hypothesis Hnone : P PNone.

  Fixpoint pyval_ind' (v : pyval) : P v :=
    let fix go (l : list pyval) : Forall P l :=
      match l with
      | [] => Forall_nil P
      | x :: r => Forall_cons x (pyval_ind' x) (go r)
      end in
    let fix god (l : list (pyval * pyval)) : Forall (fun kv => P (fst kv) /\ P (snd kv)) l :=
      match l with
      | [] => Forall_nil _
      | (k, x) :: r => Forall_cons (k, x) (conj (pyval_ind' k) (pyval_ind' x)) (god r)
      end in
    match v with
    | PInt z => Hint z | PBool b => Hbool b | PFloat b => Hfloat b | PStr s => Hstr s
    | PBytes s => Hbytes s | PList l => Hlist l (go l) | PTuple l => Htuple l (go l)
    | PDict l => Hdict l (god l) | PObj l => Hobj l (go l)
    | PWrap c x => Hwrap c x (pyval_ind' x) | PNone => Hnone
    end.
End PyvalInd.

(* the wrapper classes of marshal.variantClassMap carry basic type codes *)
Definition wrap_code_ok (c : N) : bool :=
  existsb (N.eqb c) [121; 98; 110; 113; 105; 117; 120; 116; 103; 111].

Fixpoint wrappers_ok (v : pyval) : bool :=
  match v with
  | PWrap c _ => wrap_code_ok c
  | PList l | PTuple l | PObj l => forallb wrappers_ok l
  | PDict l => forallb (fun kv => wrappers_ok (fst kv) && wrappers_ok (snd kv)) l
  | _ => true
  end.

Lemma wrap_code_show c : wrap_code_ok c = true -> exists t, [c] = show t.
Proof.
  unfold wrap_code_ok. cbn [existsb]. intros H.
  assert (S : forall c0, In c0 [121; 98; 110; 113; 105; 117; 120; 116; 103; 111] -> exists t, [c0] = show t).
  { intros c0 Hin. cbn [In] in Hin.
    repeat (destruct Hin as [<-|Hin];
            [first [exists TByte; reflexivity | exists TBool; reflexivity | exists TInt16; reflexivity
                   | exists TUInt16; reflexivity | exists TInt32; reflexivity | exists TUInt32; reflexivity
                   | exists TInt64; reflexivity | exists TUInt64; reflexivity | exists TSig; reflexivity
                   | exists TObjPath; reflexivity]|]).
    contradiction. }
  apply S. cbn [In].
  repeat (apply orb_true_iff in H as [H|H]; [apply N.eqb_eq in H; subst; auto 12|]).
  discriminate.
Qed.

Definition tuple_sig :=
  fix go (l : list pyval) : res str :=
    match l with
    | [] => Ok []
    | x :: r => match sig_from_py x, go r with
                | Ok a, Ok b => Ok (a ++ b)
                | Err e, _ => Err e
                | _, Err e => Err e
                end
    end.

Lemma sig_tuple l : sig_from_py (PTuple l) =
  match tuple_sig l with Ok s => Ok (40 :: s ++ [41]) | Err e => Err e end.
Proof. reflexivity. Qed.

Definition dict_last (same : bool) (sv : res str) :=
  fix last (sk : res str) (r : list (pyval * pyval)) : res str :=
    match r with
    | [] =>
        match sk with
        | Err e => Err e
        | Ok ks =>
            if same then match sv with Ok vs => Ok (97 :: 123 :: ks ++ vs ++ [125]) | Err e => Err e end
            else Ok (97 :: 123 :: ks ++ [118; 125])
        end
    | (k', _) :: r' => last (sig_from_py k') r'
    end.

(* the key type from the last key iterated, the value type from the first value *)
Lemma sig_dict k0 v0 r : sig_from_py (PDict ((k0, v0) :: r)) =
  dict_last (forallb (fun kv => subclass (class_of (snd kv)) (class_of v0)) r)
            (sig_from_py v0) (sig_from_py k0) r.
Proof. reflexivity. Qed.

Theorem sig_from_py_complete : forall v, wrappers_ok v = true ->
  forall s, sig_from_py v = Ok s -> exists t, s = show t.
Proof.
  induction v as [z|b|bits|s0|s0|l IH|l IH|l IH|l IH|c x IH|] using pyval_ind'; intros Hw s H.
  - inversion H. exists TInt32. reflexivity.
  - inversion H. exists TBool. reflexivity.
  - inversion H. exists TDouble. reflexivity.
  - inversion H. exists TString. reflexivity.
  - inversion H. exists (TArray TByte). reflexivity.
  - destruct l as [|x r]; [inversion H; exists (TArray TVariant); reflexivity|].
    cbn [sig_from_py] in H.
    destruct (forallb _ r); [|inversion H; exists (TArray TVariant); reflexivity].
    destruct (sig_from_py x) as [sx|] eqn:E; [|discriminate]. inversion H; subst.
    inversion IH; subst. cbn [wrappers_ok forallb] in Hw. apply andb_true_iff in Hw as [Hx _].
    destruct (H2 Hx _ E) as [t ->]. exists (TArray t). reflexivity.
  - rewrite sig_tuple in H. destruct (tuple_sig l) as [st|] eqn:E; [|discriminate]. inversion H; subst.
    assert (exists ts, st = show_list ts) as [ts ->].
    { clear H. revert st E. cbn [wrappers_ok] in Hw. induction IH as [|x r Hx Hr IHr]; intros st E.
      - inversion E. exists []. reflexivity.
      - cbn [tuple_sig] in E. fold tuple_sig in E. cbn [forallb] in Hw. apply andb_true_iff in Hw as [Hwx Hwr].
        destruct (sig_from_py x) as [a|] eqn:Ea; [|destruct (tuple_sig r); discriminate].
        destruct (tuple_sig r) as [b|] eqn:Eb; [|discriminate]. inversion E; subst.
        destruct (Hx Hwx _ eq_refl) as [t ->]. destruct (IHr Hwr _ eq_refl) as [ts ->].
        exists (t :: ts). reflexivity. }
    exists (TStruct ts). rewrite show_struct. reflexivity.
  - destruct l as [|[k0 v0] r]; [inversion H; exists (TArray (TDictEntry TString TVariant)); reflexivity|].
    rewrite sig_dict in H. cbn [wrappers_ok] in Hw.
    set (same := forallb _ r) in H. clearbody same.
    set (sv := sig_from_py v0) in H.
    inversion IH as [|? ? [Pk0 Pv0] IHr]; subst. cbn [fst snd forallb] in *.
    apply andb_true_iff in Hw as [Hw1 Hw2]. apply andb_true_iff in Hw1 as [Hwk Hwv].
    assert (Pv : forall vs, sv = Ok vs -> exists t, vs = show t) by (intros vs E; apply (Pv0 Hwv vs E)).
    clearbody sv.
    assert (G : forall sk, (forall ks, sk = Ok ks -> exists t, ks = show t) ->
                Forall (fun kv => (wrappers_ok (fst kv) = true -> forall s, sig_from_py (fst kv) = Ok s -> exists t, s = show t) /\
                                  (wrappers_ok (snd kv) = true -> forall s, sig_from_py (snd kv) = Ok s -> exists t, s = show t)) r ->
                forallb (fun kv => wrappers_ok (fst kv) && wrappers_ok (snd kv)) r = true ->
                dict_last same sv sk r = Ok s -> exists t, s = show t).
    { clear -Pv. induction r as [|[k' v'] r IHr]; intros sk Pk Hall Hw H.
      - cbn [dict_last] in H. destruct sk as [ks|]; [|discriminate].
        destruct (Pk _ eq_refl) as [tk ->].
        destruct same.
        + destruct sv as [vs|]; [|discriminate]. destruct (Pv _ eq_refl) as [tv ->].
          inversion H. exists (TArray (TDictEntry tk tv)). reflexivity.
        + inversion H. exists (TArray (TDictEntry tk TVariant)). reflexivity.
      - cbn [dict_last] in H. fold (dict_last same sv) in H. inversion Hall; subst. cbn [fst snd] in *.
        cbn [forallb fst snd] in Hw. apply andb_true_iff in Hw as [Hw1 Hw2]. apply andb_true_iff in Hw1 as [Hwk Hwv].
        destruct H2 as [Pk' Pv'].
        eapply (IHr (sig_from_py k') (fun ks E => Pk' Hwk ks E) H3 Hw2 H). }
    eapply (G (sig_from_py k0) (fun ks E => Pk0 Hwk ks E) IHr Hw2 H).
  - discriminate.
  - cbn [sig_from_py] in H. inversion H; subst. cbn [wrappers_ok] in Hw. apply wrap_code_show. exact Hw.
  - discriminate.
Qed.
