(* Every message the system of Model/System.v puts in flight is one the wire
   codec of Model/WireCodec.v encodes well-framed and parses back:

     [hdr_ok] (Proofs/WireCodecProofs.v) is an invariant of System.step - for
     the calls DBusClientConnection.callRemote builds ([call_msg], from
     validate_args and header_ok), for the replies of the dispatcher
     ([reply_msg], from the constructors of Model/Dispatch.v), for what the bus
     forwards ([forwarded]: the table-filtered copy with the sender's unique
     name); the bus's own replies and signals are not carried by the model.

   The side conditions are on the CONFIGURATION ([cfg_ok]): the declared return
   signatures of the exported methods are ASCII of at most 255 bytes, and the
   error name left open by Model/Dispatch.v (KEncodeError) is an interface name.
   Unique names need none: ':1.<n>' is a DBus string for every n.

   What the message-level model does not decide is the SIZE: message.py refuses
   to marshal more than 2^27 bytes, System.v sends whatever the codec of the body
   produced.  [sized_run] - every message in flight is within that limit - stays
   a premise of the byte-level theorem; with it, [good_run] follows. *)
From Tx Require Import Lib.Base Lib.Sexp.
From Tx Require Import Model.PyVal Model.Validators Model.Marshal Model.BusNames Model.ProxyCall Model.System Model.SystemBytes
                       Model.WireCodec.
From Tx Require Model.BusRoute Model.Dispatch Model.Calls Model.Message Proofs.DispatchProofs Spec.MsgSpec Spec.SystemSpec Spec.DispatchSpec
                Spec.WireSpec.
From Tx Require Import Proofs.MessageProofs Proofs.SystemProofs Proofs.SystemBytesProofs Proofs.WireCodecProofs.
Local Open Scope N_scope.

(* ======================================================================== *)
(* 1. unique names are DBus strings                                          *)

Lemma uint_chars_ascii u : forallb ascii_nz (uint_chars u) = true.
Proof. induction u; cbn [uint_chars forallb]; try reflexivity; rewrite IHu; reflexivity. Qed.

Lemma unique_name_string_ok c : MsgSpec.string_ok (unique_name c) = true.
Proof.
  apply ascii_string_ok. unfold unique_name, n_chars. rewrite forallb_app, uint_chars_ascii. reflexivity.
Qed.

(* ======================================================================== *)
(* 2. what the bus forwards                                                  *)

Lemma keep_opt_p f t a o : opt_p f o -> opt_p f (BusRoute.keep t a o).
Proof. unfold BusRoute.keep. destruct (BusRoute.has t a); [auto | intros _; exact I]. Qed.

Lemma keep_idem {A} t a (o : option A) : BusRoute.keep t a (BusRoute.keep t a o) = BusRoute.keep t a o.
Proof. unfold BusRoute.keep. destruct (BusRoute.has t a); reflexivity. Qed.

Lemma hdr_ok_forwarded c m : hdr_ok m -> hdr_ok (forwarded c m).
Proof.
  intros [L T FL SR HP HI HM HE HR HD HS HG AR SG TB].
  unfold forwarded, BusRoute.written, BusRoute.with_sender.
  constructor; cbn [BusRoute.g_le BusRoute.g_type BusRoute.g_flags BusRoute.g_serial BusRoute.g_path
                    BusRoute.g_interface BusRoute.g_member BusRoute.g_error_name BusRoute.g_reply_serial
                    BusRoute.g_destination BusRoute.g_sender BusRoute.g_signature BusRoute.g_body
                    BusRoute.g_args BusRoute.g_rs_signed];
    try assumption; try (apply keep_opt_p; assumption).
  - unfold BusRoute.keep. destruct (BusRoute.has _ _); [exact HR | exact I].
  - unfold BusRoute.keep. destruct (BusRoute.has _ _); [apply unique_name_string_ok | exact I].
  - unfold BusRoute.written.
    cbn [BusRoute.g_le BusRoute.g_type BusRoute.g_flags BusRoute.g_serial BusRoute.g_path
         BusRoute.g_interface BusRoute.g_member BusRoute.g_error_name BusRoute.g_reply_serial
         BusRoute.g_destination BusRoute.g_sender BusRoute.g_signature BusRoute.g_body
         BusRoute.g_args BusRoute.g_rs_signed].
    rewrite !keep_idem. reflexivity.
Qed.

(* the peer messages among the writes of one bus step are the copy of the message read *)
Lemma reply_to_nofwd c m a x : In x (BusRoute.reply_to c m a) -> forall m', snd x <> BusRoute.DFwd m'.
Proof.
  unfold BusRoute.reply_to. destruct (N.testbit _ 0); [intros []|]. intros [<-|[]] m'. discriminate.
Qed.

Lemma deliver_signal_nofwd rules sg x :
  In x (BusRoute.deliver_signal rules sg) -> forall m', snd x <> BusRoute.DFwd m'.
Proof.
  destruct sg; cbn [BusRoute.deliver_signal].
  - intros [<-|[]] m'. discriminate.
  - intros [<-|[]] m'. discriminate.
  - intro H. apply in_map_iff in H as (y & <- & _). intro m'. discriminate.
Qed.

Lemma name_call_nofwd s c m o x :
  In x (snd (BusRoute.name_call s c m o)) -> forall m', snd x <> BusRoute.DFwd m'.
Proof.
  unfold BusRoute.name_call. destruct (BusNames.step (BusRoute.r_bus s) o) as [b' y]. cbn [snd].
  intro H. apply in_app_or in H as [H|H].
  - apply in_flat_map in H as (sg & _ & H). exact (deliver_signal_nofwd _ _ _ H).
  - exact (reply_to_nofwd _ _ _ _ H).
Qed.

Lemma bus_call_nofwd s c m x :
  In x (snd (BusRoute.bus_call s c m)) -> forall m', snd x <> BusRoute.DFwd m'.
Proof.
  unfold BusRoute.bus_call. destruct (BusRoute.bus_op_of m); try apply name_call_nofwd;
    try (cbn [snd]; apply reply_to_nofwd).
  destruct (Router.parse_rule text) as [r|e]; [|cbn [snd]; apply reply_to_nofwd].
  destruct (Router.compile r); cbn [snd]; apply reply_to_nofwd.
Qed.

Lemma bus_step_fwd s c m to m' :
  In (to, BusRoute.DFwd m') (BusRoute.d_deliv (snd (BusRoute.step s (BusRoute.ESend c m)))) ->
  m' = forwarded c m.
Proof.
  unfold BusRoute.step, BusRoute.step_with.
  destruct (mem c (b_clients (BusRoute.r_bus s))); [|intros []].
  destruct (negb (BusRoute.valid_type m)); [intros []|].
  unfold BusRoute.recv.
  destruct (negb (mem c (BusRoute.r_hello s)) && (BusRoute.g_type m =? 1) &&
            BusRoute.opt_is BusRoute.bus_name (BusRoute.g_destination m) &&
            BusRoute.opt_is BusRoute.s_Hello (BusRoute.g_member m)).
  { cbn [snd BusRoute.d_deliv]. intros [H|[]]. discriminate. }
  unfold BusRoute.remarshal. unfold BusRoute.message_received.
  set (mo := BusRoute.with_sender (unique_name c) m).
  destruct (if (BusRoute.g_type mo =? 1) && BusRoute.opt_is BusRoute.bus_name (BusRoute.g_destination mo)
            then BusRoute.bus_call s c mo else (s, [])) as [s1 d1] eqn:E1.
  cbn [snd BusRoute.d_deliv]. intro H. apply in_app_or in H as [H|H].
  - exfalso.
    destruct ((BusRoute.g_type mo =? 1) && BusRoute.opt_is BusRoute.bus_name (BusRoute.g_destination mo)).
    + pose proof (bus_call_nofwd s c mo (to, BusRoute.DFwd m')) as X. rewrite E1 in X. exact (X H m' eq_refl).
    + injection E1 as _ <-. destruct H.
  - apply in_app_or in H as [H|H].
    + destruct (BusRoute.truthy_s (BusRoute.g_destination mo) &&
                negb (BusRoute.opt_is BusRoute.bus_name (BusRoute.g_destination mo))); [|destruct H].
      destruct (BusRoute.g_destination mo) as [d|]; [|destruct H].
      destruct (BusRoute.resolve (BusRoute.r_bus s1) d); [|destruct H].
      destruct H as [H|[]]. injection H as _ <-. reflexivity.
    + cbn [orb] in H. destruct (negb (BusRoute.truthy_s (BusRoute.g_destination mo))); [|destruct H].
      apply in_map_iff in H as (y & H & _). injection H as _ <-. reflexivity.
Qed.

(* ======================================================================== *)
(* 3. the calls callRemote builds                                            *)

Lemma validate_args_fields q :
  Message.validate_args false 1
    [(Message.APath, PStr (q_path q)); (Message.AInterface, ostr (q_iface q));
     (Message.AMember, PStr (q_member q)); (Message.ADestination, ostr (q_dest q));
     (Message.ASignature, ostr (q_sig q))] = Ok tt ->
  validate_member (q_member q) = true /\ opt_p validate_iface (q_iface q) /\ opt_p validate_bus (q_dest q).
Proof.
  unfold Message.validate_args.
  set (attrs := [(Message.APath, PStr (q_path q)); (Message.AInterface, ostr (q_iface q));
                 (Message.AMember, PStr (q_member q)); (Message.ADestination, ostr (q_dest q));
                 (Message.ASignature, ostr (q_sig q))]).
  assert (GM : Message.geta attrs Message.AMember = PStr (q_member q)) by reflexivity.
  assert (GI : Message.geta attrs Message.AInterface = ostr (q_iface q)) by reflexivity.
  assert (GD : Message.geta attrs Message.ADestination = ostr (q_dest q)) by reflexivity.
  rewrite GM, GI, GD. unfold Message.opt_valid at 1. cbn [str_of unwrap andb].
  destruct (validate_member (q_member q)); [|discriminate]. cbn [bind].
  destruct (q_iface q) as [i|]; cbn [ostr opt_p].
  - unfold Message.opt_valid at 1. cbn [str_of unwrap andb]. destruct (validate_iface i); [|discriminate]. cbn [bind].
    destruct (q_dest q) as [d|]; cbn [ostr opt_p].
    + unfold Message.opt_valid at 1. cbn [str_of unwrap andb]. destruct (validate_bus d); [|discriminate].
      intros _. repeat split.
    + intros _. repeat split.
  - cbn [bind]. destruct (q_dest q) as [d|]; cbn [ostr opt_p].
    + unfold Message.opt_valid at 1. cbn [str_of unwrap andb]. destruct (validate_bus d); [|discriminate].
      intros _. repeat split.
    + intros _. repeat split.
Qed.

Lemma hdr_ok_call_msg q n body :
  Message.validate_args false 1
    [(Message.APath, PStr (q_path q)); (Message.AInterface, ostr (q_iface q));
     (Message.AMember, PStr (q_member q)); (Message.ADestination, ostr (q_dest q));
     (Message.ASignature, ostr (q_sig q))] = Ok tt ->
  header_ok q = true -> n <= Calls.max_serial -> hdr_ok (call_msg q n body).
Proof.
  intros V H N. destruct (validate_args_fields q V) as (VM & VI & VD).
  unfold header_ok in H. apply andb_true_iff in H as [HP HS]. unfold Calls.max_serial in N.
  unfold call_msg. constructor;
    cbn [BusRoute.g_le BusRoute.g_type BusRoute.g_flags BusRoute.g_serial BusRoute.g_path
         BusRoute.g_interface BusRoute.g_member BusRoute.g_error_name BusRoute.g_reply_serial
         BusRoute.g_destination BusRoute.g_sender BusRoute.g_signature BusRoute.g_body
         BusRoute.g_args BusRoute.g_rs_signed opt_p]; try reflexivity; try exact I.
  - lia.
  - unfold call_flags. destruct (q_expect q), (q_auto q); cbn; lia.
  - lia.
  - exact HP.
  - destruct (q_iface q) as [i|]; cbn [opt_p] in *; [apply iface_string_ok; exact VI | exact I].
  - apply member_string_ok. exact VM.
  - destruct (q_dest q) as [d|]; cbn [opt_p] in *; [apply bus_string_ok; exact VD | exact I].
  - destruct (q_sig q) as [sg|]; cbn [opt_p]; [exact HS | exact I].
Qed.

(* ======================================================================== *)
(* 4. the replies of the dispatcher                                          *)

Definition call_ok (dc : Dispatch.call) : Prop :=
  (0 <= Dispatch.c_serial dc < 4294967296)%Z /\ opt_p MsgSpec.string_ok (Dispatch.c_sender dc).

(* signature and error name of a reply *)
Definition rep_wf (r : Dispatch.reply) : Prop :=
  sig_ok (Dispatch.r_sig r) = true /\
  match Dispatch.r_kind r with Dispatch.KError name => validate_iface name = true | _ => True end.

Definition unmod_ok (g : config) : Prop :=
  forall dc, validate_iface (fst (g_unmodelled g dc)) = true.

Lemma hdr_ok_reply g dc r n :
  unmod_ok g -> call_ok dc ->
  Dispatch.r_dest r = Dispatch.c_sender dc -> Dispatch.r_serial r = Dispatch.c_serial dc -> rep_wf r ->
  n <= Calls.max_serial -> hdr_ok (reply_msg g dc r n).
Proof.
  intros U [CS CD] ED ES [WS WK] N. unfold Calls.max_serial in N.
  destruct r as [k rs d sg b]. cbn [Dispatch.r_dest Dispatch.r_serial Dispatch.r_sig Dispatch.r_kind] in *. subst d rs.
  assert (SG : opt_p sig_ok (match sg with [] => None | x => Some x end)).
  { destruct sg; cbn [opt_p]; [exact I | exact WS]. }
  assert (RS : Z.to_N (Dispatch.c_serial dc) < 4294967296) by lia.
  unfold reply_msg. cbn [Dispatch.r_dest Dispatch.r_serial Dispatch.r_sig Dispatch.r_kind].
  destruct k as [|name|]; constructor;
    cbn [BusRoute.g_le BusRoute.g_type BusRoute.g_flags BusRoute.g_serial BusRoute.g_path
         BusRoute.g_interface BusRoute.g_member BusRoute.g_error_name BusRoute.g_reply_serial
         BusRoute.g_destination BusRoute.g_sender BusRoute.g_signature BusRoute.g_body
         BusRoute.g_args BusRoute.g_rs_signed opt_p];
    try reflexivity; try exact I; try lia; try exact CD;
    try (destruct sg; [exact I | exact WS]).
  - apply iface_string_ok. exact WK.
  - apply iface_string_ok. apply U.
Qed.

Definition meths_ok (ex : Dispatch.exports) : Prop :=
  forall p o i m, In (p, o) ex -> In i (Dispatch.interfaces o) -> In m (Dispatch.i_methods i) ->
                  sig_ok (Dispatch.m_out m) = true.

Lemma mk_error_wf name c b r : Dispatch.mk_error name c b = Ok r -> rep_wf r.
Proof.
  unfold Dispatch.mk_error. destruct (negb (Dispatch.dest_ok (Dispatch.c_sender c))); [discriminate|].
  destruct (validate_iface name) eqn:V; [|discriminate]. cbn [negb]. intro H. injection H as <-.
  split; [reflexivity | exact V].
Qed.

Lemma mk_return_wf c sg v r : sig_ok sg = true -> Dispatch.mk_return c sg v = Ok r -> rep_wf r.
Proof.
  intro S. unfold Dispatch.mk_return. destruct (negb (Dispatch.dest_ok (Dispatch.c_sender c))); [discriminate|].
  destruct (Dispatch.encode_out sg v); [|discriminate]. intro H. injection H as <-. split; [exact S | exact I].
Qed.

Lemma send_reply_wf c m v r :
  sig_ok (Dispatch.m_out m) = true -> In r (Dispatch.send_reply c m v) -> rep_wf r.
Proof.
  intro S. unfold Dispatch.send_reply.
  destruct (Dispatch.mk_return c (Dispatch.m_out m) (Dispatch.wrap_result (Dispatch.m_nret m) v)) as [r'|e] eqn:E.
  - intros [<-|[]]. exact (mk_return_wf _ _ _ _ S E).
  - destruct (negb (Dispatch.dest_ok (Dispatch.c_sender c))); [intros []|]. intros [<-|[]]. split; [reflexivity | exact I].
Qed.

Lemma send_failure_wf lt c e r : In r (Dispatch.send_failure lt c e) -> rep_wf r.
Proof.
  unfold Dispatch.send_failure. destruct (Dispatch.send_error lt c e) as [r'|x] eqn:E; [|intros []].
  intros [<-|[]]. unfold Dispatch.send_error in E.
  destruct (if validate_error _ then _ else _) as [name text] in E.
  destruct (negb (Dispatch.text_ok _)) in E; [discriminate|]. exact (mk_error_wf _ _ _ _ E).
Qed.

Lemma fire_wf p l r :
  sig_ok (Dispatch.m_out (Dispatch.p_meth p)) = true -> In r (Dispatch.fire p l) -> rep_wf r.
Proof.
  intro S. unfold Dispatch.fire, Dispatch.fire_with. destruct l; [apply send_reply_wf; exact S | apply send_failure_wf].
Qed.

Lemma find_meth_in mem l m : Dispatch.find_meth mem l = Some m -> In m l.
Proof.
  induction l as [|x l IH]; cbn [Dispatch.find_meth]; [discriminate|].
  destruct (str_eqb (Dispatch.m_name x) mem); [intro H; injection H as <-; left; reflexivity|].
  intro H. right. exact (IH H).
Qed.

Lemma pick_iface_in ci mem l i : Dispatch.pick_iface ci mem l = Some i -> In i l.
Proof.
  induction l as [|x l IH]; cbn [Dispatch.pick_iface]; [discriminate|].
  destruct ci as [n|].
  - destruct (str_eqb (Dispatch.i_name x) n); [intro H; injection H as <-; left; reflexivity|].
    intro H. right. exact (IH H).
  - destruct (Dispatch.find_meth mem (Dispatch.i_methods x)); [intro H; injection H as <-; left; reflexivity|].
    intro H. right. exact (IH H).
Qed.

Lemma one_wf x rs invs p :
  Dispatch.one x = Dispatch.HDone rs invs p -> (forall r, x = Ok r -> rep_wf r) ->
  (forall r, In r rs -> rep_wf r) /\ p = None.
Proof.
  unfold Dispatch.one. destruct x as [r|e]; [|discriminate]. intros H A. injection H as <- <- <-.
  split; [|reflexivity]. intros r' [<-|[]]. apply A. reflexivity.
Qed.

Lemma handle_wf ex beh c rs invs p :
  meths_ok ex -> Dispatch.handle ex beh c = Dispatch.HDone rs invs p ->
  (forall r, In r rs -> rep_wf r) /\
  match p with Some pd => sig_ok (Dispatch.m_out (Dispatch.p_meth pd)) = true | None => True end.
Proof.
  intro MO. unfold Dispatch.handle, Dispatch.handle_with.
  assert (NONE : forall (rs0 : list Dispatch.reply), (forall r, In r rs0 -> rep_wf r) /\ p = None ->
                 (forall r, In r rs0 -> rep_wf r) /\
                 match p with Some pd => sig_ok (Dispatch.m_out (Dispatch.p_meth pd)) = true | None => True end).
  { intros rs0 [A ->]. split; [exact A | exact I]. }
  destruct (Dispatch.opt_is (Dispatch.c_iface c) Dispatch.n_peer && str_eqb (Dispatch.c_member c) Dispatch.n_ping).
  { intro H. apply NONE. apply (one_wf _ _ _ _ H). intros r E. exact (mk_return_wf c [] _ r eq_refl E). }
  destruct (if Dispatch.opt_is (Dispatch.c_iface c) Dispatch.n_introspectable && str_eqb (Dispatch.c_member c) Dispatch.n_introspect
            then ObjTree.introspect (Dispatch.c_path c) (Dispatch.to_tree ex) else None).
  { destruct (Dispatch.dest_ok (Dispatch.c_sender c)); [|discriminate]. intro H. injection H as <- <- <-.
    split; [|exact I]. intros r [<-|[]]. split; [reflexivity | exact I]. }
  destruct (alist_get str_eqb (Dispatch.c_path c) ex) as [o|] eqn:EO.
  2:{ intro H. apply NONE. apply (one_wf _ _ _ _ H). intros r E. exact (mk_error_wf _ _ _ _ E). }
  destruct (Dispatch.opt_is (Dispatch.c_iface c) Dispatch.n_object_manager && str_eqb (Dispatch.c_member c) Dispatch.n_get_managed).
  { destruct (Dispatch.dest_ok (Dispatch.c_sender c)); [|discriminate]. intro H. injection H as <- <- <-.
    split; [|exact I]. intros r [<-|[]]. split; [reflexivity | exact I]. }
  destruct (Dispatch.pick_iface (Dispatch.truthy_str (Dispatch.c_iface c)) (Dispatch.c_member c) (Dispatch.interfaces o))
    as [i|] eqn:EI.
  2:{ intro H. apply NONE. apply (one_wf _ _ _ _ H). intros r E. exact (mk_error_wf _ _ _ _ E). }
  destruct (Dispatch.find_meth (Dispatch.c_member c) (Dispatch.i_methods i)) as [m|] eqn:EM.
  2:{ intro H. apply NONE. apply (one_wf _ _ _ _ H). intros r E. exact (mk_error_wf _ _ _ _ E). }
  assert (SM : sig_ok (Dispatch.m_out m) = true).
  { apply (MO (Dispatch.c_path c) o i m).
    - apply DispatchProofs.alist_get_in. exact EO.
    - exact (pick_iface_in _ _ _ _ EI).
    - exact (find_meth_in _ _ _ EM). }
  destruct (negb (str_eqb (Dispatch.m_in m) (Dispatch.sig_or_empty (Dispatch.c_sig c)))).
  { intro H. apply NONE. apply (one_wf _ _ _ _ H). intros r E. exact (mk_error_wf _ _ _ _ E). }
  destruct (Dispatch.exec_lookup o (Dispatch.i_name i) (Dispatch.c_member c)) as [f|].
  2:{ intro H. injection H as <- <- <-. split; [|exact I]. destruct (Dispatch.c_expect c); [|intros r []].
      intros r. apply send_failure_wf. }
  destruct (beh _) as [v|e|].
  - intro H. injection H as <- <- <-. split; [|exact I]. destruct (Dispatch.c_expect c); [|intros r []].
    intros r. apply send_reply_wf. exact SM.
  - intro H. injection H as <- <- <-. split; [|exact I]. destruct (Dispatch.c_expect c); [|intros r []].
    intros r. apply send_failure_wf.
  - intro H. injection H as <- <- <-. split; [intros r []|].
    destruct (Dispatch.c_expect c); [exact SM | exact I].
Qed.

(* ======================================================================== *)
(* 5. the invariant of System.step                                           *)

Definition net_hdr (net : list (link * wire)) : Prop := forall lk w, In (lk, w) net -> hdr_ok (w_msg w).

Definition pend_ok (p : Dispatch.pend) : Prop :=
  call_ok (Dispatch.p_call p) /\ sig_ok (Dispatch.m_out (Dispatch.p_meth p)) = true.

(* everything in flight has a header the codec carries; the calls whose Deferred is
   still open came with a serial and a sender the reply can carry *)
Definition HdrInv (s : sys) : Prop :=
  net_hdr (s_net s) /\ forall c k p, In (c, k, p) (s_open s) -> pend_ok p.

(* the side conditions, on the configuration only *)
Record cfg_ok (g : config) : Prop := mkCfgOk {
  co_out : forall c, meths_ok (g_exports g c);     (* declared return signatures: ASCII, at most 255 bytes *)
  co_unmod : unmod_ok g                            (* the error name Model/Dispatch.v leaves open is an interface name *)
}.

Lemma net_hdr_app a b : net_hdr a -> net_hdr b -> net_hdr (a ++ b).
Proof. intros A B lk w H. apply in_app_or in H as [H|H]; [exact (A lk w H) | exact (B lk w H)]. Qed.

Lemma net_hdr_one lk w : hdr_ok (w_msg w) -> net_hdr [(lk, w)].
Proof. intros H lk' w' [E|[]]. injection E as _ <-. exact H. Qed.

Lemma hdrinv_same s s' : s_net s' = s_net s -> s_open s' = s_open s -> HdrInv s -> HdrInv s'.
Proof. intros E1 E2 [A B]. split; [rewrite E1; exact A | rewrite E2; exact B]. Qed.

Lemma take_hdr lk net w rest : take lk net = Some (w, rest) -> net_hdr net -> hdr_ok (w_msg w) /\ net_hdr rest.
Proof.
  intros T NH. destruct (take_spec _ _ _ _ T) as (l1 & l2 & -> & ->). split.
  - apply (NH lk w). apply in_or_app. right. left. reflexivity.
  - intros lk' w' H. apply (NH lk' w'). apply in_app_or in H as [H|H]; apply in_or_app; [left; exact H | right; right; exact H].
Qed.

Lemma send_replies_hdr g c dc : unmod_ok g -> call_ok dc -> forall rs s,
  (forall r, In r rs -> rep_wf r /\ Dispatch.r_dest r = Dispatch.c_sender dc /\ Dispatch.r_serial r = Dispatch.c_serial dc) ->
  net_hdr (s_net s) ->
  net_hdr (s_net (send_replies g s c dc rs)) /\ s_open (send_replies g s c dc rs) = s_open s.
Proof.
  intros U CO. induction rs as [|r rs IH]; intros s A NH; cbn [send_replies]; [split; [exact NH | reflexivity]|].
  match goal with |- context [send_replies g ?S c dc rs] => destruct (IH S) as [H1 H2] end.
  - intros r' Hr. apply A. right. exact Hr.
  - destruct (Calls.max_serial <? p_serial (proc_of g s c)) eqn:E.
    + exact NH.
    + cbn [set_net set_procs s_net]. apply net_hdr_app; [exact NH|]. apply net_hdr_one. cbn [w_msg].
      destruct (A r (or_introl eq_refl)) as (W & D & S). apply hdr_ok_reply; try assumption.
      apply N.ltb_ge in E. exact E.
  - split; [exact H1|]. rewrite H2. destruct (Calls.max_serial <? p_serial (proc_of g s c)); reflexivity.
Qed.

Lemma call_of_ok fuel m dc : hdr_ok m -> call_of fuel m = Ok dc -> call_ok dc.
Proof.
  intros [L T FL SR HP HI HM HE HR HD HS HG AR SG TB]. unfold call_of. destruct (decode_body fuel m); [|discriminate].
  intro E. injection E as <-. split; cbn [Dispatch.c_serial Dispatch.c_sender]; [lia | exact HS].
Qed.

Lemma hdrinv_conn_call g s c q k : HdrInv s -> HdrInv (conn_call g s c q k).
Proof.
  intros [NH OP]. destruct (conn_call_spec g s c q k) as [F O]. split.
  - destruct O; rewrite Hnet; [exact NH| |];
      (apply net_hdr_app; [exact NH|]; apply net_hdr_one; cbn [w_msg]; apply hdr_ok_call_msg; assumption).
  - rewrite (cf_open _ _ _ _ _ F). exact OP.
Qed.

Lemma hdrinv_bus_deliver s c w : HdrInv s -> hdr_ok (w_msg w) -> HdrInv (bus_deliver s c w).
Proof.
  intros [NH OP] HW. unfold bus_deliver. destruct (mem c (s_closed s)); [split; assumption|].
  destruct (BusRoute.step (s_bus s) (BusRoute.ESend c (w_msg w))) as [b o] eqn:E.
  split; cbn [s_net s_open]; [|exact OP].
  apply net_hdr_app; [exact NH|]. intros lk w' H. unfold fwd_items in H. apply in_flat_map in H as (x & Hx & H).
  destruct x as [to dl]. cbn [fst snd] in H. destruct dl as [m'|n0 a|sg]; [|destruct H|destruct H].
  destruct H as [H|[]]. injection H as _ <-. cbn [w_msg].
  assert (X : m' = forwarded c (w_msg w)).
  { apply (bus_step_fwd (s_bus s) c (w_msg w) to). rewrite E. exact Hx. }
  subst m'. apply hdr_ok_forwarded. exact HW.
Qed.

Lemma hdrinv_client_deliver g s c w : cfg_ok g -> HdrInv s -> hdr_ok (w_msg w) -> HdrInv (client_deliver g s c w).
Proof.
  intros [MO U] HI HW. unfold client_deliver. destruct (is_dead s c); [exact HI|].
  assert (DEAD : HdrInv (set_dead s c)) by (apply (hdrinv_same s); [reflexivity | reflexivity | exact HI]).
  destruct (BusRoute.g_type (w_msg w) =? 1).
  - unfold deliver_call. destruct (call_of (g_fuel g) (w_msg w)) as [dc|e] eqn:EC; [|exact DEAD].
    pose proof (call_of_ok _ _ _ HW EC) as CO.
    destruct (Dispatch.handle (g_exports g c) (g_beh g c) dc) as [e|rs invs p] eqn:EH; [exact DEAD|].
    destruct (handle_shape _ _ _ _ _ _ EH) as (_ & AD & _ & PC).
    destruct (handle_wf _ _ _ _ _ _ (MO c) EH) as [WF PW].
    destruct HI as [NH OP].
    match goal with |- HdrInv (send_replies g ?S c dc rs) =>
      destruct (send_replies_hdr g c dc U CO rs S) as [H1 H2] end.
    + intros r Hr. split; [exact (WF r Hr) | exact (AD r Hr)].
    + exact NH.
    + split; [exact H1|]. rewrite H2. cbn [add_invs s_open]. destruct p as [pd|]; [|exact OP].
      intros c' k' p' H. apply in_app_or in H as [H|[H|[]]]; [exact (OP c' k' p' H)|].
      injection H as _ _ <-. destruct PC as [_ PC]. split; [rewrite PC; exact CO | exact PW].
  - destruct ((BusRoute.g_type (w_msg w) =? 2) || (BusRoute.g_type (w_msg w) =? 3)).
    + unfold deliver_reply. destruct (decode_body (g_fuel g) (w_msg w)); [|exact DEAD].
      destruct (BusRoute.g_reply_serial (w_msg w)); [|exact HI].
      destruct (alist_get N.eqb n (Calls.st_pending (s_calls s c))); [|exact HI].
      destruct (BusRoute.g_type (w_msg w) =? 2);
        (match goal with |- HdrInv (finish g ?S c ?ID ?X ?XML) =>
           destruct (finish_spec g S c ID X XML) as (SC & _);
           apply (hdrinv_same s); [rewrite (sc_net _ _ SC); reflexivity | rewrite (sc_open _ _ SC); reflexivity | exact HI]
         end).
    + destruct (BusRoute.g_type (w_msg w) =? 4); [exact HI | exact DEAD].
Qed.

Lemma hdrinv_fire_open g s c key l : cfg_ok g -> HdrInv s -> HdrInv (fire_open g s c key l).
Proof.
  intros [MO U] [NH OP]. unfold fire_open. destruct (take_open c key (s_open s)) as [[p rest]|] eqn:T; [|split; assumption].
  destruct (take_open_spec _ _ _ _ _ T) as (l1 & l2 & E & ->).
  assert (PO : pend_ok p). { apply (OP c key p). rewrite E. apply in_or_app. right. left. reflexivity. }
  destruct PO as [CO SM]. destruct (fire_shape p l) as [_ AD].
  match goal with |- HdrInv (send_replies g ?S c ?DC ?RS) =>
    destruct (send_replies_hdr g c DC U CO RS S) as [H1 H2] end.
  - intros r Hr. split; [exact (fire_wf p l r SM Hr) | exact (AD r Hr)].
  - exact NH.
  - split; [exact H1|]. rewrite H2. cbn [s_open]. intros c' k' p' H. apply (OP c' k' p'). rewrite E.
    apply in_app_or in H as [H|H]; apply in_or_app; [left; exact H | right; right; exact H].
Qed.

Theorem hdrinv_step g s a : cfg_ok g -> HdrInv s -> HdrInv (step g s a).
Proof.
  intros CO HI. destruct a as [c name ds noreg|c bus path a replace|c pidx mem args kw|c|c|c key l]; cbn [step].
  - unfold declare_iface. destruct (Introspect.declare _ _ name ds noreg) as [[[h k] x]|e]; [|exact HI].
    apply (hdrinv_same s); [reflexivity | reflexivity | exact HI].
  - unfold get_remote. destruct (str_eqb bus BusRoute.bus_name); [exact HI|].
    destruct (get_remote_object _ _ bus path a).
    + apply (hdrinv_same s); [reflexivity | reflexivity | exact HI].
    + apply hdrinv_conn_call. exact HI.
  - unfold proxy_call. destruct (nth_error (s_proxies s c) pidx) as [px|]; [|exact HI].
    destruct (call_remote _ (px_bus px) (px_path px) mem args kw);
      try (apply (hdrinv_same s); [reflexivity | reflexivity | exact HI]).
    apply hdrinv_conn_call. exact HI.
  - destruct (take (Up c) (s_net s)) as [[w rest]|] eqn:T; [|exact HI].
    destruct HI as [NH OP]. destruct (take_hdr _ _ _ _ T NH) as [HW NR].
    apply hdrinv_bus_deliver; [split; [exact NR | exact OP] | exact HW].
  - destruct (take (Down c) (s_net s)) as [[w rest]|] eqn:T; [|exact HI].
    destruct HI as [NH OP]. destruct (take_hdr _ _ _ _ T NH) as [HW NR].
    apply hdrinv_client_deliver; [exact CO | split; [exact NR | exact OP] | exact HW].
  - apply hdrinv_fire_open; assumption.
Qed.

Theorem hdrinv_run g : cfg_ok g -> forall sched s, HdrInv s -> HdrInv (run_from g s sched).
Proof.
  intro CO. unfold run_from. induction sched as [|a r IH]; intros s HI; cbn [fold_left]; [exact HI|].
  apply IH. apply hdrinv_step; assumption.
Qed.

Lemma hdrinv_init h0 serial0 : HdrInv (init h0 serial0).
Proof. split; cbn [init s_net s_open]; [intros lk w [] | intros c k p []]. Qed.

(* ======================================================================== *)
(* 6. byte-level runs: encodability follows from the size bound alone          *)

Theorem hdr_ok_encodable fuel m :
  hdr_ok m -> fits m -> (4 <= fuel)%nat -> encodable (wire_enc fuel) (wire_dec fuel) m.
Proof.
  intros H F L. split.
  - apply wire_enc_wellframed; assumption.
  - rewrite (wire_enc_eq fuel m H F L). apply wire_dec_rawB; assumption.
Qed.

Section Sized.
  Variable g : config.
  Variable fuel : nat.
  Notation enc := (wire_enc fuel).
  Notation dec := (wire_dec fuel).

  (* every message in flight is within message.py's limit of 2^27 bytes *)
  Definition net_fits (net : list (link * wire)) : Prop := forall lk w, In (lk, w) net -> fits (w_msg w).

  Fixpoint sized_run (bs : bsys) (sched : list baction) : Prop :=
    net_fits (s_net (bs_sys bs)) /\
    match sched with
    | [] => True
    | a :: r => sized_run (fst (bstep g enc dec bs a)) r
    end.

  Lemma net_ok_of_hdr net : (4 <= fuel)%nat -> net_hdr net -> net_fits net -> net_ok enc dec net.
  Proof. intros L NH NF lk w H. apply hdr_ok_encodable; [exact (NH lk w H) | exact (NF lk w H) | exact L]. Qed.

  Theorem sized_good :
    cfg_ok g -> (4 <= fuel)%nat -> forall sched bs,
    LinkInv enc bs -> HdrInv (bs_sys bs) -> sized_run bs sched -> good_run g enc dec bs sched.
  Proof.
    intros CO L. induction sched as [|a r IH]; intros bs LI HI SR; cbn [good_run sized_run] in *.
    - destruct SR as [NF _]. split; [apply net_ok_of_hdr; [exact L | exact (proj1 HI) | exact NF] | exact I].
    - destruct SR as [NF SR].
      assert (NO : net_ok enc dec (s_net (bs_sys bs))) by (apply net_ok_of_hdr; [exact L | exact (proj1 HI) | exact NF]).
      split; [exact NO|]. destruct (bstep_refines g enc dec bs a LI NO) as [E LI1].
      apply IH; [exact LI1 | rewrite E; apply hdrinv_run; assumption | exact SR].
  Qed.

  Theorem sized_good_init h0 serial0 sched :
    cfg_ok g -> (4 <= fuel)%nat ->
    sized_run (binit (init h0 serial0)) sched -> good_run g enc dec (binit (init h0 serial0)) sched.
  Proof.
    intros CO L SR. apply sized_good; try assumption.
    - apply linkinv_init. reflexivity.
    - apply hdrinv_init.
  Qed.

  (* the size bound is decidable *)
  Definition fitsb (m : BusRoute.bmsg) : bool :=
    len (rawB (smsg_of_b m) (BusRoute.g_body m)) <=? Message.max_msg_len.

  Lemma fitsb_ok m : fitsb m = true -> fits m.
  Proof. unfold fitsb, fits. intro H. apply N.leb_le. exact H. Qed.

  Definition net_fitsb (net : list (link * wire)) : bool := forallb (fun x => fitsb (w_msg (snd x))) net.

  Fixpoint sized_runb (bs : bsys) (sched : list baction) : bool :=
    net_fitsb (s_net (bs_sys bs)) &&
    match sched with
    | [] => true
    | a :: r => sized_runb (fst (bstep g enc dec bs a)) r
    end.

  Lemma sized_runb_ok : forall sched bs, sized_runb bs sched = true -> sized_run bs sched.
  Proof.
    assert (NF : forall net, net_fitsb net = true -> net_fits net).
    { intros net H lk w IN. unfold net_fitsb in H. rewrite forallb_forall in H. apply fitsb_ok. exact (H (lk, w) IN). }
    induction sched as [|a r IH]; intros bs H; cbn [sized_runb sized_run] in *; apply andb_true_iff in H as [H1 H2].
    - split; [apply NF; exact H1 | exact I].
    - split; [apply NF; exact H1 | apply IH; exact H2].
  Qed.

  (* ====================================================================== *)
  (* 7. the end-to-end theorem over byte-level schedules, without [good_run]    *)

  Theorem end_to_end_bytes_sized :
    forall (h0 : list BusRoute.event) (serial0 : nat -> N)
           (bpre bpost : list baction) (i j : client) (pidx : nat) (member : str) (args : list pyval) (kw : kwargs)
           (px : proxy) (q : creq) (d : str) (ts_in ts_out : list WireSpec.ty) (ws_in : list WireSpec.wval)
           (o : Dispatch.object) (im : Dispatch.iface) (m : Dispatch.meth),
    let B := fst (BusRoute.run h0) in
    let s1 := bs_sys (fst (brun g enc dec h0 serial0 bpre)) in
    let st := bs_sys (fst (brun g enc dec h0 serial0 (bpre ++ BApp (ACall i pidx member args kw) :: bpost))) in
    let n := p_serial (proc_of g s1 i) in
    let id := Calls.st_next_id (s_calls s1 i) in
    let dc := SystemSpec.arriving_call q (SystemSpec.arrived ts_in ws_in) (unique_name i) (Z.of_N n) in
    cfg_ok g -> (4 <= fuel)%nat ->
    sized_run (binit (init h0 serial0)) (bpre ++ BApp (ACall i pidx member args kw) :: bpost) ->
    all_hello B -> mem i (b_clients (BusRoute.r_bus B)) = true -> mem j (b_clients (BusRoute.r_bus B)) = true ->
    Validators.validate_bus (unique_name i) = true ->
    nth_error (s_proxies s1 i) pidx = Some px ->
    call_remote (ifaces_of (p_heap (proc_of g s1 i)) (px_ifaces px)) (px_bus px) (px_path px) member args kw = PcCall q ->
    q_expect q = true -> q_dest q = Some d -> route B d = Some j ->
    q_sig q = Some (WireSpec.show_list ts_in) -> q_args q = args ->
    constructible q -> n <= Calls.max_serial ->
  (forall body, encode_body (g_fuel g) (q_sig q) (PTuple (q_args q)) (Some []) = Ok body ->
                too_big (g_limit g) (g_fuel g) (call_msg q n body) = false) ->
    SystemSpec.passed ts_in args ws_in (g_fuel g) ->
    DispatchSpec.distinct_interfaces (g_exports g j) -> DispatchSpec.builtin dc = false ->
    DispatchSpec.addressed (g_exports g j) dc = DispatchSpec.TMethod o im m ->
    DispatchSpec.candidates o (Dispatch.i_name im) (q_member q) <> [] ->
    q_rs q = Calls.RsStr (Dispatch.m_out m) -> Dispatch.m_out m = WireSpec.show_list ts_out ->
    quiescent st -> ~ stuck g i j st ->
    exists f l x,
      In f (DispatchSpec.candidates o (Dispatch.i_name im) (q_member q)) /\
      SystemSpec.only (has_tag (tag_of i n)) (s_invs st) (j, tag_of i n, DispatchSpec.expected_invocation dc f) /\
      SystemSpec.only (has_tag (tag_of i n)) (s_results st) (j, tag_of i n, l) /\
      SystemSpec.only (is_done i id) (s_done st) (i, id, x) /\
      SystemSpec.mirrors ts_out (g_fuel g) l x.
  Proof.
    intros h0 serial0 bpre bpost i j pidx member args kw px q d ts_in ts_out ws_in o im m B s1 st n id dc CO L SR.
    apply (end_to_end_bytes g enc dec h0 serial0 bpre bpost i j pidx member args kw px q d ts_in ts_out ws_in o im m).
    apply sized_good_init; assumption.
  Qed.

  (* ... and the refinement itself *)
  Theorem bytes_refine_messages_sized h0 serial0 sched :
    cfg_ok g -> (4 <= fuel)%nat -> sized_run (binit (init h0 serial0)) sched ->
    bs_sys (fst (brun g enc dec h0 serial0 sched)) = run g h0 serial0 (snd (brun g enc dec h0 serial0 sched)).
  Proof. intros CO L SR. apply bytes_refine_messages. apply sized_good_init; assumption. Qed.
End Sized.

(* ======================================================================== *)
(* 8. the hypotheses are inhabited: the byte-wise scenario of
      Proofs/SystemBytesProofs.v, with an error name for the case Model/Dispatch.v
      leaves open                                                            *)

Definition z_cfg : config :=
  mkCfg (g_fuel x_cfg) (g_proc x_cfg) (g_exports x_cfg) (g_beh x_cfg) (fun _ => (x_iface, [])) (g_limit x_cfg).

Lemma z_cfg_ok : cfg_ok z_cfg.
Proof.
  split.
  - intro c. cbn [z_cfg x_cfg g_exports]. destruct (c =? 2); intros p o i m H; [|destruct H].
    destruct H as [H|[]]. injection H as <- <-. cbn. intros [<-|[]]. cbn. intros [<-|[]]. reflexivity.
  - intro dc. reflexivity.
Qed.

Definition z_run := brun z_cfg (wire_enc 8) (wire_dec 8) x_h0 (fun _ => 10) y_sched.

Lemma example_sized :
  sized_runb z_cfg 8 (binit (init x_h0 (fun _ => 10))) y_sched = true /\
  snd z_run = x_order_b /\
  x_done (bs_sys (fst z_run)) = [(3, 0%nat, CValue (Some (PInt 9))); (1, 0%nat, CValue (Some (PInt 7)))] /\
  s_net (bs_sys (fst z_run)) = [] /\ s_open (bs_sys (fst z_run)) = [].
Proof. vm_compute. repeat split; reflexivity. Qed.
