(* C18: the validators of Model/Validators.v accept exactly Spec/Grammar.v. *)
From Coq Require Import Btauto.
From Tx Require Import Lib.Base Gen.Generated Model.Validators Spec.Grammar Proofs.SplitLemmas.
Local Open Scope N_scope.

(* --- the regenerated regex tables are the model's character classes -------- *)

Definition class_table (ok : N -> bool) : list N := filter ok (map N.of_nat (seq 0 256)).

Lemma path_class_generated : invalid_obj_path_re_accepts = Some (class_table path_ok).
Proof. vm_compute. reflexivity. Qed.
Lemma if_class_generated : if_re_accepts = Some (class_table if_ok).
Proof. vm_compute. reflexivity. Qed.
Lemma bus_class_generated : bus_re_accepts = Some (class_table bus_ok).
Proof. vm_compute. reflexivity. Qed.
Lemma mbr_class_generated : mbr_re_accepts = Some (class_table mbr_ok).
Proof. vm_compute. reflexivity. Qed.
Lemma high_generated :
  (invalid_obj_path_re_flags_high, if_re_flags_high, bus_re_flags_high, mbr_re_flags_high)
  = (Some true, Some true, Some true, Some true).
Proof. reflexivity. Qed.
Lemma dot_digit_generated :
  dot_digit_pairs = Some (map (fun d => (46, N.of_nat d)) (seq 48 10)).
Proof. vm_compute. reflexivity. Qed.

(* every code point outside the tables is rejected by the model classes too *)
Lemma classes_ascii c : 256 <= c ->
  path_ok c = false /\ if_ok c = false /\ bus_ok c = false /\ mbr_ok c = false.
Proof.
  intros H. unfold path_ok, if_ok, bus_ok, mbr_ok, is_alnum_, is_alpha, is_digit,
    c_slash, c_dot, c_colon.
  repeat match goal with
         | |- context [?a <=? ?b] => let E := fresh in destruct (N.leb_spec a b) as [E|E]
         | |- context [?a =? ?b] => let E := fresh in destruct (N.eqb_spec a b) as [E|E]
         end; cbn; repeat split; try reflexivity; lia.
Qed.

(* --- character classes: model vs grammar ------------------------------------ *)

Lemma digit_eq c : is_digit c = g_digit c.
Proof. reflexivity. Qed.

Lemma word_eq c : is_alnum_ c = g_word c.
Proof. unfold is_alnum_, g_word, g_letter, is_alpha, is_digit, g_digit. btauto. Qed.

Lemma forallb_ext' {A} (f g : A -> bool) l : (forall x, f x = g x) -> forallb f l = forallb g l.
Proof. intros H; induction l; simpl; congruence. Qed.

Lemma forallb_andb {A} (f g : A -> bool) l :
  forallb (fun x => f x && g x) l = forallb f l && forallb g l.
Proof. induction l as [|x l IH]; [reflexivity|]. cbn [forallb]. rewrite IH. btauto. Qed.

Lemma forallb_negb_existsb {A} (f : A -> bool) l :
  forallb (fun x => negb (f x)) l = negb (existsb f l).
Proof. induction l as [|x l IH]; [reflexivity|]. cbn. rewrite IH, negb_orb. reflexivity. Qed.

Lemma element_split (dig any : N -> bool) e :
  element (fun c => negb (dig c)) any e =
  negb (is_nil e) && negb (first_dig dig e) && forallb any e.
Proof. destruct e as [|c r]; [reflexivity|]. cbn. btauto. Qed.

Lemma element_any (any : N -> bool) e :
  element (fun _ => true) any e = negb (is_nil e) && forallb any e.
Proof. destruct e as [|c r]; [reflexivity|]. cbn. reflexivity. Qed.

Lemma first_digit_eq s : first_digit s = first_dig g_digit s.
Proof. destruct s; reflexivity. Qed.

Lemma dot_digit_eq s : dot_digit s = sep_dig 46 g_digit s.
Proof. induction s as [|x s IH]; [reflexivity|]. cbn [dot_digit sep_dig]. rewrite IH, first_digit_eq. reflexivity. Qed.

Lemma has_char_eq c s : has_char c s = existsb (N.eqb c) s.
Proof. reflexivity. Qed.

(* "dotted" in terms of scans over the string *)
Lemma dotted_nodigit any n :
  dotted (fun c => negb (g_digit c)) any n =
  existsb (N.eqb 46) n
  && (negb (nil_or_starts_sep 46 n) && negb (contains [46; 46] n) && negb (ends_with_char 46 n))
  && (negb (first_dig g_digit n) && negb (sep_dig 46 g_digit n))
  && forallb (fun x => any x || (x =? 46)) n.
Proof.
  unfold dotted.
  rewrite (forallb_ext' _ _ _ (element_split g_digit any)).
  rewrite !forallb_andb.
  rewrite no_empty_split, <- forallb_split, <- has_sep_split.
  rewrite (split_on_hd_tl 46 n) at 1. cbn [forallb].
  rewrite (first_dig_split 46 g_digit eq_refl).
  rewrite forallb_negb_existsb, <- (sep_dig_split 46 g_digit eq_refl).
  btauto.
Qed.

Lemma dotted_any any n :
  dotted (fun _ => true) any n =
  existsb (N.eqb 46) n
  && (negb (nil_or_starts_sep 46 n) && negb (contains [46; 46] n) && negb (ends_with_char 46 n))
  && forallb (fun x => any x || (x =? 46)) n.
Proof.
  unfold dotted.
  rewrite (forallb_ext' _ _ _ (element_any any)).
  rewrite !forallb_andb.
  rewrite no_empty_split, <- forallb_split, <- has_sep_split.
  btauto.
Qed.

Lemma starts_nil_or n : existsb (N.eqb 46) n = true -> nil_or_starts_sep 46 n = first_is 46 n.
Proof. destruct n; [discriminate|reflexivity]. Qed.

(* --- interface / error names ---------------------------------------------------- *)

Theorem validate_iface_grammar n : validate_iface n = g_interface n.
Proof.
  unfold validate_iface, validate_iface_legacy, g_interface, max_name, c_dot.
  rewrite dotted_nodigit, has_char_eq, first_digit_eq, dot_digit_eq.
  rewrite (forallb_ext' if_ok (fun x => g_word x || (x =? 46)))
    by (intro x; unfold if_ok, c_dot; rewrite word_eq; reflexivity).
  destruct (existsb (N.eqb 46) n) eqn:Hd; [|reflexivity].
  rewrite (starts_nil_or n Hd). btauto.
Qed.

(* the pinned commit accepted names with an empty last element *)
Theorem validate_iface_legacy_refuted :
  exists n, validate_iface_legacy n = true /\ g_interface n = false.
Proof. exists [97; 46]. split; reflexivity. Qed.

(* --- member names ------------------------------------------------------------------ *)

Theorem validate_member_grammar n : validate_member n = g_member n.
Proof.
  unfold validate_member, g_member, max_name.
  rewrite element_split, first_digit_eq.
  rewrite (forallb_ext' mbr_ok g_word) by (intro x; apply word_eq).
  destruct n as [|c r]; [reflexivity|]. cbn [length is_nil negb Nat.ltb Nat.leb andb].
  btauto.
Qed.

(* --- bus names ------------------------------------------------------------------------ *)

Lemma busch_eq x : bus_ok x = (g_busch x || (x =? 46)) || (x =? 58).
Proof. unfold bus_ok, g_busch, c_dot, c_colon. rewrite word_eq. btauto. Qed.

Lemma forallb_no_colon (f : N -> bool) s : f 58 = false ->
  forallb (fun x => f x || (x =? 58)) s && negb (existsb (N.eqb 58) s) = forallb f s.
Proof.
  intros Hf. induction s as [|x s IH]; [reflexivity|]. cbn [forallb existsb].
  rewrite (N.eqb_sym 58 x). destruct (x =? 58) eqn:E.
  - apply N.eqb_eq in E; subst x. rewrite Hf. cbn. rewrite andb_false_r. reflexivity.
  - rewrite orb_false_r. cbn [orb].
    destruct (f x); [cbn [andb]; exact IH | reflexivity].
Qed.

Lemma contains_dd_colon r : contains [46; 46] (58 :: r) = contains [46; 46] r.
Proof. rewrite contains_cons. reflexivity. Qed.

Lemma ends_colon r : existsb (N.eqb 46) r = true -> ends_with_char 46 (58 :: r) = ends_with_char 46 r.
Proof. destruct r; [discriminate|reflexivity]. Qed.

Ltac bool_cases :=
  repeat match goal with
         | b : bool |- _ => destruct b
         end; cbn in *; congruence.

Theorem validate_bus_grammar n : validate_bus n = g_bus n.
Proof.
  unfold validate_bus, validate_bus_legacy, g_bus, max_name, c_dot, c_colon.
  rewrite !has_char_eq, first_digit_eq, dot_digit_eq.
  rewrite (forallb_ext' bus_ok _ n busch_eq).
  destruct n as [|x r].
  { reflexivity. }
  destruct (x =? 58) eqn:Ex.
  - apply N.eqb_eq in Ex; subst x.
    rewrite dotted_any. cbn [tl first_is first_dig existsb forallb starts_with].
    change (46 =? 58) with false. change (58 =? 46) with false.
    change (58 =? 58) with true. change (g_digit 58) with false.
    rewrite contains_dd_colon.
    cbn [orb negb andb]. rewrite !orb_true_r. cbn [andb].
    destruct (existsb (N.eqb 46) r) eqn:Hd; [|reflexivity].
    rewrite (ends_colon r Hd), (starts_nil_or r Hd).
    pose proof (forallb_no_colon (fun x => g_busch x || (x =? 46)) r eq_refl) as Hc.
    destruct r as [|y r']; [discriminate|].
    cbn [first_is]. rewrite andb_true_r.
    match goal with |- context [Nat.leb ?a ?b] => set (L := Nat.leb a b) end.
    set (A := forallb (fun x0 => g_busch x0 || (x0 =? 46) || (x0 =? 58)) (y :: r')) in *.
    set (B := forallb (fun x0 => g_busch x0 || (x0 =? 46)) (y :: r')) in *.
    set (C := existsb (N.eqb 58) (y :: r')) in *.
    rewrite (N.eqb_sym 46 y).
    set (D := y =? 46). set (E := contains [46; 46] (y :: r')).
    set (F := ends_with_char 46 (y :: r')).
    clearbody A B C D E F L. clear Hd. bool_cases.
  - assert (Hn : match x :: r with 58 :: r0 => dotted (fun _ => true) g_busch r0
                            | _ => dotted (fun c => negb (g_digit c)) g_busch (x :: r) end
                 = dotted (fun c => negb (g_digit c)) g_busch (x :: r)).
    { destruct x as [|p]; [reflexivity|].
      do 6 (destruct p as [p|p|]; try reflexivity). discriminate. }
    rewrite Hn. clear Hn.
    rewrite dotted_nodigit.
    assert (Hs : starts_with [58; 46] (x :: r) = false).
    { cbn [starts_with]. rewrite (N.eqb_sym 58 x), Ex. reflexivity. }
    rewrite Hs. cbn [first_is tl]. rewrite Ex. cbn [negb andb].
    destruct (existsb (N.eqb 46) (x :: r)) eqn:Hd; [|reflexivity].
    rewrite (starts_nil_or _ Hd). cbn [first_is].
    pose proof (forallb_no_colon (fun x => g_busch x || (x =? 46)) (x :: r) eq_refl) as Hc.
    cbn [existsb] in Hc. rewrite (N.eqb_sym 58 x), Ex in Hc. cbn [orb] in Hc.
    match goal with |- context [Nat.leb ?a ?b] => set (L := Nat.leb a b) end.
    set (A := forallb (fun x0 => g_busch x0 || (x0 =? 46) || (x0 =? 58)) (x :: r)) in *.
    set (B := forallb (fun x0 => g_busch x0 || (x0 =? 46)) (x :: r)) in *.
    set (C := existsb (N.eqb 58) r) in *.
    set (D := x =? 46). set (E := contains [46; 46] (x :: r)).
    set (F := ends_with_char 46 (x :: r)).
    set (G := first_dig g_digit (x :: r)). set (H := sep_dig 46 g_digit (x :: r)).
    clearbody A B C D E F G H L. clear Hd. bool_cases.
Qed.

Theorem validate_bus_legacy_refuted :
  exists n1 n2 n3,
    (validate_bus_legacy n1 = true /\ g_bus n1 = false) /\   (* "a:b.c"  colon inside   *)
    (validate_bus_legacy n2 = true /\ g_bus n2 = false) /\   (* ":.a"    empty element  *)
    (validate_bus_legacy n3 = true /\ g_bus n3 = false).     (* "a.b."   trailing dot   *)
Proof.
  exists [97; 58; 98; 46; 99], [58; 46; 97], [97; 46; 98; 46].
  repeat split; reflexivity.
Qed.

(* --- object paths ---------------------------------------------------------------------- *)

Lemma path_ok_eq x : path_ok x = g_word x || (x =? 47).
Proof. unfold path_ok, c_slash. rewrite word_eq. reflexivity. Qed.

Lemma element_word e : element g_word g_word e = negb (is_nil e) && forallb g_word e.
Proof. destruct e as [|c r]; [reflexivity|]. cbn. btauto. Qed.

Theorem validate_path_grammar p : validate_path p = g_path p.
Proof.
  unfold validate_path, g_path, c_slash.
  destruct p as [|x r]; [reflexivity|].
  cbn [first_is].
  destruct (x =? 47) eqn:Ex.
  2:{ cbn [andb]. destruct x as [|q]; [reflexivity|].
      do 6 (destruct q as [q|q|]; try reflexivity). discriminate. }
  apply N.eqb_eq in Ex; subst x.
  destruct r as [|y r']; [reflexivity|].
  set (r := y :: r').
  rewrite (forallb_ext' _ _ _ element_word), forallb_andb.
  rewrite no_empty_split, <- forallb_split.
  rewrite (forallb_ext' path_ok _ _ path_ok_eq).
  rewrite contains_cons. cbn [starts_with forallb length].
  change (47 =? 47) with true. change (g_word 47) with false.
  assert (He : ends_with_char 47 (47 :: r) = ends_with_char 47 r) by reflexivity.
  rewrite He. subst r. cbn [nil_or_starts_sep Nat.ltb Nat.leb length].
  rewrite (N.eqb_sym 47 y). btauto.
Qed.

(* --- non-vacuity ---------------------------------------------------------------------------- *)

Example validators_accept_something :
  validate_path [47; 97; 47; 98] = true /\ validate_iface [97; 46; 98] = true /\
  validate_bus [58; 49; 46; 52; 50] = true /\ validate_bus [111; 114; 103; 46; 120] = true /\
  validate_member [77] = true.
Proof. repeat split; reflexivity. Qed.
