(* Extraction of the executable models.  Directives: ExtrOcamlBasic only
   (bool, option, list, prod, unit, sumbool, sumor mapped to OCaml's own
   types); nat, positive, N, Z stay the extracted inductive types. *)
From Coq Require Extraction.
From Coq Require Import ExtrOcamlBasic.
From Tx Require Import Model.Exports.
Extraction "modelrun_core.ml" run_line.
