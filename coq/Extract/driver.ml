(* Line loop around the extracted [run_line]: string <-> list of N. *)
open Modelrun_core

let rec pos_of_int n =
  if n = 1 then XH
  else if n land 1 = 1 then XI (pos_of_int (n lsr 1))
  else XO (pos_of_int (n lsr 1))

let n_of_int n = if n = 0 then N0 else Npos (pos_of_int n)

let rec int_of_pos = function
  | XH -> 1
  | XO p -> 2 * int_of_pos p
  | XI p -> 2 * int_of_pos p + 1

let int_of_n = function N0 -> 0 | Npos p -> int_of_pos p

let table = Array.init 256 n_of_int

let list_of_string s =
  let r = ref [] in
  for i = String.length s - 1 downto 0 do
    r := table.(Char.code s.[i]) :: !r
  done;
  !r

let string_of_list l =
  let b = Buffer.create 256 in
  List.iter (fun n -> Buffer.add_char b (Char.chr (int_of_n n land 255))) l;
  Buffer.contents b

let () =
  try
    while true do
      let line = input_line stdin in
      print_string (string_of_list (run_line (list_of_string line)));
      print_char '\n'
    done
  with End_of_file -> ()
