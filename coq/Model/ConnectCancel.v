(* The caller cancels the Deferred of a call: d.cancel() on what callRemote returned.

   txdbus gives that Deferred no canceller (client.py, callRemoteMessage: defer.Deferred()).  Twisted then
   errbacks it with CancelledError at once and swallows the one callback/errback the library makes later.
   So for the connection NOTHING changes: the entry stays in _pendingCalls and its timeout stays in the
   reactor until the reply, the timeout or the loss of the connection takes them out as for any other
   call - only that this last completion is not seen by the caller any more.

   The model is therefore a layer over Model/ConnectRe.v: the connection state is untouched by a
   cancellation; what is recorded is the list of Deferreds the caller has cancelled, and what the caller
   sees of the completions is the call table's list without those.  Definitions only. *)
From Tx Require Import Lib.Base Model.Calls Model.Connect Model.ConnectRe.
Local Open Scope N_scope.

Inductive cevent :=
| CEv (e : Connect.event)
| CCancel (i : nat).            (* the caller cancels Deferred number i (numbered as in Model/Calls.v) *)

Record cstate := CState {
  cs_core : Connect.state;
  cs_cancelled : list nat      (* Deferreds that fired with CancelledError, in order *)
}.

Definition pending_ids (st : Connect.state) : list nat :=
  map (fun p => pc_id (snd p)) (st_pending (st_calls st)).

(* a Deferred that callRemote handed to the user: not Hello, not an Introspect call *)
Definition user_deferred (st : Connect.state) (i : nat) : bool :=
  match i with
  | O => false
  | S _ => match alist_get Nat.eqb i (st_intro st) with Some _ => false | None => true end
  end.

Definition has (l : list nat) (i : nat) : bool := existsb (Nat.eqb i) l.

(* cancel() does something only on a Deferred that exists and has not fired: for a reply-expecting
   call that is: handed out, its entry still in the table, not cancelled before *)
Definition can_cancel (cs : cstate) (i : nat) : bool :=
  user_deferred (cs_core cs) i &&
  Nat.ltb i (st_next_id (st_calls (cs_core cs))) &&
  has (pending_ids (cs_core cs)) i &&
  negb (has (cs_cancelled cs) i).

Definition step_c (acts : assignment) (cs : cstate) (e : cevent) : cstate :=
  match e with
  | CEv e => CState (step_re acts (cs_core cs) e) (cs_cancelled cs)
  | CCancel i => if can_cancel cs i then CState (cs_core cs) (cs_cancelled cs ++ [i]) else cs
  end.

Definition init_c (addr : list akind) (serial0 : N) : cstate := CState (Connect.init addr serial0) [].

Definition run_c (acts : assignment) (addr : list akind) (serial0 : N) (evs : list cevent) : cstate :=
  fold_left (step_c acts) evs (init_c addr serial0).

(* the history as the connection experiences it *)
Definition erase (evs : list cevent) : list Connect.event :=
  flat_map (fun e => match e with CEv e => [e] | CCancel _ => [] end) evs.
