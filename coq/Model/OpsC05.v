(* Harness entry points for C05 (Model/MarshalCost.v).
   (5 1 legacy sig "data" off le fds)
        -> (1 nbytes vsize calls scan units deep) | (0 err 0 calls scan units deep)
      the instrumented unmarshaller at fuel [lin_fuel]; [legacy] selects the
      pre-834e941 array loop (D01); deep = nesting exceeds 150 levels
   (5 2 "raw" fds)
        -> (1 mtype size calls scan units deep legacy_ok) | (0 err 0 calls scan units deep legacy_ok)
      parseMessage with the signature field validated (D35); legacy_ok = the
      pre-repair Message.parse_message accepts the same bytes
   (5 3 sig) -> length of list(genCompleteTypes(sig)) or error *)
From Tx Require Import Lib.Base Lib.Sexp Model.PyVal Model.Marshal Model.Message Model.OpsC01 Model.MarshalCost.
Local Open Scope Z_scope.

Definition deep_limit : nat := 150.

(* size of what parseMessage leaves on the message object: the final value of each attribute + the body *)
Definition all_attrs : list attr :=
  [APath; AInterface; AMember; AErrorName; AReplySerial; ADestination; ASender; ASignature; AUnixFds].

Definition eff_size (m : parsed) : nat :=
  let '(_, _, _, _, attrs, body) := m in
  (fold_right (fun a n => match get_attr a attrs with Some v => vsize v + n | None => n end) 0 all_attrs
   + match body with Some b => vsize_list b | None => 0 end)%nat.

Definition cost_sexps (c : cost) : list sexp := [snat (calls c); snat (scan c); snat (units c)].

Definition op (args : list sexp) : sexp :=
  match args with
  | [SNum 1; lg; sg; SBytes data; SNum off; le; fds] =>
      match as_bool lg, as_str sg, as_bool le, fds_of_sexp fds with
      | Some lg', Some sig, Some le', Some f =>
          let '(r, c) := mc_unmarshal lg' data le' f (lin_fuel sig data) sig (Z.to_N off) in
          let deep := sbool (deeper_than deep_limit sig data (Z.to_N off) le' f) in
          match r with
          | Ok (n, vs) => SList ([SNum 1; sN n; snat (vsize_list vs)] ++ cost_sexps c ++ [deep])
          | Err e => SList ([SNum 0; SNum (err_code e); SNum 0] ++ cost_sexps c ++ [deep])
          end
      | _, _, _, _ => bad
      end
  | [SNum 2; SBytes raw; fds] =>
      match fds_of_sexp fds with
      | Some f =>
          let '(r, c) := parse_c raw f in
          let deep := sbool (match parse_gen deep_limit (fun _ _ => deep_limit) raw f with Err EFuel => true | _ => false end) in
          let lok := sbool (is_ok (parse_message false (msg_fuel raw) raw f)) in
          match r with
          | Ok m => let '(mt, _, _, _, _, _) := m in
                    SList ([SNum 1; sN mt; snat (eff_size m)] ++ cost_sexps c ++ [deep; lok])
          | Err e => SList ([SNum 0; SNum (err_code e); SNum 0] ++ cost_sexps c ++ [deep; lok])
          end
      | None => bad
      end
  | [SNum 3; sg] =>
      match as_str sg with
      | Some sig => sres (fun l => snat (length l)) (gen_complete_types sig)
      | None => bad
      end
  | _ => bad
  end.
