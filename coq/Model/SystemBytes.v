(* The system of Model/System.v at BYTE granularity.

   Same components, same glue, same application actions; what differs is what a
   link carries and what a delivery is:

   * A link carries bytes: the concatenation of the raw encodings [enc] of the
     messages written on it, in the order written ([stream]).  The messages
     written and not yet completely read are kept as the list [s_net] of the
     message-level state (a write is a write of the whole encoding: the senders
     are the message-level senders, unchanged); the bytes of the link are
     derived from it, the receiver's framing buffer says how many of them have
     been read already ([pending]).
   * A delivery [BDeliver lk n] hands the receiver of link lk the next n pending
     bytes of that link in ONE read - any n: a single byte, a piece of a header,
     the end of one message together with the start of the next, several
     messages at once.
   * The receiver is BasicDBusProtocol.dataReceived in its post-authentication
     state: Model/Framing.v [recv] (C04).  Every message it frames
     (rawDBusMessageReceived(raw)) is parsed ([dec raw]: message.parseMessage as
     far as the bus / the client read the result, C03) and handed to the SAME
     handler as at message level: System.bus_deliver for a client->bus link,
     System.client_deliver for a bus->client link.  A message that does not
     parse is an exception escaping dataReceived: the connection is dropped.
     Several messages completed by one read are handled one after the other
     inside that read, before anything else happens.

   The codec is a parameter of this file: [enc] stands for the bytes
   DBusMessage._marshal writes (rawMessage = header + padding + body:
   Message.marshal_header on the message's fields and raw body), [dec] for
   parseMessage.  What the theorems need of it is stated there as [encodable]:
   an encoding announces its own length (C03_frame_length / C03_frame_shape:
   wellframed) and parses back to the message (C03_parse_own; for a message the
   bus re-serialises, C14_unchanged says which message that is).

   The element events of an Introspect reply ride beside the message as in
   Model/System.v (the k-th message framed on a link gets the k-th ghost).
   Definitions only. *)
From Tx Require Import Lib.Base Model.PyVal Model.BusNames Model.ProxyCall Model.System.
From Tx Require Model.BusRoute Model.Framing Model.Dispatch.
Local Open Scope N_scope.

Section Bytes.
  Variable g : config.
  Variable enc : BusRoute.bmsg -> bytes.             (* DBusMessage._marshal: rawMessage *)
  Variable dec : bytes -> option BusRoute.bmsg.      (* message.parseMessage *)

  (* the receiving protocol object of a link, after authentication: the
     authenticator is no longer consulted, no line limit applies *)
  Definition no_auth (a : unit) (_ : bytes) : unit * Framing.ares := (a, Framing.AContinue).
  Definition rx_state := Framing.st unit.
  Definition rx_init (client : bool) : rx_state := Framing.mkSt client false true [] 0 false false tt.
  Definition rx_recv (r : rx_state) (data : bytes) : rx_state * list Framing.event :=
    Framing.recv no_auth 0 r data.

  Record bsys := mkBS {
    bs_sys : sys;                      (* everything of Model/System.v; s_net = messages written, not yet completely read *)
    bs_rx : link -> rx_state           (* the protocol object reading each link *)
  }.

  Definition link_eq (a : link) (x : link * wire) : bool := link_eqb a (fst x).

  (* the messages written on a link and not yet completely read, oldest first *)
  Definition items_on (lk : link) (net : list (link * wire)) : list wire :=
    map snd (filter (link_eq lk) net).

  (* their bytes *)
  Definition stream (ws : list wire) : bytes := concat (map (fun w => enc (w_msg w)) ws).

  (* the bytes of the link that have not been handed to the receiver yet: the
     receiver's buffer holds the part of the stream already read *)
  Definition pending (bs : bsys) (lk : link) : bytes :=
    skipn (length (Framing.s_buf (bs_rx bs lk))) (stream (items_on lk (s_net (bs_sys bs)))).

  Definition set_rx (f : link -> rx_state) (lk : link) (r : rx_state) : link -> rx_state :=
    fun x => if link_eqb x lk then r else f x.

  (* rawDBusMessageReceived(raw) on the receiver of link lk; [xml] is the ghost of
     the message whose last byte just arrived *)
  Definition handle_raw (lk : link) (raw : bytes) (xml : option (list Introspect.event)) (s : sys) : sys :=
    match dec raw, lk with
    | Some m, Up c => bus_deliver s c (mkW m xml)
    | Some m, Down c => client_deliver g s c (mkW m xml)
    | None, Up c =>                                   (* the exception escapes BusProtocol.dataReceived *)
        mkSys (s_bus s) (s_hist s) (c :: s_closed s) (s_net s) (s_calls s) (s_conts s) (s_proxies s) (s_dead s)
              (s_procs s) (s_open s) (s_next_open s) (s_invs s) (s_results s) (s_done s) (s_raised s)
    | None, Down c => set_dead s c
    end.

  (* one framing event of a read on link lk *)
  Definition handle_event (lk : link) (s : sys) (e : Framing.event) : sys :=
    match e with
    | Framing.Msg raw =>
        match take lk (s_net s) with
        | Some (w, rest) => handle_raw lk raw (w_xml w) (set_net s rest)
        | None => s                                   (* no message was written: cannot be framed *)
        end
    | _ => s                                          (* Line / AuthOk / Close / Crash / Fuel: not after authentication *)
    end.

  (* what a step does at message level, for the record (the schedule of
     Model/System.v that does the same) *)
  Definition deliver_action (lk : link) : action :=
    match lk with Up c => AUp c | Down c => ADown c end.

  Fixpoint msg_count (evs : list Framing.event) : nat :=
    match evs with
    | [] => 0%nat
    | Framing.Msg _ :: r => S (msg_count r)
    | _ :: r => msg_count r
    end.

  Inductive baction :=
  | BApp (a : action)                  (* ADeclare / AProxy / ACall / AFire of Model/System.v *)
  | BDeliver (lk : link) (n : nat).    (* the receiver of lk reads the next n bytes of the link *)

  Definition is_app (a : action) : bool :=
    match a with AUp _ | ADown _ => false | _ => true end.

  (* one step; also returns the message-level actions it amounts to *)
  Definition bstep (bs : bsys) (ba : baction) : bsys * list action :=
    match ba with
    | BApp a => if is_app a then (mkBS (step g (bs_sys bs) a) (bs_rx bs), [a]) else (bs, [])
    | BDeliver lk n =>
        let chunk := firstn n (pending bs lk) in
        let '(r', evs) := rx_recv (bs_rx bs lk) chunk in
        (mkBS (fold_left (handle_event lk) evs (bs_sys bs)) (set_rx (bs_rx bs) lk r'),
         repeat (deliver_action lk) (msg_count evs))
    end.

  Fixpoint brun_from (bs : bsys) (sched : list baction) : bsys * list action :=
    match sched with
    | [] => (bs, [])
    | a :: r =>
        let '(bs1, t1) := bstep bs a in
        let '(bs2, t2) := brun_from bs1 r in
        (bs2, t1 ++ t2)
    end.

  (* every link's reader is freshly authenticated and has read nothing *)
  Definition binit (s : sys) : bsys :=
    mkBS s (fun lk => match lk with Up _ => rx_init false | Down _ => rx_init true end).

  Definition brun (h0 : list BusRoute.event) (serial0 : nat -> N) (sched : list baction) : bsys * list action :=
    brun_from (binit (init h0 serial0)) sched.
End Bytes.
