(* Model of txdbus/message.py: DBusMessage._marshal, the four constructors with
   their validation, and parseMessage. *)
From Tx Require Import Lib.Base Model.PyVal Model.Validators Model.Marshal.
Local Open Scope N_scope.

Definition header_format : str := [121; 121; 121; 121; 117; 117; 97; 40; 121; 118; 41].  (* yyyyuua(yv) *)
Definition max_msg_len : N := 134217728.   (* 2**27 *)

(* header attributes *)
Inductive attr := APath | AInterface | AMember | AErrorName | AReplySerial
                | ADestination | ASender | ASignature | AUnixFds.

Definition attr_code (a : attr) : N :=
  match a with
  | APath => 1 | AInterface => 2 | AMember => 3 | AErrorName => 4 | AReplySerial => 5
  | ADestination => 6 | ASender => 7 | ASignature => 8 | AUnixFds => 9
  end.

Definition attr_of_code (c : Z) : option attr :=
  match c with
  | 1 => Some APath | 2 => Some AInterface | 3 => Some AMember | 4 => Some AErrorName
  | 5 => Some AReplySerial | 6 => Some ADestination | 7 => Some ASender | 8 => Some ASignature
  | 9 => Some AUnixFds | _ => None
  end%Z.

Definition attr_name (a : attr) : str :=
  match a with
  | APath => [112; 97; 116; 104]
  | AInterface => [105; 110; 116; 101; 114; 102; 97; 99; 101]
  | AMember => [109; 101; 109; 98; 101; 114]
  | AErrorName => [101; 114; 114; 111; 114; 95; 110; 97; 109; 101]
  | AReplySerial => [114; 101; 112; 108; 121; 95; 115; 101; 114; 105; 97; 108]
  | ADestination => [100; 101; 115; 116; 105; 110; 97; 116; 105; 111; 110]
  | ASender => [115; 101; 110; 100; 101; 114]
  | ASignature => [115; 105; 103; 110; 97; 116; 117; 114; 101]
  | AUnixFds => [117; 110; 105; 120; 95; 102; 100; 115]
  end.

(* _headerAttrs of the four classes: attribute order in the header array *)
Definition hattrs (mtype : N) : list attr :=
  match mtype with
  | 1 => [APath; AInterface; AMember; ADestination; ASender; ASignature]
  | 2 => [AReplySerial; ADestination; ASender; ASignature]
  | 3 => [AErrorName; AReplySerial; ADestination; ASender; ASignature]
  | 4 => [APath; AInterface; AMember; ADestination; ASender; ASignature]
  | _ => []
  end.

(* a message object: attribute values as Python values (None = attribute unset) *)
Record msg := {
  m_type : N;
  m_expect_reply : bool;
  m_auto_start : bool;
  m_serial : Z;
  m_attrs : list (attr * pyval);      (* association list, later entries override *)
  m_body : option (list pyval);       (* None when no signature *)
}.

Definition attr_eqb (a b : attr) : bool := attr_code a =? attr_code b.

Fixpoint get_attr (a : attr) (l : list (attr * pyval)) : option pyval :=
  match l with
  | [] => None
  | (a', v) :: r => match get_attr a r with
                    | Some x => Some x            (* later entries win *)
                    | None => if attr_eqb a a' then Some v else None
                    end
  end.

(* the value stored in the header array for an attribute *)
Definition header_value (a : attr) (v : pyval) : pyval :=
  match a with
  | APath => PWrap 111 v                      (* marshal.ObjectPath(hval) *)
  | ASignature => PWrap 103 v                 (* marshal.Signature(hval) *)
  | AUnixFds => PWrap 117 v                   (* marshal.UInt32(hval) *)
  | _ => v
  end.

Definition sig_truthy (v : option pyval) : bool :=
  match v with None => false | Some x => truthy x end.

(* DBusMessage._marshal(newSerial=True, oobFDs), in three parts.
   [marshal_body]: "if self.signature: binBody = marshal(self.signature, self.body, oobFDs)". *)
Definition flags_of (expect_reply auto_start : bool) : Z :=
  ((if expect_reply then 0 else 1) + (if auto_start then 0 else 2))%Z.

Definition marshal_body (fuel : nat) (attrs : list (attr * pyval)) (body : pyval) (fds : fdst)
  : res (bytes * fdst) :=
  if sig_truthy (get_attr ASignature attrs) then
    match get_attr ASignature attrs with
    | Some sv =>
        match str_of sv with
        | Some sig =>
            do r <- m_marshal fuel sig body 0 true fds;
            let '(_, b, fds') := r in Ok (b, fds')
        | None => Err EType
        end
    | None => Ok ([], fds)
    end
  else Ok ([], fds).

(* self.headers: [code, value] for every attribute of the class table that is not None *)
Definition header_list (mtype : N) (attrs : list (attr * pyval)) (fds' : fdst) : list pyval :=
  (* "if oobFDs:" sits inside "if self.signature:" *)
  let with_fds := sig_truthy (get_attr ASignature attrs) &&
                  match fds' with Some (_ :: _) => true | _ => false end in
  let attrs' := if with_fds
                then attrs ++ [(AUnixFds, PInt (Z.of_nat (match fds' with Some l => length l | None => 0%nat end)))]
                else attrs in
  let order := if with_fds then hattrs mtype ++ [AUnixFds] else hattrs mtype in
  flat_map (fun a => match get_attr a attrs' with
                     | Some PNone | None => []
                     | Some v => [PList [PInt (Z.of_N (attr_code a)); header_value a v]]
                     end) order.

(* the header with serial [serial], the padding, the size limit *)
Definition marshal_header (fuel : nat) (mtype : N) (expect_reply auto_start : bool)
           (attrs : list (attr * pyval)) (bin_body : bytes) (serial : Z) (fds' : fdst)
  : res (bytes * bytes * bytes * fdst) :=       (* (rawHeader, rawPadding, rawBody, oobFDs) *)
  do hr <- m_marshal fuel header_format
             (PList [PInt 108; PInt (Z.of_N mtype); PInt (flags_of expect_reply auto_start); PInt 1;
                     PInt (Z.of_N (len bin_body)); PInt serial; PList (header_list mtype attrs fds')]) 0 true None;
  let '(_, bin_header, _) := hr in
  let hp := zeros (pad_len 8 (len bin_header)) in
  if max_msg_len <? len bin_header + len hp + len bin_body then Err EMarshal
  else Ok (bin_header, hp, bin_body, fds').

(* [serial] is DBusMessage._nextSerial *)
Definition marshal_msg (fuel : nat) (mtype : N) (expect_reply auto_start : bool)
           (attrs : list (attr * pyval)) (body : pyval) (serial : Z) (fds : fdst)
  : res (bytes * bytes * bytes * fdst) :=
  do bodyr <- marshal_body fuel attrs body fds;
  let '(bin_body, fds') := bodyr in
  marshal_header fuel mtype expect_reply auto_start attrs bin_body serial fds'.

(* the same with the process-wide counter DBusMessage._nextSerial as explicit
   state: the serial is taken, and the counter incremented, after the body has
   been marshalled and before the header is (so a failure in the header or the
   size check still consumes a serial, a failure in the body does not) *)
Definition marshal_msg_st (fuel : nat) (mtype : N) (expect_reply auto_start : bool)
           (attrs : list (attr * pyval)) (body : pyval) (next : Z) (fds : fdst)
  : res (bytes * bytes * bytes * fdst) * Z :=
  match marshal_body fuel attrs body fds with
  | Err e => (Err e, next)
  | Ok (bin_body, fds') =>
      (marshal_header fuel mtype expect_reply auto_start attrs bin_body next fds', (next + 1)%Z)
  end.

Definition opt_valid (f : str -> bool) (truthy_only : bool) (v : pyval) : res unit :=
  (* "if x: validate(x)" (truthy_only) or unconditional validation *)
  match v with
  | PNone => if truthy_only then Ok tt else Err EType
  | _ =>
      match str_of v with
      | Some s => if truthy_only && (match s with [] => true | _ => false end) then Ok tt
                  else if f s then Ok tt else Err EMarshal
      | None => if truthy_only && negb (truthy v) then Ok tt else Err EType
      end
  end.

Definition reserved_path : str :=
  [47; 111; 114; 103; 47; 102; 114; 101; 101; 100; 101; 115; 107; 116; 111; 112; 47; 68; 66; 117; 115; 47; 76; 111; 99; 97; 108].

Definition py_str_eqb (v : pyval) (s : str) : bool :=
  match str_of v with Some x => str_eqb x s | None => false end.

Definition geta (attrs : list (attr * pyval)) (a : attr) : pyval :=
  match get_attr a attrs with Some v => v | None => PNone end.

(* the validation the four constructors perform before _marshal.  [legacy]
   selects the pinned commit's "if interface:" / "if destination:" tests
   (defect D27); the current code validates whenever the value is not None. *)
Definition validate_args (legacy : bool) (mtype : N) (attrs : list (attr * pyval)) : res unit :=
  let opt' f a := if legacy then opt_valid f true (geta attrs a)
                  else match geta attrs a with PNone => Ok tt | v => opt_valid f false v end in
  match mtype with
  | 1 =>
      do _ <- opt_valid validate_member false (geta attrs AMember);
      do _ <- opt' validate_iface AInterface;
      do _ <- opt' validate_bus ADestination;
      if py_str_eqb (geta attrs APath) reserved_path then Err EMarshal else Ok tt
  | 2 => opt' validate_bus ADestination
  | 3 =>
      do _ <- opt' validate_bus ADestination;
      opt_valid validate_iface false (geta attrs AErrorName)
  | 4 =>
      do _ <- opt_valid validate_member false (geta attrs AMember);
      do _ <- opt_valid validate_iface false (geta attrs AInterface);
      opt' validate_bus ADestination
  | _ => Err EOther
  end.

(* the constructors: validation, then _marshal *)
Definition construct (legacy : bool) (fuel : nat) (mtype : N) (expect_reply auto_start : bool)
           (attrs : list (attr * pyval)) (body : pyval) (serial : Z) (fds : fdst)
  : res (bytes * bytes * bytes * fdst) :=
  do _ <- validate_args legacy mtype attrs;
  marshal_msg fuel mtype expect_reply auto_start attrs body serial fds.

(* with the serial counter: result and the counter afterwards *)
Definition construct_st (legacy : bool) (fuel : nat) (mtype : N) (expect_reply auto_start : bool)
           (attrs : list (attr * pyval)) (body : pyval) (next : Z) (fds : fdst)
  : res (bytes * bytes * bytes * fdst) * Z :=
  match validate_args legacy mtype attrs with
  | Err e => (Err e, next)
  | Ok _ => marshal_msg_st fuel mtype expect_reply auto_start attrs body next fds
  end.

(* a history of constructor calls in one process *)
Record creq := {
  q_fuel : nat; q_type : N; q_expect_reply : bool; q_auto_start : bool;
  q_attrs : list (attr * pyval); q_body : pyval; q_fds : fdst }.

Definition construct_req (legacy : bool) (next : Z) (q : creq) :=
  construct_st legacy (q_fuel q) (q_type q) (q_expect_reply q) (q_auto_start q)
               (q_attrs q) (q_body q) next (q_fds q).

(* the (serial used, result) of every call, and the final counter *)
Fixpoint run_constructs (legacy : bool) (next : Z) (qs : list creq)
  : list (Z * res (bytes * bytes * bytes * fdst)) * Z :=
  match qs with
  | [] => ([], next)
  | q :: r =>
      let '(o, next') := construct_req legacy next q in
      let '(os, final) := run_constructs legacy next' r in
      ((next, o) :: os, final)
  end.

(* ---------------------------------------------------------------------------
   parseMessage                                                                *)

Definition parsed := (N * Z * bool * bool * list (attr * pyval) * option (list pyval))%type.
  (* type, serial, expectReply, autoStart, attributes set (in header order), body *)

Definition int_of (v : pyval) : option Z :=
  match v with PInt z => Some z | PBool b => Some (if b then 1 else 0)%Z | _ => None end.

Fixpoint set_fields (l : list pyval) (acc : list (attr * pyval)) : res (list (attr * pyval)) :=
  match l with
  | [] => Ok acc
  | PList [c; v] :: r =>
      match int_of c with
      | Some code =>
          match attr_of_code code with
          | Some a => set_fields r (acc ++ [(a, v)])
          | None => set_fields r acc                  (* KeyError: pass *)
          end
      | None => set_fields r acc
      end
  | _ => Err EOther                                     (* unpacking a non-pair *)
  end.

Definition parse_message (legacy_flags : bool) (fuel : nat) (raw : bytes) (fds : fdst) : res parsed :=
  match raw with
  | [] => Err EIndex
  | b0 :: _ =>
      let le := b0 =? 108 in
      do r <- m_unmarshal fuel header_format raw 0 le fds;
      let '(nheader, hval) := r in
      match hval with
      | [_; PInt mt; PInt flags; _; _; PInt serial; PList fields] =>
          if negb ((1 <=? mt) && (mt <=? 4))%Z then Err EMarshal
          else
            let npad := pad_len 8 nheader in
            let raw_body := skipn (N.to_nat (N.min (nheader + npad) (len raw))) raw in
            do attrs <- set_fields fields [];
            let er := if legacy_flags then true else Z.even flags in
            let au := if legacy_flags then true else Z.even (flags / 2) in
            match get_attr ASignature attrs with
            | Some sv =>
                if truthy sv then
                  match sv with
                  | PStr sig =>
                      do rb <- m_unmarshal fuel sig raw_body 0 le fds;
                      let '(_, body) := rb in
                      Ok (Z.to_N mt, serial, er, au, attrs, Some body)
                  | _ => Err EType
                  end
                else Ok (Z.to_N mt, serial, er, au, attrs, None)
            | None => Ok (Z.to_N mt, serial, er, au, attrs, None)
            end
      | _ => Err EOther
      end
  end.

(* the pinned commit's behaviour (before the fix: commits), named: parseMessage
   ignoring the flags byte (defect D04) and constructors skipping the validation
   of an empty interface / destination (defect D27) *)
Definition parse_message_legacy := parse_message true.
Definition validate_args_legacy := validate_args true.
Definition construct_st_legacy := construct_st true.

(* the length the framing layer computes from the first 16 bytes *)
Definition frame_len (le : bool) (raw : bytes) : N :=
  let body_len := dec_uint le (slice raw 4 4) in
  let harr_len := dec_uint le (slice raw 12 4) in
  let hlen := 16 + harr_len in
  hlen + pad_len 8 hlen + body_len.
