(* Model of the MUTABLE DBusInterface object of txdbus/interface.py, with its
   cached XML text (self._xml):

     addMethod / addSignal / addProperty      replace or add a member, then self._xml = None
     delMethod / delSignal / delProperty      del d[name] (KeyError when absent), then self._xml = None
     _getXml (= the property introspectionXml)  if self._xml is None: generate and store; return self._xml

   Model/Introspect.v describes what the members are ([iface], add_method,
   add_signal, add_property) and what _getXml generates from them
   ([gen_iface], as element events); there the cache is left out.  Here the
   object is the pair (members, cache) and every operation is written as the
   code performs it:

   * an exception leaves the object as it was: addMethod / addSignal count the
     arguments (nargs == -1) before they touch the dictionary, del raises
     before the assignment to _xml, and _getXml assigns _xml only after the
     whole text has been produced;
   * the cache holds the element events of the text that was generated (the
     text layer is bridged by the harness, as for Introspect.v);
   * generateIntrospectionXML reads i.introspectionXml, i.e. goes through the
     cache: [export_doc] is the document for an object exporting this one
     interface at a path with no exported children.

   Not modelled: a caller that keeps a Method / Signal / Property object after
   adding it and assigns to its attributes later (the member classes have
   __slots__ but are not frozen); no code of the library does that outside
   the SAX handler, which finishes before the object is handed out. *)
From Tx Require Import Lib.Base.
From Tx Require Import Model.SigSplit.
From Tx Require Import Model.Introspect.
Local Open Scope N_scope.

(* a DBusInterface object: name and the three dictionaries, and self._xml *)
Record cobj := mkC { c_iface : iface; c_xml : option (list event) }.

(* DBusInterface(name [, noRegister=True]) *)
Definition c_new (name : str) : cobj := mkC (mkIface name [] [] []) None.

Inductive cop :=
| OAddMethod (m : member)        (* addMethod(m): m any object (duck typing) *)
| OAddSignal (m : member)
| OAddProperty (m : member)
| ODel (k : kind) (name : str)   (* delMethod / delSignal / delProperty (name) *)
| OGetXml.                       (* _getXml() / .introspectionXml *)

(* what a call returned or raised *)
Inductive cobs :=
| RNone                          (* returned None *)
| RXml (x : list event)          (* returned the XML *)
| RErr (e : err).                (* raised *)

Definition obs_of (r : res (list event)) : cobs :=
  match r with Ok x => RXml x | Err e => RErr e end.

(* addX(m): the dictionary update of Introspect.v, then self._xml = None *)
Definition c_add (add : iface -> member -> res (iface * member)) (st : cobj) (m : member) : cobj * cobs :=
  match add (c_iface st) m with
  | Ok r => (mkC (fst r) None, RNone)
  | Err e => (st, RErr e)
  end.

(* delX(name): del d[name]; self._xml = None *)
Definition c_del (k : kind) (st : cobj) (name : str) : cobj * cobs :=
  match alist_get str_eqb name (dict_of k (c_iface st)) with
  | None => (st, RErr EKey)
  | Some _ => (mkC (set_dict k (c_iface st) (alist_del str_eqb name (dict_of k (c_iface st)))) None, RNone)
  end.

(* _getXml() *)
Definition get_xml (st : cobj) : cobj * res (list event) :=
  match c_xml st with
  | Some x => (st, Ok x)
  | None =>
      match gen_iface (c_iface st) with
      | Ok x => (mkC (c_iface st) (Some x), Ok x)
      | Err e => (st, Err e)
      end
  end.

Definition cstep (st : cobj) (o : cop) : cobj * cobs :=
  match o with
  | OAddMethod m => c_add add_method st m
  | OAddSignal m => c_add add_signal st m
  | OAddProperty m => c_add add_property st m
  | ODel k n => c_del k st n
  | OGetXml => let r := get_xml st in (fst r, obs_of (snd r))
  end.

(* a history of calls on one object: the object afterwards and what each call
   returned or raised, in order (the caller goes on after an exception) *)
Fixpoint crun (st : cobj) (ops : list cop) : cobj * list cobs :=
  match ops with
  | [] => (st, [])
  | o :: r =>
      let s1 := cstep st o in
      let s2 := crun (fst s1) r in
      (fst s2, snd s1 :: snd s2)
  end.

(* addMethod(Method(n, a, r)) / addSignal(Signal(n, a)) / addProperty(Property(n, ...))
   with a freshly constructed member object *)
Definition cop_add (d : decl) : cop :=
  match d with
  | DMeth n a r => OAddMethod (MMeth (new_method n a r))
  | DSig n a => OAddSignal (MSig (new_signal n a))
  | DProp n s rd wr e => OAddProperty (MProp (new_property n s rd wr e))
  end.

(* generateIntrospectionXML(path, {path: obj}) for an obj whose getInterfaces()
   yields this one interface object: '<node name=path>' + i.introspectionXml +
   _intro + '</node>' *)
Definition export_doc (path : str) (st : cobj) : cobj * res (list event) :=
  let r := get_xml st in
  (fst r, do x <- snd r; Ok (EvStart t_node [(a_name, path)] :: (x ++ intro_events) ++ [EvEnd t_node])).
