(* Faithful model of the receiving side of txdbus/protocol.py:
   BasicDBusProtocol.dataReceived (line branch used during authentication,
   binary branch cutting the byte stream into DBus messages), the switch
   between the two, and the transport contract around it.  Definitions only.

   The CURRENT model describes the tree with the repairs
     fixes/D02-framing-loop-not-recursion.patch   (binary branch: loop)
     fixes/D03-handshake-tail-is-binary.patch     (bytes following the line that
                                                   completes authentication)
     fixes/D32-auth-line-limit-split-delimiter.patch (length limit vs. a read
                                                   ending inside "\r\n")
   The behaviour before them is [recv_legacy] below.

   What enters from outside
   - The authenticator (protocol.authenticator, an IDBusAuthenticator) is a
     PARAMETER: a state type [A] and a step function [astep] which, for one
     received line, returns the new state and what dataReceived can observe of
     handleAuthMessage/authenticationSucceeded: [AContinue] (returned, not yet
     authenticated), [ADone] (returned, authenticationSucceeded() is now
     true), [AFail] (raised DBusAuthenticationFailed), [ACrash] (raised
     anything else).  What the authenticator writes to the transport is a
     function of the lines it is given and is not part of this model.
   - MAX_AUTH_LENGTH is the parameter [maxl] (instantiated from the tree under
     test by the harness); MSG_HDR_LEN = 16 and authDelimiter = "\r\n" are
     literal here and tied to Gen/Generated.v in Proofs/FramingProofs.v.
   - rawDBusMessageReceived and connectionAuthenticated are passive observers
     (events [Msg], [AuthOk]); they neither raise nor close the transport.

   Events, in the order the code produces them
     Line l   handleAuthMessage(l) was called
     AuthOk   setAuthenticationSucceeded() ran (connectionAuthenticated)
     Msg raw  rawDBusMessageReceived(raw)
     Close    transport.loseConnection() on a transport that was not yet closing
              (a second loseConnection is a no-op in Twisted and is no event)
     Crash    an exception escaped dataReceived (Twisted then drops the
              connection: no further reads)
     Fuel     the model's loop ran out of fuel (never, see FramingProofs)

   For C20 (file descriptors): descriptors do not influence framing and framing
   does not touch _receivedFDs; rawDBusMessageReceived consumes the queue once
   per [Msg] event, in event order.  A descriptor queue is therefore added ON
   TOP of this model: state (st, queue), inputs Fd n | Read bytes, and a fold
   over the events returned by [recv] that pops [unix_fds raw] descriptors at
   every [Msg raw].  Nothing in this file needs to change for that. *)
From Tx Require Import Lib.Base Model.Marshal.
Local Open Scope N_scope.

Inductive ares := AContinue | ADone | AFail | ACrash.

Inductive event :=
| Line (l : bytes)
| AuthOk
| Msg (raw : bytes)
| Close
| Crash
| Fuel.

(* ------------------------------------------------------------------------ *)
(* bytes helpers                                                             *)

Definition CR : N := 13.
Definition LF : N := 10.
Definition crlf : bytes := [CR; LF].

Definition cons_head (x : N) (l : list bytes) : list bytes :=
  match l with
  | f :: fs => (x :: f) :: fs
  | [] => [[x]]                     (* unreachable: split never returns [] *)
  end.

(* s.split(b'\r\n'): non-overlapping occurrences from the left; >= 1 field *)
Fixpoint split_crlf (s : bytes) : list bytes :=
  match s with
  | [] => [[]]
  | x :: t =>
      match t with
      | y :: r => if (x =? CR) && (y =? LF) then [] :: split_crlf r
                  else cons_head x (split_crlf t)
      | [] => [[x]]
      end
  end.

(* b'\r\n'.join(l) *)
Fixpoint join_crlf (l : list bytes) : bytes :=
  match l with
  | [] => []
  | [x] => x
  | x :: l' => x ++ crlf ++ join_crlf l'
  end.

(* l[:n], l[n:] when len(l) >= n, else None.  (Python knows len(buffer) in O(1);
   this walks at most n elements instead of measuring the whole buffer.) *)
Fixpoint take_N (l : bytes) (n : N) : option (bytes * bytes) :=
  if n =? 0 then Some ([], l)
  else match l with
       | [] => None
       | x :: t => match take_N t (N.pred n) with
                   | Some (a, b) => Some (x :: a, b)
                   | None => None
                   end
       end.

(* len(l) >= n *)
Definition has_bytes (l : bytes) (n : N) : bool :=
  match take_N l n with Some _ => true | None => false end.

(* ------------------------------------------------------------------------ *)
(* the length of the message whose first 16 bytes are at the front of [buf]:
   byte order from byte 0 ('l' little, anything else big), body length from
   bytes 4..8, header-field array length from bytes 12..16, the header padded
   to a multiple of 8.  (Same computation as Message.frame_len; proved equal in
   Proofs/FramingProofs.v.) *)

Definition msg_hdr_len : N := 16.

Definition is_big (buf : bytes) : bool :=        (* self._buffer[:1] != b'l' *)
  match buf with
  | x :: _ => negb (x =? 108)
  | [] => true
  end.

Definition next_msg_len (buf : bytes) : N :=
  let le := negb (is_big buf) in
  let hdr := firstn 16 buf in        (* only bytes 0..15 are looked at *)
  let body_len := dec_uint le (slice hdr 4 4) in
  let harr_len := dec_uint le (slice hdr 12 4) in
  let hlen := msg_hdr_len + harr_len in
  let padlen := pad_len 8 hlen in
  msg_hdr_len + harr_len + padlen + body_len.

(* ------------------------------------------------------------------------ *)
Section Framing.
  Context {A : Type}.
  Variable astep : A -> bytes -> A * ares.
  Variable maxl : N.                      (* MAX_AUTH_LENGTH *)

  Record st := mkSt {
    s_client : bool;     (* _client *)
    s_first : bool;      (* _firstByte *)
    s_authed : bool;     (* _authenticated *)
    s_buf : bytes;       (* _buffer *)
    s_next : N;          (* _nextMsgLen; 0 = unknown *)
    s_big : bool;        (* _endian == '>' *)
    s_closed : bool;     (* transport.disconnecting, or the connection was dropped
                            because an exception escaped dataReceived *)
    s_auth : A           (* _dbusAuth *)
  }.

  (* state after connectionMade *)
  Definition init (client : bool) (a : A) : st :=
    mkSt client true false [] 0 false false a.

  Definition set_buf (s : st) (b : bytes) : st :=
    mkSt (s_client s) (s_first s) (s_authed s) b (s_next s) (s_big s) (s_closed s) (s_auth s).
  Definition set_bin (s : st) (b : bytes) (n : N) (big : bool) : st :=
    mkSt (s_client s) (s_first s) (s_authed s) b n big (s_closed s) (s_auth s).
  Definition set_auth (s : st) (a : A) : st :=
    mkSt (s_client s) (s_first s) (s_authed s) (s_buf s) (s_next s) (s_big s) (s_closed s) a.
  Definition set_first_done (s : st) : st :=
    mkSt (s_client s) false (s_authed s) (s_buf s) (s_next s) (s_big s) (s_closed s) (s_auth s).
  Definition set_authed (s : st) : st :=
    mkSt (s_client s) (s_first s) true (s_buf s) (s_next s) (s_big s) (s_closed s) (s_auth s).
  Definition set_closed (s : st) : st :=
    mkSt (s_client s) (s_first s) (s_authed s) (s_buf s) (s_next s) (s_big s) true (s_auth s).

  (* transport.loseConnection() *)
  Definition lose (s : st) : st * list event :=
    (set_closed s, if s_closed s then [] else [Close]).

  (* ---------------------------------------------------------------------- *)
  (* binary branch (after D02): while True: ... break when no complete message.
     Every iteration that does not break removes >= 16 bytes, so
     fuel = length buf + 1 is never exhausted. *)
  Fixpoint bin_loop (fuel : nat) (buf : bytes) (next : N) (big : bool)
    : (bytes * N * bool) * list event :=
    match fuel with
    | O => ((buf, next, big), [Fuel])
    | S f =>
        let '(next1, big1) :=
          if (next =? 0) && has_bytes buf 16         (* buffer_len >= 16 *)
          then (next_msg_len buf, is_big buf)
          else (next, big) in
        if next1 =? 0 then ((buf, next1, big1), [])  (* break *)
        else
          match take_N buf next1 with                (* buffer_len >= _nextMsgLen ? *)
          | None => ((buf, next1, big1), [])         (* break *)
          | Some (raw, rest) =>
              let '(r, evs) := bin_loop f rest 0 big1 in
              (r, Msg raw :: evs)
          end
    end.

  (* the binary branch on the buffer already extended by the new data *)
  Definition bin_process (s : st) : st * list event :=
    let '((b, n, big), evs) := bin_loop (S (length (s_buf s))) (s_buf s) (s_next s) (s_big s) in
    (set_bin s b n big, evs).

  (* ---------------------------------------------------------------------- *)
  (* line branch: for i, line in enumerate(lines) ... else: tail length check.
     [s_buf s] already holds lines.pop(-1). *)
  Fixpoint line_loop (s : st) (lines : list bytes) : st * list event :=
    match lines with
    | [] =>
        (* for ... else *)
        if maxl + 1 <? len (s_buf s) then lose s else (s, [])
    | line :: rest =>
        if s_closed s then (s, [])                       (* transport.disconnecting: return *)
        else if maxl <? len line then lose s              (* authMessageLengthExceeded *)
        else
          let '(a', r) := astep (s_auth s) line in
          let s1 := set_auth s a' in
          match r with
          | AContinue =>
              let '(s2, evs) := line_loop s1 rest in (s2, Line line :: evs)
          | ADone =>
              (* setAuthenticationSucceeded(); the unconsumed lines and the tail
                 are joined back into the buffer; dataReceived(b'') if non-empty
                 (with an empty buffer the call would do nothing); return *)
              let s2 := set_buf (set_authed s1) (join_crlf (rest ++ [s_buf s1])) in
              let '(s3, evs) := bin_process s2 in
              (s3, Line line :: AuthOk :: evs)
          | AFail =>
              (* except DBusAuthenticationFailed: loseConnection(); the loop goes on *)
              let '(s2, e2) := lose s1 in
              let '(s3, evs) := line_loop s2 rest in
              (s3, Line line :: e2 ++ evs)
          | ACrash =>
              (set_closed s1, [Line line; Crash])
          end
    end.

  Definition line_process (s : st) (data : bytes) : st * list event :=
    let ls := split_crlf (s_buf s ++ data) in
    line_loop (set_buf s (last ls [])) (removelast ls).

  (* dataReceived(data) *)
  Definition recv (s : st) (data : bytes) : st * list event :=
    if s_authed s then bin_process (set_buf s (s_buf s ++ data))
    else if negb (s_client s) && s_first s then
      match data with
      | [] => (set_closed s, [Crash])                    (* data[0]: IndexError *)
      | b0 :: data' =>
          if negb (b0 =? 0) then lose s                   (* and return *)
          else line_process (set_first_done s) data'
      end
    else line_process s data.

  (* ---------------------------------------------------------------------- *)
  (* The transport: reads are delivered in order until loseConnection was
     called or an exception escaped dataReceived; after that nothing is
     delivered (Twisted stops reading / drops the connection). *)
  Fixpoint run_st (s : st) (chunks : list bytes) : st * list event :=
    match chunks with
    | [] => (s, [])
    | c :: cs =>
        if s_closed s then (s, [])
        else
          let '(s1, e1) := recv s c in
          let '(s2, e2) := run_st s1 cs in
          (s2, e1 ++ e2)
    end.

  (* what is left: the bytes not yet framed, or None once the connection is
     closing / dropped *)
  Definition residual (s : st) : option bytes :=
    if s_closed s then None else Some (s_buf s).

  Definition run (client : bool) (a : A) (chunks : list bytes) : list event * option bytes :=
    let '(s, evs) := run_st (init client a) chunks in (evs, residual s).

  (* the same without the transport contract (every read is delivered, except
     after an escaped exception); used by the correspondence only *)
  Fixpoint run_raw (s : st) (chunks : list bytes) : st * list event :=
    match chunks with
    | [] => (s, [])
    | c :: cs =>
        let '(s1, e1) := recv s c in
        if existsb (fun e => match e with Crash => true | _ => false end) e1 then (s1, e1)
        else let '(s2, e2) := run_raw s1 cs in (s2, e1 ++ e2)
    end.

  (* ====================================================================== *)
  (* Behaviour before the repairs.
     D02: dataReceived calls itself once per complete message of a read;
          [depth] is the number of nested calls the interpreter still allows:
          when it is used up RecursionError escapes (the message being
          delivered at that moment may or may not have reached its callback -
          here it has not) and the rest of the read stays in the buffer.
     D03: on authentication success only the tail after the LAST delimiter is
          treated as binary; the for loop then continues with the remaining
          lines and calls None.handleAuthMessage (AttributeError escapes);
          if there are none, the tail length check closes a connection whose
          binary remainder is longer than MAX_AUTH_LENGTH.
     D32: the tail check is  len(buffer) > MAX_AUTH_LENGTH. *)

  Fixpoint bin_legacy (depth : nat) (buf : bytes) (next : N) (big : bool)
    : (bytes * N * bool) * list event :=
    match depth with
    | O => ((buf, next, big), [Crash])
    | S d =>
        let '(next1, big1) :=
          if (next =? 0) && has_bytes buf 16
          then (next_msg_len buf, is_big buf)
          else (next, big) in
        if next1 =? 0 then ((buf, next1, big1), [])
        else
          match take_N buf next1 with
          | None => ((buf, next1, big1), [])
          | Some (raw, []) => (([], 0, big1), [Msg raw])
          | Some (raw, rest) =>
              (* if self._buffer: self.dataReceived(b'') *)
              let '(r, evs) := bin_legacy d rest 0 big1 in
              (r, Msg raw :: evs)
          end
    end.

  Definition has_crash (evs : list event) : bool :=
    existsb (fun e => match e with Crash => true | _ => false end) evs.

  Definition bin_process_legacy (depth : nat) (s : st) : st * list event :=
    let '((b, n, big), evs) := bin_legacy depth (s_buf s) (s_next s) (s_big s) in
    let s' := set_bin s b n big in
    (if has_crash evs then set_closed s' else s', evs).

  Definition lose_if (c : bool) (s : st) : st * list event :=
    if c then lose s else (s, []).

  Fixpoint line_loop_legacy (depth : nat) (s : st) (lines : list bytes) : st * list event :=
    match lines with
    | [] => lose_if (maxl <? len (s_buf s)) s
    | line :: rest =>
        if s_closed s then (s, [])
        else if maxl <? len line then lose s
        else
          let '(a', r) := astep (s_auth s) line in
          let s1 := set_auth s a' in
          match r with
          | AContinue =>
              let '(s2, evs) := line_loop_legacy depth s1 rest in (s2, Line line :: evs)
          | ADone =>
              let s2 := set_authed s1 in
              let '(s3, evs) :=
                match s_buf s2 with
                | [] => (s2, [])
                | _ :: _ => bin_process_legacy depth s2
                end in
              if has_crash evs then (s3, Line line :: AuthOk :: evs)
              else
                match rest with
                | [] =>
                    let '(s4, e4) := lose_if (maxl <? len (s_buf s3)) s3 in
                    (s4, Line line :: AuthOk :: evs ++ e4)
                | l2 :: _ =>
                    if s_closed s3 then (s3, Line line :: AuthOk :: evs)
                    else if maxl <? len l2 then
                      let '(s4, e4) := lose s3 in (s4, Line line :: AuthOk :: evs ++ e4)
                    else (set_closed s3, Line line :: AuthOk :: evs ++ [Crash])
                end
          | AFail =>
              let '(s2, e2) := lose s1 in
              let '(s3, evs) := line_loop_legacy depth s2 rest in
              (s3, Line line :: e2 ++ evs)
          | ACrash =>
              (set_closed s1, [Line line; Crash])
          end
    end.

  Definition line_process_legacy (depth : nat) (s : st) (data : bytes) : st * list event :=
    let ls := split_crlf (s_buf s ++ data) in
    line_loop_legacy depth (set_buf s (last ls [])) (removelast ls).

  Definition recv_legacy (depth : nat) (s : st) (data : bytes) : st * list event :=
    if s_authed s then bin_process_legacy depth (set_buf s (s_buf s ++ data))
    else if negb (s_client s) && s_first s then
      match data with
      | [] => (set_closed s, [Crash])
      | b0 :: data' =>
          if negb (b0 =? 0) then lose s
          else line_process_legacy depth (set_first_done s) data'
      end
    else line_process_legacy depth s data.

  Fixpoint run_st_legacy (depth : nat) (s : st) (chunks : list bytes) : st * list event :=
    match chunks with
    | [] => (s, [])
    | c :: cs =>
        if s_closed s then (s, [])
        else
          let '(s1, e1) := recv_legacy depth s c in
          let '(s2, e2) := run_st_legacy depth s1 cs in
          (s2, e1 ++ e2)
    end.

  Definition run_legacy (depth : nat) (client : bool) (a : A) (chunks : list bytes)
    : list event * option bytes :=
    let '(s, evs) := run_st_legacy depth (init client a) chunks in (evs, residual s).

End Framing.

Arguments mkSt {A}.
Arguments st : clear implicits.

(* ------------------------------------------------------------------------ *)
(* Two simple scripted authenticators (used by the harness and by the
   examples; the theorems quantify over every [astep]). *)

(* by content: the first rule whose line equals the received line decides;
   no rule: AContinue.  Stateless. *)
Fixpoint rule_lookup (rules : list (bytes * ares)) (line : bytes) : ares :=
  match rules with
  | [] => AContinue
  | (l, r) :: rs => if str_eqb l line then r else rule_lookup rs line
  end.

Definition astep_rules (rules : list (bytes * ares)) (a : unit) (line : bytes) : unit * ares :=
  (tt, rule_lookup rules line).

(* by position: the k-th line received gets the k-th result of the script;
   AContinue when the script is used up.  State = remaining script. *)
Definition astep_script (a : list ares) (line : bytes) : list ares * ares :=
  match a with
  | [] => ([], AContinue)
  | r :: rest => (rest, r)
  end.
