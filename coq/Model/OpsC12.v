(* Harness entry points for C12.

   Encodings
     ostr   = () | (str)
     arg    = (0 str) | (1 tag)
     msg    = (type path iface member dest sender sig body)     path..sig : ostr; body = () | ((arg ...))
     pairs  = ((idx str) ...)
     rule   = (type sender iface member path ns dest args arg_paths arg0ns)   strings : ostr; args, arg_paths : pairs
     action = (0 id) | (1 rule tag raises)
     cbk    = (tag raises (action ...))
     event  = (0 rule cbk) | (1 id) | (2 msg)
     res    = (1 x) | (0 errcode)

   (12 0 (event ...))      -> one (model legacy spec) per event
                               obs  = (0 res-id) | (1 res-()) | (2 ((id tag) ...) res-())
                               spec = () unless the event is a route and the history so far is passive:
                                      (((id tag) ...))  from Spec.MatchSpec.expected
   (12 1 rule)             -> (text parse accepted)   text = rule_string rule; parse = res-rule of parse_rule text;
                                                      accepted = the reference daemon takes the text (DaemonSpec)
   (12 5 (event ...))      -> client history against the reference daemon (callbacks must be passive), one
                               (obs spec) per event:
                               obs  = (0 (wire ...) res-id) | (1 (wire ...) res-()) | (2 forwarded ((id tag) ...))
                               wire = (0 text) AddMatch | (1 text) RemoveMatch
                               spec = () | (((id tag) ...))  for a signal: MatchSpec.expected of the history so far
   (12 2 text)             -> res-rule           parse_rule text
   (12 3 declared msg)     -> (model spec)       each () = not called | ((arg ...)) = called with these arguments
   (12 4 rule msg)         -> (model legacy spec registrable)   booleans                                   *)
From Tx Require Import Lib.Base Lib.Sexp Model.Router Spec.MatchSpec Spec.DaemonSpec Model.ClientMatch Model.AsyncMatch.
Local Open Scope Z_scope.

Definition dec_ostr : sexp -> option (option str) := as_opt as_str.

Definition dec_arg (s : sexp) : option arg :=
  match s with
  | SList [SNum 0; x] => option_map AStr (as_str x)
  | SList [SNum 1; SNum t] => Some (AOther (Z.to_N t))
  | _ => None
  end.

Definition dec_body (s : sexp) : option (option (list arg)) :=
  match s with
  | SList [] => Some None
  | SList [SList l] => option_map Some (map_opt dec_arg l)
  | _ => None
  end.

Definition dec_msg (s : sexp) : option msg :=
  match s with
  | SList [SNum t; p; i; mb; d; sd; sg; b] =>
      match dec_ostr p, dec_ostr i, dec_ostr mb, dec_ostr d, dec_ostr sd, dec_ostr sg, dec_body b with
      | Some p', Some i', Some mb', Some d', Some sd', Some sg', Some b' =>
          Some (mkMsg (Z.to_N t) p' i' mb' d' sd' sg' b')
      | _, _, _, _, _, _, _ => None
      end
  | _ => None
  end.

Definition dec_pair (s : sexp) : option (nat * str) :=
  match s with
  | SList [SNum i; v] => option_map (fun v' => (Z.to_nat i, v')) (as_str v)
  | _ => None
  end.

Definition dec_pairs (s : sexp) : option (list (nat * str)) :=
  match as_list s with Some l => map_opt dec_pair l | None => None end.

Definition dec_rule (s : sexp) : option rule :=
  match s with
  | SList [t; sd; i; mb; p; ns; d; a; ap; a0] =>
      match dec_ostr t, dec_ostr sd, dec_ostr i, dec_ostr mb, dec_ostr p, dec_ostr ns, dec_ostr d with
      | Some t', Some sd', Some i', Some mb', Some p', Some ns', Some d' =>
          match dec_pairs a, dec_pairs ap, dec_ostr a0 with
          | Some a', Some ap', Some a0' => Some (mkRule t' sd' i' mb' p' ns' d' a' ap' a0')
          | _, _, _ => None
          end
      | _, _, _, _, _, _, _ => None
      end
  | _ => None
  end.

Definition dec_action (s : sexp) : option action :=
  match s with
  | SList [SNum 0; SNum i] => Some (ADel (Z.to_nat i))
  | SList [SNum 1; r; SNum t; b] =>
      match dec_rule r, as_bool b with
      | Some r', Some b' => Some (AAdd r' (Z.to_N t) b')
      | _, _ => None
      end
  | _ => None
  end.

Definition dec_cbk (s : sexp) : option cbk :=
  match s with
  | SList [SNum t; b; SList acts] =>
      match as_bool b, map_opt dec_action acts with
      | Some b', Some acts' => Some (mkCb (Z.to_N t) b' acts')
      | _, _ => None
      end
  | _ => None
  end.

Definition dec_event (s : sexp) : option event :=
  match s with
  | SList [SNum 0; r; k] =>
      match dec_rule r, dec_cbk k with
      | Some r', Some k' => Some (EAdd r' k')
      | _, _ => None
      end
  | SList [SNum 1; SNum i] => Some (EDel (Z.to_nat i))
  | SList [SNum 2; m] => option_map ERoute (dec_msg m)
  | _ => None
  end.

(* ---- encoders ------------------------------------------------------------- *)

Definition enc_unit (_ : unit) : sexp := SList [].

Definition enc_called (l : list (nat * N)) : sexp :=
  SList (map (fun it => SList [snat (fst it); sN (snd it)]) l).

Definition enc_obs (o : obs) : sexp :=
  match o with
  | OAdded r => SList [SNum 0; sres snat r]
  | ODeleted r => SList [SNum 1; sres enc_unit r]
  | ORouted l e => SList [SNum 2; enc_called l; sres enc_unit e]
  end.

Definition enc_arg (a : arg) : sexp :=
  match a with
  | AStr s => SList [SNum 0; sstr s]
  | AOther t => SList [SNum 1; sN t]
  end.

Definition enc_pairs (l : list (nat * str)) : sexp :=
  SList (map (fun iv => SList [snat (fst iv); sstr (snd iv)]) l).

Definition enc_rule (r : rule) : sexp :=
  SList [ sopt sstr (r_type r); sopt sstr (r_sender r); sopt sstr (r_interface r);
          sopt sstr (r_member r); sopt sstr (r_path r); sopt sstr (r_path_namespace r);
          sopt sstr (r_destination r); enc_pairs (r_args r); enc_pairs (r_arg_paths r);
          sopt sstr (r_arg0namespace r) ].

Definition enc_delivery (d : option (list arg)) : sexp :=
  sopt (fun l => SList (map enc_arg l)) d.

(* ---- histories ------------------------------------------------------------ *)

Definition is_passive_event (e : event) : bool :=
  match e with
  | EAdd _ k => match cb_acts k with [] => true | _ => false end
  | _ => true
  end.

(* done: the events before e, in order *)
Fixpoint go (done : list event) (pass : bool) (st stl : router) (h : list event) : list sexp :=
  match h with
  | [] => []
  | e :: h' =>
      let '(st', o) := step st e in
      let '(stl', ol) := step_legacy stl e in
      let pass' := pass && is_passive_event e in
      let sp := match e with
                | ERoute m => if pass then SList [enc_called (expected done m)] else SList []
                | _ => SList []
                end in
      SList [enc_obs o; enc_obs ol; sp] :: go (done ++ [e]) pass' st' stl' h'
  end.

(* ---- client histories against the reference daemon ----------------------------- *)

Definition cevent_of (e : event) : cevent :=
  match e with EAdd r k => CAdd r k | EDel i => CDel i | ERoute m => CSignal m end.

Definition enc_wire (w : wire) : sexp :=
  match w with WAdd t => SList [SNum 0; sstr t] | WRemove t => SList [SNum 1; sstr t] end.

Definition enc_cobs (o : cobs) : sexp :=
  match o with
  | OCAdded w r => SList [SNum 0; SList (map enc_wire w); sres snat r]
  | OCDeleted w r => SList [SNum 1; SList (map enc_wire w); sres enc_unit r]
  | OCSignal f l => SList [SNum 2; sbool f; enc_called l]
  end.

Fixpoint cgo (done : list event) (s : client * daemon) (h : list event) : list sexp :=
  match h with
  | [] => []
  | e :: h' =>
      let '(s', o) := cstep s (cevent_of e) in
      let sp := match e with ERoute m => SList [enc_called (expected done m)] | _ => SList [] end in
      SList [enc_cobs o; sp] :: cgo (done ++ [e]) s' h'
  end.

(* ---- client / proxy histories with delayed answers ----------------------------------
   (12 6 declared prule (aevent ...))   aevent = (0 rule cbk) conn.addMatch | (1 id) conn.delMatch | (2 msg) signal
                                               | (3 cbk) ro.notifyOnSignal | (4 id) ro.cancelSignalNotification
                                               | (5) the oldest pending call is answered
   -> one obs per event: (0 (wire ...) res-()) | (1 0 res-id) | (1 1 res-()) | (1 2) | (2 forwarded ((id tag) ...)) *)
Definition dec_aevent (s : sexp) : option aevent :=
  match s with
  | SList [SNum 0; r; k] =>
      match dec_rule r, dec_cbk k with Some r', Some k' => Some (XAdd r' k') | _, _ => None end
  | SList [SNum 1; SNum i] => Some (XDel (Z.to_nat i))
  | SList [SNum 2; m] => option_map XSignal (dec_msg m)
  | SList [SNum 3; k] => option_map XNotify (dec_cbk k)
  | SList [SNum 4; SNum i] => Some (XCancel (Z.to_nat i))
  | SList [SNum 5] => Some XAnswer
  | _ => None
  end.

Definition enc_aobs (o : aobs) : sexp :=
  match o with
  | OWrote w e => SList [SNum 0; SList (map enc_wire w); sres enc_unit e]
  | OAnsAdd r => SList [SNum 1; SNum 0; sres snat r]
  | OAnsDel r => SList [SNum 1; SNum 1; sres enc_unit r]
  | OAnsNone => SList [SNum 1; SNum 2]
  | OASignal f l => SList [SNum 2; sbool f; enc_called l]
  end.

Definition op (args : list sexp) : sexp :=
  match args with
  | [SNum 0; SList es] =>
      match map_opt dec_event es with
      | Some h => SList (go [] true init init h)
      | None => bad
      end
  | [SNum 6; d; pr; SList es] =>
      match dec_ostr d, dec_rule pr, map_opt dec_aevent es with
      | Some d', Some pr', Some h => SList (map enc_aobs (atrace pr' d' h))
      | _, _, _ => bad
      end
  | [SNum 5; SList es] =>
      match map_opt dec_event es with
      | Some h => if forallb is_passive_event h then SList (cgo [] (cinit, []) h) else bad
      | None => bad
      end
  | [SNum 1; r] =>
      match dec_rule r with
      | Some r' => let t := rule_string r' in
                   SList [sstr t; sres enc_rule (parse_rule t);
                          sbool (match rule_of_text t with Some _ => true | None => false end)]
      | None => bad
      end
  | [SNum 2; t] =>
      match as_str t with
      | Some t' => sres enc_rule (parse_rule t')
      | None => bad
      end
  | [SNum 3; d; m] =>
      match dec_ostr d, dec_msg m with
      | Some d', Some m' => SList [enc_delivery (proxy_deliver d' m'); enc_delivery (gate d' m')]
      | _, _ => bad
      end
  | [SNum 4; r; m] =>
      match dec_rule r, dec_msg m with
      | Some r', Some m' =>
          SList [sbool (Router.matches r' m'); sbool (matches_legacy r' m');
                 sbool (MatchSpec.matches r' m'); sbool (registrable r')]
      | _, _ => bad
      end
  | _ => bad
  end.
