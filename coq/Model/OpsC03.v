(* Harness entry points for Model/Message.v.
   (3 1 legacy mtype er au ((code val)...) body serial fds) -> (1 "hdr" "pad" "body" fds) | (0 err)
   (3 2 legacy_flags "raw" fds) -> (1 mtype serial er au ((code val)...) (body?)) | (0 err)
   (3 3 le "raw") -> frame length *)
From Tx Require Import Lib.Base Lib.Sexp Model.PyVal Model.Marshal Model.Message Model.OpsC01.
Local Open Scope Z_scope.

Definition attr_pair_of_sexp (s : sexp) : option (attr * pyval) :=
  match s with
  | SList [SNum c; v] =>
      match attr_of_code c, pv_of_sexp v with
      | Some a, Some v' => Some (a, v')
      | _, _ => None
      end
  | _ => None
  end.

Definition attr_pair_to_sexp (p : attr * pyval) : sexp :=
  SList [sN (attr_code (fst p)); pv_to_sexp (snd p)].

Definition op (args : list sexp) : sexp :=
  match args with
  | [SNum 1; legacy; SNum mt; er; au; SList attrs; body; SNum serial; fds] =>
      match as_bool legacy, as_bool er, as_bool au, map_opt attr_pair_of_sexp attrs, pv_of_sexp body, fds_of_sexp fds with
      | Some lg, Some er', Some au', Some attrs', Some body', Some f =>
          let fuel := (marshal_fuel header_format body' + 40)%nat in
          match construct lg fuel (Z.to_N mt) er' au' attrs' body' serial f with
          | Ok (h, p, b, f') => SList [SNum 1; SBytes h; SBytes p; SBytes b; fds_to_sexp f']
          | Err e => SList [SNum 0; SNum (err_code e)]
          end
      | _, _, _, _, _, _ => bad
      end
  | [SNum 2; legacy; SBytes raw; fds] =>
      match as_bool legacy, fds_of_sexp fds with
      | Some lg, Some f =>
          match parse_message lg (fuel_for header_format (2 * length raw + 260)) raw f with
          | Ok (mt, serial, er, au, attrs, body) =>
              SList [SNum 1; sN mt; SNum serial; sbool er; sbool au;
                     SList (map attr_pair_to_sexp attrs);
                     sopt (fun l => SList (map pv_to_sexp l)) body]
          | Err e => SList [SNum 0; SNum (err_code e)]
          end
      | _, _ => bad
      end
  | [SNum 3; le; SBytes raw] =>
      match as_bool le with
      | Some le' => sN (frame_len le' raw)
      | None => bad
      end
  | _ => bad
  end.
