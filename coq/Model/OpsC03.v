(* Harness entry points for Model/Message.v.
   (3 1 legacy mtype er au ((code val)...) body next fds) -> (1 "hdr" "pad" "body" fds next') | (0 err next')
       next = DBusMessage._nextSerial before the call, next' after it
   (3 2 legacy_flags "raw" fds) -> (1 mtype serial er au ((code val)...) (body?)) | (0 err)
   (3 3 le "raw") -> frame length
   specification side (Spec/MsgSpec.v), the oracle:
   (3 4 le type flags serial ((code ty wval)...) (tys) (wvals) (fds))
       -> ("header" "padding" "body" type serial expect_reply auto_start ((code val)...) (body?))
      the encoding msg_enc of the wire message and what a receiver must recover from it
   the current message.py (Model/MessageCur.v):
   (3 5 "raw" fds) -> (1 mtype serial er au ((code val)...) (body?) other_flags "rawBody") | (0 err)
   (3 6 mtype endian other_flags er au ((code val)...) body new_serial self_serial next fds rawbody)
       -> (1 "hdr" "pad" "body" fds next') | (0 err next')        rawbody: () or ("bytes")
   (3 7 "raw" fds "sender") -> parseMessage; sender := ...; endian := raw[0]; _marshal(False, rawBody=m.rawBody)
       -> (1 "hdr" "pad" "body") | (0 stage err)                    stage 1: parse failed, 2: _marshal failed
   (3 8 mtype er au ((code val)...) body next fds) -> like (3 1 ...) through construct_cur_st *)
From Tx Require Import Lib.Base Lib.Sexp Model.PyVal Model.Marshal Model.Message Model.MessageCur Model.OpsC01 Model.OpsSpec
  Spec.WireSpec Spec.Readback Spec.MsgSpec.
Local Open Scope Z_scope.

Definition attr_pair_of_sexp (s : sexp) : option (attr * pyval) :=
  match s with
  | SList [SNum c; v] =>
      match attr_of_code c, pv_of_sexp v with
      | Some a, Some v' => Some (a, v')
      | _, _ => None
      end
  | _ => None
  end.

Definition attr_pair_to_sexp (p : attr * pyval) : sexp :=
  SList [sN (attr_code (fst p)); pv_to_sexp (snd p)].

Definition op (args : list sexp) : sexp :=
  match args with
  | [SNum 1; legacy; SNum mt; er; au; SList attrs; body; SNum serial; fds] =>
      match as_bool legacy, as_bool er, as_bool au, map_opt attr_pair_of_sexp attrs, pv_of_sexp body, fds_of_sexp fds with
      | Some lg, Some er', Some au', Some attrs', Some body', Some f =>
          let fuel := (marshal_fuel header_format body' + 40)%nat in
          match construct_st lg fuel (Z.to_N mt) er' au' attrs' body' serial f with
          | (Ok (h, p, b, f'), next) => SList [SNum 1; SBytes h; SBytes p; SBytes b; fds_to_sexp f'; SNum next]
          | (Err e, next) => SList [SNum 0; SNum (err_code e); SNum next]
          end
      | _, _, _, _, _, _ => bad
      end
  | [SNum 2; legacy; SBytes raw; fds] =>
      match as_bool legacy, fds_of_sexp fds with
      | Some lg, Some f =>
          match parse_message lg (fuel_for header_format (2 * length raw + 260)) raw f with
          | Ok (mt, serial, er, au, attrs, body) =>
              SList [SNum 1; sN mt; SNum serial; sbool er; sbool au;
                     SList (map attr_pair_to_sexp attrs);
                     sopt (fun l => SList (map pv_to_sexp l)) body]
          | Err e => SList [SNum 0; SNum (err_code e)]
          end
      | _, _ => bad
      end
  | [SNum 4; le; SNum mt; SNum flags; SNum serial; SList fields; SList ts; SList ws; SList fds] =>
      let field_of (f : sexp) :=
        match f with
        | SList [SNum c; t; w] =>
            match ty_of_sexp t, wv_of_sexp w with
            | Some t', Some w' => Some (c, t', w')
            | _, _ => None
            end
        | _ => None
        end in
      match as_bool le, map_opt field_of fields, map_opt ty_of_sexp ts, map_opt wv_of_sexp ws, map_opt pv_of_sexp fds with
      | Some le', Some fields', Some ts', Some ws', Some fds' =>
          let m := {| s_le := le'; s_type := mt; s_flags := flags; s_serial := serial;
                      s_fields := fields'; s_body_ts := ts'; s_body := ws' |} in
          SList [SBytes (msg_header m); SBytes (padding 8 (length (msg_header m))); SBytes (msg_body m);
                 SNum mt; SNum serial; sbool (expect_reply_of m); sbool (auto_start_of m);
                 SList (map (fun cv => SList [SNum (fst cv); pv_to_sexp (snd cv)]) (recovered_fields fds' m));
                 sopt (fun l => SList (map pv_to_sexp l)) (recovered_body fds' m)]
      | _, _, _, _, _ => bad
      end
  | [SNum 5; SBytes raw; fds] =>
      match fds_of_sexp fds with
      | Some f =>
          match parse_message_cur (fuel_for header_format (2 * length raw + 260)) raw f with
          | Ok ((mt, serial, er, au, attrs, body), other, rb) =>
              SList [SNum 1; sN mt; SNum serial; sbool er; sbool au;
                     SList (map attr_pair_to_sexp attrs);
                     sopt (fun l => SList (map pv_to_sexp l)) body; SNum other; SBytes rb]
          | Err e => SList [SNum 0; SNum (err_code e)]
          end
      | None => bad
      end
  | [SNum 6; SNum mt; SNum endian; SNum other; er; au; SList attrs; body; ns; SNum self_serial; SNum next; fds; rawbody] =>
      let rb := match rawbody with
                | SList [] => Some None
                | SList [SBytes b] => Some (Some b)
                | _ => None
                end in
      match as_bool er, as_bool au, map_opt attr_pair_of_sexp attrs, pv_of_sexp body, as_bool ns, fds_of_sexp fds, rb with
      | Some er', Some au', Some attrs', Some body', Some ns', Some f, Some rb' =>
          let fuel := (marshal_fuel header_format body' + 40)%nat in
          match marshal_msg_cur_st fuel (Z.to_N mt) endian other er' au' attrs' body' ns' self_serial next f rb' with
          | (Ok (h, p, b, f'), next') => SList [SNum 1; SBytes h; SBytes p; SBytes b; fds_to_sexp f'; SNum next']
          | (Err e, next') => SList [SNum 0; SNum (err_code e); SNum next']
          end
      | _, _, _, _, _, _, _ => bad
      end
  | [SNum 7; SBytes raw; fds; SBytes sender] =>
      match fds_of_sexp fds with
      | Some f =>
          match parse_message_cur (fuel_for header_format (2 * length raw + 260)) raw f with
          | Ok m =>
              match remarshal_cur (fuel_for header_format (2 * length raw + 260)) raw sender m with
              | Ok (h, p, b, _) => SList [SNum 1; SBytes h; SBytes p; SBytes b]
              | Err e => SList [SNum 0; SNum 2; SNum (err_code e)]
              end
          | Err e => SList [SNum 0; SNum 1; SNum (err_code e)]
          end
      | None => bad
      end
  | [SNum 8; SNum mt; er; au; SList attrs; body; SNum serial; fds] =>
      match as_bool er, as_bool au, map_opt attr_pair_of_sexp attrs, pv_of_sexp body, fds_of_sexp fds with
      | Some er', Some au', Some attrs', Some body', Some f =>
          let fuel := (marshal_fuel header_format body' + 40)%nat in
          match construct_cur_st fuel (Z.to_N mt) er' au' attrs' body' serial f with
          | (Ok (h, p, b, f'), next) => SList [SNum 1; SBytes h; SBytes p; SBytes b; fds_to_sexp f'; SNum next]
          | (Err e, next) => SList [SNum 0; SNum (err_code e); SNum next]
          end
      | _, _, _, _, _ => bad
      end
  | [SNum 3; le; SBytes raw] =>
      match as_bool le with
      | Some le' => sN (frame_len le' raw)
      | None => bad
      end
  | _ => bad
  end.
