(* Faithful model of the name table of txdbus's built-in bus (txdbus/bus.py):
   Bus.clientConnected / clientDisconnected, dbus_RequestName, dbus_ReleaseName,
   dbus_GetNameOwner, dbus_ListQueuedOwners, with the two pieces of state the
   code keeps:

     Bus.busNames          name -> list of connections, head is the owner   (b_names)
     BusProtocol.busNames  per connection: name -> allows replacement       (b_flags)
     Bus.clients           unique name -> connection                        (b_clients)
     Bus.next_id                                                            (b_next)

   A connection is identified by the number k it was given by clientConnected;
   its unique name is ":1.k".  The per-connection dictionaries are kept as ONE
   insertion-ordered association list keyed by (connection, name): filtering it
   by connection gives that connection's dictionary in its own insertion order
   (alist_set keeps the position of an existing key, alist_del + alist_set
   re-appends, exactly like a Python dict).  Entries of connections that have
   gone are kept, as the objects are in Python while something refers to them
   (the pre-repair code reads them: a dead owner's flag).

   Outputs: the reply sent to the caller (method return with a code / a value,
   or an error reply identified by its DBus error name) and the signals emitted
   (NameAcquired / NameLost unicast to a connection; NameOwnerChanged handed to
   the router for broadcast).  Python exceptions escaping a dbus_ method are
   turned into an error reply by objects.py; they are RError PyException here.

   [request] / [release] / [step] describe the tree WITH the repairs D21+D28+D31
   and D22+D23; the pre-repair functions are kept as [..._legacy].
   Definitions only.  Property C14 (message delivery) builds on this file. *)
From Tx Require Import Lib.Base Lib.Sexp Model.Validators.
Local Open Scope N_scope.

Definition client := N.
Definition name := str.

(* ':1.%d' % k *)
Definition unique_name (c : client) : str := [58; 49; 46] ++ n_chars c.

(* ---- vocabulary: operations and observations ------------------------------ *)

Inductive op :=
| Connect                                    (* a new connection sends its first message (Hello) *)
| Request (c : client) (n : name) (flags : N)  (* org.freedesktop.DBus.RequestName(n, flags) from c *)
| Release (c : client) (n : name)
| GetOwner (c : client) (n : name)
| ListQueued (c : client) (n : name)
| Disconnect (c : client).                   (* connectionLost on c's transport *)

Inductive errname :=
| InvalidArgs          (* org.freedesktop.DBus.Error.InvalidArgs *)
| NameHasNoOwner       (* org.freedesktop.DBus.Error.NameHasNoOwner *)
| PyException.         (* org.txdbus.PythonException.* : KeyError / IndexError / AttributeError *)

Inductive reply :=
| RNone                         (* nothing is sent back (disconnect; a caller that is not a live connection) *)
| RHello (u : str)
| RCode (k : N)
| RError (e : errname)
| ROwner (u : str)
| RQueue (l : list str).

Inductive signal :=
| NameAcquired (to : client) (n : name)
| NameLost (to : client) (n : name)
| NameOwnerChanged (n : name) (old new : str).

Record out := mkOut { o_reply : reply; o_signals : list signal }.

(* client.NAME_* *)
Definition NAME_ACQUIRED : N := 1.
Definition NAME_IN_QUEUE : N := 2.
Definition NAME_IN_USE : N := 3.
Definition NAME_ALREADY_OWNER : N := 4.
Definition NAME_RELEASED : N := 1.
Definition NAME_NON_EXISTENT : N := 2.
Definition NAME_NOT_OWNER : N := 3.

(* ---- state ------------------------------------------------------------------ *)

Record bus := mkBus {
  b_next : N;
  b_clients : list client;
  b_names : list (name * list client);
  b_flags : list ((client * name) * bool)
}.

Definition init : bus := mkBus 1 [] [] [].

Definition key_eqb (a b : client * name) : bool := N.eqb (fst a) (fst b) && str_eqb (snd a) (snd b).
Definition fget (fl : list ((client * name) * bool)) (c : client) (n : name) := alist_get key_eqb (c, n) fl.
Definition fset (fl : list ((client * name) * bool)) (c : client) (n : name) (a : bool) := alist_set key_eqb (c, n) a fl.
Definition fdel (fl : list ((client * name) * bool)) (c : client) (n : name) := alist_del key_eqb (c, n) fl.
Definition nget (ns : list (name * list client)) (n : name) := alist_get str_eqb n ns.
Definition nset (ns : list (name * list client)) (n : name) (q : list client) := alist_set str_eqb n q ns.
Definition ndel (ns : list (name * list client)) (n : name) := alist_del str_eqb n ns.

(* `x in list` and list.remove(x) (first occurrence) *)
Definition mem (c : client) (q : list client) : bool := existsb (N.eqb c) q.
Fixpoint remove1 (c : client) (q : list client) : list client :=
  match q with
  | [] => []
  | x :: r => if N.eqb c x then r else x :: remove1 c r
  end.

(* keys of one connection's busNames dictionary, in its insertion order *)
Definition client_keys (fl : list ((client * name) * bool)) (c : client) : list name :=
  map (fun kv => snd (fst kv)) (filter (fun kv => N.eqb c (fst (fst kv))) fl).

Definition set_names (b : bus) ns := mkBus (b_next b) (b_clients b) ns (b_flags b).
Definition set_flags (b : bus) fl := mkBus (b_next b) (b_clients b) (b_names b) fl.
Definition set_clients (b : bus) cl := mkBus (b_next b) cl (b_names b) (b_flags b).

Definition say (k : N) : out := mkOut (RCode k) [].
Definition fail (e : errname) : out := mkOut (RError e) [].

(* ---- clientConnected ---------------------------------------------------------- *)
Definition connect (b : bus) : bus * out :=
  let c := b_next b in
  (mkBus (c + 1) (b_clients b ++ [c]) (b_names b) (b_flags b), mkOut (RHello (unique_name c)) []).

(* ---- dbus_RequestName ------------------------------------------------------------ *)
(* the three checks in front: empty, leading ':', validateBusName *)
Definition name_ok (n : name) : bool :=
  match n with
  | [] => false
  | ch :: _ => negb (ch =? c_colon) && validate_bus n
  end.

(* signalAcq(old_owner_name) *)
Definition signal_acq (c : client) (n : name) (old : str) : list signal :=
  [NameAcquired c n; NameOwnerChanged n old (unique_name c)].

Definition request (b : bus) (c : client) (n : name) (flags : N) : bus * out :=
  let allow := N.testbit flags 0 in
  let repl := N.testbit flags 1 in
  let dnq := N.testbit flags 2 in
  if negb (name_ok n) then (b, fail InvalidArgs) else
  match nget (b_names b) n with
  | None =>
      (mkBus (b_next b) (b_clients b) (nset (b_names b) n [c]) (fset (b_flags b) c n allow),
       mkOut (RCode NAME_ACQUIRED) (signal_acq c n []))
  | Some [] => (b, fail PyException)                         (* queue[0]: IndexError *)
  | Some ((o :: _) as q) =>
      if o =? c then (set_flags b (fset (b_flags b) o n allow), say NAME_ALREADY_OWNER)
      else
        (* `replace_existing and owner.busNames[name]`: the flag is read only when asked to replace *)
        match (if repl then fget (b_flags b) o n else Some false) with
        | None => (b, fail PyException)                      (* KeyError *)
        | Some true =>
            let q1 := if mem c q then remove1 c q else q in
            let q2 := c :: tl q1 in                          (* del queue[0]; queue.insert(0, caller) *)
            (mkBus (b_next b) (b_clients b) (nset (b_names b) n q2)
                   (fset (fdel (b_flags b) o n) c n allow),
             mkOut (RCode NAME_ACQUIRED) (NameLost o n :: signal_acq c n (unique_name o)))
        | Some false =>
            if dnq then
              ((if mem c q then set_names b (nset (b_names b) n (remove1 c q)) else b), say NAME_IN_USE)
            else
              (mkBus (b_next b) (b_clients b)
                     (if mem c q then b_names b else nset (b_names b) n (q ++ [c]))
                     (fset (b_flags b) c n allow),
               say NAME_IN_QUEUE)
        end
  end.

Definition request_legacy (b : bus) (c : client) (n : name) (flags : N) : bus * out :=
  let allow := N.testbit flags 0 in
  let repl := N.testbit flags 1 in
  let dnq := N.testbit flags 2 in
  if negb (name_ok n) then (b, fail InvalidArgs) else
  match nget (b_names b) n with
  | None =>
      (mkBus (b_next b) (b_clients b) (nset (b_names b) n [c]) (fset (b_flags b) c n allow),
       mkOut (RCode NAME_ACQUIRED) (signal_acq c n []))
  | Some [] => (b, fail PyException)
  | Some ((o :: rest) as q) =>
      if o =? c then (set_flags b (fset (b_flags b) o n allow), say NAME_ALREADY_OWNER)
      else if negb repl then (b, say NAME_IN_USE)                               (* D21 *)
      else
        match fget (b_flags b) o n with
        | None => (b, fail PyException)
        | Some true =>
            (mkBus (b_next b) (b_clients b) (nset (b_names b) n (c :: rest))    (* D28: c may be in rest *)
                   (fset (fdel (b_flags b) o n) c n allow),
             mkOut (RCode NAME_ACQUIRED) (NameLost o n :: signal_acq c n (unique_name o)))
        | Some false =>
            if dnq then (b, say NAME_IN_USE)                                    (* D31: c may be waiting *)
            else
              (mkBus (b_next b) (b_clients b) (nset (b_names b) n (q ++ [c]))   (* D28 *)
                     (fset (b_flags b) c n allow),
               say NAME_IN_QUEUE)
        end
  end.

(* ---- dbus_ReleaseName --------------------------------------------------------------- *)
(* [live] is caller.isConnected: True for a ReleaseName call, False when called
   from clientDisconnected *)
Definition release (b : bus) (c : client) (n : name) (live : bool) : bus * out :=
  match nget (b_names b) n with
  | None => (b, say NAME_NON_EXISTENT)
  | Some [] => (b, fail PyException)
  | Some ((o :: rest) as q) =>
      if negb (o =? c) then
        if negb (mem c q) then (b, say NAME_NOT_OWNER)
        else (set_names b (nset (b_names b) n (remove1 c q)), say NAME_RELEASED)
      else
        let lost := if live then [NameLost c n] else [] in
        match rest with
        | w :: _ => (set_names b (nset (b_names b) n rest),
                     mkOut (RCode NAME_RELEASED) (lost ++ [NameAcquired w n]))
        | [] => (set_names b (ndel (b_names b) n), mkOut (RCode NAME_RELEASED) lost)
        end
  end.

Definition release_legacy (b : bus) (c : client) (n : name) (live : bool) : bus * out :=
  match nget (b_names b) n with
  | None => (b, say NAME_NON_EXISTENT)
  | Some [] => (b, fail PyException)
  | Some (o :: rest) =>
      if negb (o =? c) then (b, say NAME_NOT_OWNER)                             (* D22, D23 *)
      else
        let lost := if live then [NameLost c n] else [] in
        match rest with
        | w :: _ => (set_names b (nset (b_names b) n rest),
                     mkOut (RCode NAME_RELEASED) (lost ++ [NameAcquired w n]))
        | [] => (set_names b (ndel (b_names b) n), mkOut (RCode NAME_RELEASED) lost)
        end
  end.

(* ---- clientDisconnected ----------------------------------------------------------------- *)
Section Disconnect.
  Variable rel : bus -> client -> name -> bool -> bus * out.

  (* for busName in proto.busNames.keys(): self.dbus_ReleaseName(busName, proto.uniqueName) *)
  Fixpoint release_all (b : bus) (c : client) (ks : list name) : bus * list signal :=
    match ks with
    | [] => (b, [])
    | n :: r =>
        let (b1, o) := rel b c n false in
        let (b2, s) := release_all b1 c r in
        (b2, o_signals o ++ s)
    end.

  Definition disconnect_with (b : bus) (c : client) : bus * out :=
    let (b1, s) := release_all b c (client_keys (b_flags b) c) in
    (set_clients b1 (filter (fun x => negb (N.eqb c x)) (b_clients b1)), mkOut RNone s).
End Disconnect.

Definition disconnect := disconnect_with release.
Definition disconnect_legacy := disconnect_with release_legacy.

(* ---- dbus_GetNameOwner / dbus_ListQueuedOwners ---------------------------------------------- *)
Definition get_owner (b : bus) (n : name) : out :=
  if starts_with [c_colon] n then
    match find (fun x => str_eqb (unique_name x) n) (b_clients b) with
    | Some x => mkOut (ROwner (unique_name x)) []
    | None => fail NameHasNoOwner
    end
  else
    match nget (b_names b) n with
    | Some (o :: _) => mkOut (ROwner (unique_name o)) []
    | Some [] => fail PyException            (* [] is not None: [].uniqueName *)
    | None => fail NameHasNoOwner
    end.

Definition list_queued (b : bus) (n : name) : out :=
  match nget (b_names b) n with
  | Some ((_ :: _) as q) => mkOut (RQueue (map unique_name q)) []
  | _ => fail NameHasNoOwner
  end.

(* ---- one operation ------------------------------------------------------------------------------ *)
(* A method call reaches the dbus_ methods only from a live connection (the bus
   sets the sender itself); an operation attributed to anything else does nothing. *)
Definition quiet : out := mkOut RNone [].

Section Step.
  Variable req : bus -> client -> name -> N -> bus * out.
  Variable rel : bus -> client -> name -> bool -> bus * out.

  Definition step_with (b : bus) (o : op) : bus * out :=
    match o with
    | Connect => connect b
    | Request c n f => if mem c (b_clients b) then req b c n f else (b, quiet)
    | Release c n => if mem c (b_clients b) then rel b c n true else (b, quiet)
    | GetOwner c n => if mem c (b_clients b) then (b, get_owner b n) else (b, quiet)
    | ListQueued c n => if mem c (b_clients b) then (b, list_queued b n) else (b, quiet)
    | Disconnect c => if mem c (b_clients b) then disconnect_with rel b c else (b, quiet)
    end.

  Fixpoint run_from_with (b : bus) (h : list op) : bus * list out :=
    match h with
    | [] => (b, [])
    | o :: r =>
        let (b1, x) := step_with b o in
        let (b2, xs) := run_from_with b1 r in
        (b2, x :: xs)
    end.
End Step.

Definition step := step_with request release.
Definition step_legacy := step_with request_legacy release_legacy.
Definition run_from := run_from_with request release.
Definition run (h : list op) : bus * list out := run_from init h.
Definition run_legacy (h : list op) : bus * list out := run_from_with request_legacy release_legacy init h.

(* the queue of a name as the code sees it (None: name not in Bus.busNames) *)
Definition mqueue (b : bus) (n : name) : list client :=
  match nget (b_names b) n with Some q => q | None => [] end.
