(* The client handshake model (Model/AuthClient.v) run on BYTES cut into reads:
   the ClientAuthenticator model as the authenticator parameter of the model of
   dataReceived (Model/Framing.v), and what the client then writes and does.
   Definitions only; the statements are in Proofs/AuthClientFramingBridge.v. *)
From Tx Require Import Lib.Base Lib.Sexp.
From Tx Require Model.Marshal Model.Framing Spec.FramingSpec.
From Tx Require Import Model.AuthClient.
Local Open Scope N_scope.

(* ------------------------------------------------------------------------- *)
(* the lines of a byte stream as the line-level model is to receive them:
   every "\r\n"-terminated line in order, and the unterminated remainder when it
   is already too long to become an acceptable line (longer than the limit plus
   a pending '\r') - dataReceived closes on it as on an over-long line *)
Fixpoint stream_lines_f (maxl : N) (fuel : nat) (s : bytes) : list bytes :=
  match fuel with
  | O => []
  | S f =>
      match FramingSpec.cut_line s with
      | None => if maxl + 1 <? FramingSpec.size s then [s] else []
      | Some (l, r) => l :: stream_lines_f maxl f r
      end
  end.

Definition stream_lines (s : bytes) : list bytes := stream_lines_f max_auth_length (S (length s)) s.

Definition dead_out (o : out) : bool := match o with Close | Authd _ => true | _ => false end.
Definition is_authd (o : out) : bool := match o with Authd _ => true | _ => false end.

(* the line-level outputs say: authenticated exactly at the last line, nothing
   closed before *)
Fixpoint auth_at_last (outs : list (list out)) : bool :=
  match outs with
  | [] => false
  | [o] => existsb is_authd o
  | o :: r => negb (existsb dead_out o) && auth_at_last r
  end.

Section Reads.
  Variable user : bytes.
  Variable lookup : bytes -> bytes -> lookup_result.
  Variable nonce : nat -> bytes.
  Variable sha1hex : bytes -> bytes.

  Notation h := (handle user lookup nonce sha1hex).

  (* (1) ClientAuthenticator as Framing's authenticator: handleAuthMessage raised
     DBusAuthenticationFailed / authenticationSucceeded() is now true / neither.
     (ACrash is never produced: the model does not separate the UnicodeDecodeError
     of a non-UTF-8 command word from DBusAuthenticationFailed, see Model/AuthClient.v) *)
  Definition astep_client (c : cst) (line : bytes) : cst * Framing.ares :=
    let '(c', _, raised) := h c line in
    (c', if raised then Framing.AFail else if c_authd c' then Framing.ADone else Framing.AContinue).

  (* what the client writes and does, read off Framing's callbacks: at Line l the
     authenticator sends its answer to l; Close is loseConnection; AuthOk is
     connectionAuthenticated; the binary branch writes nothing *)
  Fixpoint outs_of_events (c : cst) (evs : list Framing.event) : list out :=
    match evs with
    | [] => []
    | e :: r =>
        match e with
        | Framing.Line l => let '(c', sent, _) := h c l in map Send sent ++ outs_of_events c' r
        | Framing.AuthOk => Authd (c_guid c) :: outs_of_events c r
        | Framing.Close | Framing.Crash => Close :: outs_of_events c r
        | Framing.Msg _ | Framing.Fuel => outs_of_events c r
        end
    end.

  Definition client0 (unix : bool) : cst := p_c (fst (connect user unix)).

  (* the client on reads: callbacks and leftover *)
  Definition reads_run (unix : bool) (chunks : list bytes) : list Framing.event * option bytes :=
    Framing.run astep_client max_auth_length true (client0 unix) chunks.

  (* ... and everything it does on its transport, from connecting on *)
  Definition reads_outs (unix : bool) (chunks : list bytes) : list out :=
    snd (connect user unix) ++ outs_of_events (client0 unix) (fst (reads_run unix chunks)).

  (* the same for the line-level session *)
  Definition session_outs (unix : bool) (lines : list bytes) : list out :=
    fst (session user lookup nonce sha1hex unix lines) ++
    concat (snd (session user lookup nonce sha1hex unix lines)).
End Reads.
