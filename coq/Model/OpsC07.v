(* Harness entry points for C07.

   (7 0 <unix> "user" <keyring> (<nonce> ...) <sha> ("line" ...) <observed> ("mech" ...))
       keyring  ::= (("context" (("id" "cookie") ...)) ...)     files of the keyring directory
       sha      ::= (("preimage" "hexdigest") ...)              the SHA-1 values the run may need
       observed ::= ((<ev> ...) ((<ev> ...) ...))               what the implementation did: on
                    connecting, then per received line          ev ::= (0 "raw") | (1 "line") | (2) | (3)
       the last argument is ClientAuthenticator.preference of the tree under test: the observed
       session is judged against the order the tree declares (that this is the model's list is
       the separate obligation C07_tables)
     -> (<model> <legacy> <verdict of observed> <verdict of model>)
       model, legacy ::= ((<out> ...) ((<out> ...) ...))        out ::= (0 "raw") | (1 "line") | (2) | (3 <guid opt>)
       verdict       ::= Spec.AuthClientSpec.session_verdict, 0 = the session satisfies the safety clauses

   (7 1 <cfg> <sha> (<cin> ...))        the reference server alone
       cfg ::= (("mech" ...) <agrees_fd> <ext_challenges>)      cin ::= (0 "raw") | (1 "line") | (2)
     -> (<state 0..5> ("line" ...))

   (7 2 <unix> "user" (<nonce> ...) <sha> <cfg> <legacy?>)    model client against the reference server
     -> (<completed> (<ev> ...))        ev additionally (4 "line") = received

   (7 4 <unix> "user" (<nonce> ...) <sha> <cfg> <kind>)       as (7 2 ...) for the repaired model with the keyring
       kind ::= 0 shared_keyring | 1 other_keyring (context file without the id) | 2 no_keyring (nothing can be looked up)
     -> (<completed> (<ev> ...) <gave_up>)

   (7 3 <unix> "user" <keyring> (<nonce> ...) <sha> ("read" ...))   the client model on BYTES: the reads are
       given to Model/Framing.v's dataReceived with the ClientAuthenticator model as its authenticator
     -> ((<out> ...) <number of Line callbacks> <leftover: () closed | ("bytes")>)                     *)
From Tx Require Import Lib.Base Lib.Sexp Model.AuthClient Spec.AuthClientSpec Model.AuthClientLoop.
From Tx Require Model.Framing Model.AuthClientReads.
Local Open Scope Z_scope.

Definition unknown : bytes := [63%N].

Definition pair_of (s : sexp) : option (bytes * bytes) :=
  match s with
  | SList [SBytes a; SBytes b] => Some (a, b)
  | _ => None
  end.

Definition file_of (s : sexp) : option (bytes * list (bytes * bytes)) :=
  match s with
  | SList [SBytes ctx; SList es] => option_map (fun l => (ctx, l)) (map_opt pair_of es)
  | _ => None
  end.

Definition lookup_in (k : list (bytes * list (bytes * bytes))) (ctx cid : bytes) : lookup_result :=
  match alist_get str_eqb ctx k with
  | None => LRaised
  | Some f => match alist_get str_eqb cid f with
              | None => LNoCookie
              | Some c => LCookie c
              end
  end.

Definition sha_in (t : list (bytes * bytes)) (x : bytes) : bytes :=
  match alist_get str_eqb x t with Some d => d | None => unknown end.

Definition nonce_in (l : list bytes) (k : nat) : bytes := nth k l unknown.

Definition sout (o : out) : sexp :=
  match o with
  | Raw b => SList [SNum 0; SBytes b]
  | Send l => SList [SNum 1; SBytes l]
  | Close => SList [SNum 2]
  | Authd g => SList [SNum 3; sopt SBytes g]
  end.

Definition ssession (s : list out * list (list out)) : sexp :=
  SList [SList (map sout (fst s)); SList (map (fun o => SList (map sout o)) (snd s))].

Definition ev_in (s : sexp) : option ev :=
  match s with
  | SList [SNum 0; SBytes b] => Some (TxRaw b)
  | SList [SNum 1; SBytes l] => Some (Tx l)
  | SList [SNum 2] => Some Closed
  | SList [SNum 3] => Some Binary
  | _ => None
  end.

Definition sev (e : ev) : sexp :=
  match e with
  | TxRaw b => SList [SNum 0; SBytes b]
  | Tx l => SList [SNum 1; SBytes l]
  | Closed => SList [SNum 2]
  | Binary => SList [SNum 3]
  | Rx l => SList [SNum 4; SBytes l]
  end.

Definition evs_in (s : sexp) : option (list ev) :=
  match s with SList l => map_opt ev_in l | _ => None end.

Definition observed_in (s : sexp) : option (list ev * list (list ev)) :=
  match s with
  | SList [i; SList per] =>
      match evs_in i, map_opt evs_in per with
      | Some i, Some per => Some (i, per)
      | _, _ => None
      end
  | _ => None
  end.

Definition cfg_in (s : sexp) : option server_cfg :=
  match s with
  | SList [SList ms; a; e] =>
      match map_opt as_bytes ms, as_bool a, as_bool e with
      | Some ms, Some a, Some e => Some (mk_cfg ms a e)
      | _, _, _ => None
      end
  | _ => None
  end.

Definition cin_in (s : sexp) : option cin :=
  match s with
  | SList [SNum 0; SBytes b] => Some (CRaw b)
  | SList [SNum 1; SBytes l] => Some (CLine l)
  | SList [SNum 2] => Some CEof
  | _ => None
  end.

Definition sstate_code (s : sstate) : Z :=
  match s with
  | SWaitNul => 0 | SWaitAuth => 1 | SWaitData _ => 2 | SWaitBegin => 3 | SDone => 4 | SDead => 5
  end.

Definition op (a : list sexp) : sexp :=
  match a with
  | [SNum 0; u; SBytes user; SList k; SList ns; SList sh; SList ls; obs; SList pf] =>
      match as_bool u, map_opt file_of k, map_opt as_bytes ns, map_opt pair_of sh,
            map_opt as_bytes ls, observed_in obs, map_opt as_bytes pf with
      | Some unix, Some k, Some ns, Some sh, Some lines, Some (oi, oper), Some pf =>
          let m := session user (lookup_in k) (nonce_in ns) (sha_in sh) unix lines in
          let lg := session_legacy user (nonce_in ns) (sha_in sh) unix lines in
          let (mi, mx) := observe m lines in
          SList [ ssession m; ssession lg;
                  SNum (Z.of_N (session_verdict pf unix oi (combine lines oper)));
                  SNum (Z.of_N (session_verdict preference unix mi mx)) ]
      | _, _, _, _, _, _, _ => bad
      end
  | [SNum 1; c; SList sh; SList ins] =>
      match cfg_in c, map_opt pair_of sh, map_opt cin_in ins with
      | Some c, Some sh, Some ins =>
          let (st, ls) := server_run (sha_in sh) c SWaitNul ins in
          SList [SNum (sstate_code st); SList (map SBytes ls)]
      | _, _, _ => bad
      end
  | [SNum 2; u; SBytes user; SList ns; SList sh; c; lg] =>
      match as_bool u, map_opt as_bytes ns, map_opt pair_of sh, cfg_in c, as_bool lg with
      | Some unix, Some ns, Some sh, Some c, Some lg =>
          let h := if lg then handle_legacy user (nonce_in ns) (sha_in sh)
                   else handle user shared_keyring (nonce_in ns) (sha_in sh) in
          let y := handshake user (sha_in sh) h c unix 60 in
          SList [sbool (completed y); SList (map sev (handshake_log user (sha_in sh) h c unix 60))]
      | _, _, _, _, _ => bad
      end
  | [SNum 4; u; SBytes user; SList ns; SList sh; c; SNum kind] =>
      match as_bool u, map_opt as_bytes ns, map_opt pair_of sh, cfg_in c with
      | Some unix, Some ns, Some sh, Some c =>
          let k := if kind =? 1 then other_keyring else if kind =? 2 then no_keyring else shared_keyring in
          let h := handle user k (nonce_in ns) (sha_in sh) in
          let y := handshake user (sha_in sh) h c unix 60 in
          SList [sbool (completed y); SList (map sev (handshake_log user (sha_in sh) h c unix 60));
                 sbool (gave_up y)]
      | _, _, _, _ => bad
      end
  | [SNum 3; u; SBytes user; SList k; SList ns; SList sh; SList rs] =>
      match as_bool u, map_opt file_of k, map_opt as_bytes ns, map_opt pair_of sh, map_opt as_bytes rs with
      | Some unix, Some k, Some ns, Some sh, Some reads =>
          let r := AuthClientReads.reads_run user (lookup_in k) (nonce_in ns) (sha_in sh) unix reads in
          SList [ SList (map sout (AuthClientReads.reads_outs user (lookup_in k) (nonce_in ns) (sha_in sh) unix reads));
                  snat (length (filter (fun e => match e with Framing.Line _ => true | _ => false end) (fst r)));
                  sopt SBytes (snd r) ]
      | _, _, _, _, _ => bad
      end
  | _ => bad
  end.
