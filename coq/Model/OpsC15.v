(* Harness entry point for C15: (15 <steps>) runs a scenario over a world
   (heap of DBusInterface objects, knownInterfaces, last generated document).

   step                                   answer
   (0 name (decl ...) noreg)              (1 id spec) | (0 code)     DBusInterface(name, *decls[, noRegister])
   (1)                                    ()                          knownInterfaces.clear()
   (2 path ((key (id ...)) ...) mode)     (1 (event ...)) | (2) | (0 code)   generateIntrospectionXML
                                          (mode: how the harness builds the exporting object; not used here)
   (3 replace)                            (1 (id ...)) | (0 code)     getInterfacesFromXML(last document, replace)
   (4 replace (event ...))                (1 (id ...)) | (0 code)     getInterfacesFromXML on given events
   A failing parse ends the scenario.  The final answer is
   ((answer ...) (object ...) ((name id) ...)) with every heap object dumped.

   decl  = (0 name sig sig) | (1 name sig) | (2 name sig readable writeable emits)
   sig   = (0 "raw string") | (1 type ...)          emits = 0 False | 1 True | 2 'invalidates'
   type  = <code of a basic type or of v> | (0 type) array | (1 type ...) struct | (2 k v) dict entry
   event = (0 tag ((key value) ...)) | (1 tag)
   spec  = () | ((methods) (signals) (properties)): when every signature of the
           declaration was given as type trees, what Spec/IntrospectSpec.v says
           an observer must see (per declared member name, the last declaration)

   (15 1 name (hop ...)) runs a history of calls on one object made by
   DBusInterface(name, noRegister=True) (Model/IfaceCache.v: members + cached XML).

   hop                                    answer
   (0 decl)                               () | (0 code)     addMethod/addSignal/addProperty(<new member object>)
   (1 kind name)                          () | (0 code)     delMethod(0) / delSignal(1) / delProperty(2) (name)
   (2)                                    (1 (event ...) spec) | (0 code)          _getXml()
   (3 path)                               (1 (event ...) object spec) | (2 (event ...) code) | (0 code)
                                          generateIntrospectionXML(path, {path: exporter of the object}), then
                                          getInterfacesFromXML(document, True): the document and the first parsed object
   (4 target lit)                         () | (0 code)     addMethod(0)/addSignal(1)/addProperty(2) (given object)
   lit  = (0 name nargs nret sigIn sigOut) | (1 name nargs sig) | decl of a property
   spec = () | (((methods) (signals) (properties))): the definition in force (Spec/IntrospectSpec.v in_force)
          while every successful addition so far was a (0 decl) with type trees
   The final answer is ((answer ...) object spec). *)
From Tx Require Import Lib.Base.
From Tx Require Import Lib.Sexp.
From Tx Require Import Model.SigSplit.
From Tx Require Import Model.Introspect.
From Tx Require Import Model.IfaceCache.
From Tx Require Import Spec.SigTy.
From Tx Require Import Spec.IntrospectSpec.
Local Open Scope Z_scope.

(* --- decoding ---------------------------------------------------------------- *)

Definition all_basic : list basic :=
  [BByte; BBool; BInt16; BUInt16; BInt32; BUInt32; BInt64; BUInt64; BDouble; BString; BPath; BSig; BFd].

Definition basic_of_code (c : N) : option basic :=
  find (fun b => N.eqb (basic_code b) c) all_basic.

Fixpoint ty_of (s : sexp) : option ty :=
  match s with
  | SNum z =>
      let c := Z.to_N z in
      if N.eqb c 118 then Some TVariant else option_map TBasic (basic_of_code c)
  | SList (SNum 0 :: [t]) => option_map TArr (ty_of t)
  | SList (SNum 1 :: ts) =>
      option_map TStruct
        ((fix go (l : list sexp) : option (list ty) :=
            match l with
            | [] => Some []
            | x :: r => match ty_of x, go r with Some y, Some ys => Some (y :: ys) | _, _ => None end
            end) ts)
  | SList (SNum 2 :: [k; v]) =>
      match ty_of k, ty_of v with Some a, Some b => Some (TEntry a b) | _, _ => None end
  | _ => None
  end.

(* a signature: its text, and the type trees when given as such *)
Definition sig_of (s : sexp) : option (str * option (list ty)) :=
  match s with
  | SList [SNum 0; raw] => option_map (fun b => (b, None)) (as_str raw)
  | SList (SNum 1 :: ts) => option_map (fun l => (show_list l, Some l)) (map_opt ty_of ts)
  | _ => None
  end.

Definition emits_of (z : Z) : emits_arg * notify :=
  if z =? 0 then (EaFalse, NFalse) else if z =? 1 then (EaTrue, NTrue) else (EaInvalidates, NInvalidates).

(* a declaration for the model and, when fully typed with a spec-level access
   mode, for the specification *)
Definition decl_in (s : sexp) : option (decl * option tdecl) :=
  match s with
  | SList [SNum 0; n; a; r] =>
      match as_str n, sig_of a, sig_of r with
      | Some n, Some (a, ta), Some (r, tr) =>
          Some (DMeth n a r,
                match ta, tr with Some i, Some o => Some (TMethod n i o) | _, _ => None end)
      | _, _, _ => None
      end
  | SList [SNum 1; n; a] =>
      match as_str n, sig_of a with
      | Some n, Some (a, ta) => Some (DSig n a, option_map (TSignal n) ta)
      | _, _ => None
      end
  | SList [SNum 2; n; sg; rd; wr; SNum e] =>
      match as_str n, sig_of sg, as_bool rd, as_bool wr with
      | Some n, Some (sg, tsg), Some rd, Some wr =>
          Some (DProp n sg rd wr (fst (emits_of e)),
                match tsg, rd, wr with
                | Some [t], true, false => Some (TProperty n t ARead (snd (emits_of e)))
                | Some [t], false, true => Some (TProperty n t AWrite (snd (emits_of e)))
                | Some [t], true, true => Some (TProperty n t AReadWrite (snd (emits_of e)))
                | _, _, _ => None
                end)
      | _, _, _, _ => None
      end
  | _ => None
  end.

Definition attr_in (s : sexp) : option (str * str) :=
  match s with
  | SList [k; v] => match as_str k, as_str v with Some k, Some v => Some (k, v) | _, _ => None end
  | _ => None
  end.

Definition event_in (s : sexp) : option event :=
  match s with
  | SList [SNum 0; tag; SList attrs] =>
      match as_str tag, map_opt attr_in attrs with
      | Some t, Some a => Some (EvStart t a)
      | _, _ => None
      end
  | SList [SNum 1; tag] => option_map EvEnd (as_str tag)
  | _ => None
  end.

(* --- encoding ------------------------------------------------------------------ *)

Definition notifies (e : emits) : bool :=
  match e with EmStr s => mem_str s [s_true; s_invalidates] | EmBool b => b end.

Definition member_out (m : member) : sexp :=
  match m with
  | MMeth x => SList [SNum 0; sstr (m_name x); SNum (m_nargs x); SNum (m_nret x); sstr (m_sigIn x); sstr (m_sigOut x)]
  | MSig x => SList [SNum 1; sstr (s_name x); SNum (s_nargs x); sstr (s_sig x)]
  | MProp x => SList [SNum 2; sstr (p_name x); sstr (p_sig x); sstr (p_access x); sbool (notifies (p_emits x))]
  end.

Definition dict_out (d : list (str * member)) : sexp :=
  SList (map (fun kv => SList [sstr (fst kv); member_out (snd kv)]) d).

Definition iface_out (i : iface) : sexp :=
  SList [sstr (i_name i); dict_out (i_methods i); dict_out (i_signals i); dict_out (i_props i)].

Definition event_out (e : event) : sexp :=
  match e with
  | EvStart t a => SList [SNum 0; sstr t; SList (map (fun kv => SList [sstr (fst kv); sstr (snd kv)]) a)]
  | EvEnd t => SList [SNum 1; sstr t]
  end.

Definition err_out (e : err) : sexp := SList [SNum 0; SNum (err_code e)].

(* the specification's view of a typed declaration list *)
Definition spec_out (ds : list tdecl) : sexp :=
  let names := map (fun d => match d with TMethod n _ _ => n | TSignal n _ => n | TProperty n _ _ _ => n end) ds in
  SList [
    SList (flat_map (fun n => match last_method n ds with
                              | Some (i, o) => [SList [sstr n; sstr (show_list i); sstr (show_list o);
                                                       SNum (count i); SNum (count o)]]
                              | None => [] end) names);
    SList (flat_map (fun n => match last_signal n ds with
                              | Some a => [SList [sstr n; sstr (show_list a); SNum (count a)]]
                              | None => [] end) names);
    SList (flat_map (fun n => match last_property n ds with
                              | Some (t, a) => [SList [sstr n; sstr (show t); sstr (access_name a)]]
                              | None => [] end) names) ].

Fixpoint all_some {A} (l : list (option A)) : option (list A) :=
  match l with
  | [] => Some []
  | Some x :: r => option_map (cons x) (all_some r)
  | None :: _ => None
  end.

(* --- the scenario interpreter ---------------------------------------------------- *)

Record world := mkW {
  w_heap : list iface;
  w_known : list (str * nat);
  w_doc : option (list event) }.

Definition parse_out (w : world) (replace : bool) (evs : list event) : sexp * option world :=
  match parse replace (w_heap w) (w_known w) evs with
  | Ok (out, heap', known') => (SList [SNum 1; SList (map snat out)], Some (mkW heap' known' (w_doc w)))
  | Err e => (err_out e, None)
  end.

Definition exported_in (w : world) (s : sexp) : option (str * list iface) :=
  match s with
  | SList [key; SList ids] =>
      match as_str key, map_opt (fun x => match as_nat x with
                                          | Some id => nth_error (w_heap w) id
                                          | None => None end) ids with
      | Some k, Some ifs => Some (k, ifs)
      | _, _ => None
      end
  | _ => None
  end.

(* one step: None = malformed input, Some (answer, None) = scenario ends *)
Definition do_step (w : world) (s : sexp) : option (sexp * option world) :=
  match s with
  | SList [SNum 0; name; SList decls; noreg] =>
      match as_str name, map_opt decl_in decls, as_bool noreg with
      | Some n, Some ds, Some nr =>
          match declare (w_heap w) (w_known w) n (map fst ds) nr with
          | Ok (heap', known', id) =>
              Some (SList [SNum 1; snat id; sopt spec_out (all_some (map snd ds))],
                    Some (mkW heap' known' (w_doc w)))
          | Err e => Some (err_out e, Some w)
          end
      | _, _, _ => None
      end
  | SList [SNum 1] => Some (SList [], Some (mkW (w_heap w) [] (w_doc w)))
  | SList [SNum 2; path; SList exported; _] =>
      match as_str path, map_opt (exported_in w) exported with
      | Some p, Some ex =>
          match gen_doc p ex with
          | Ok (Some evs) => Some (SList [SNum 1; SList (map event_out evs)],
                                   Some (mkW (w_heap w) (w_known w) (Some evs)))
          | Ok None => Some (SList [SNum 2], Some (mkW (w_heap w) (w_known w) None))
          | Err e => Some (err_out e, Some (mkW (w_heap w) (w_known w) None))
          end
      | _, _ => None
      end
  | SList [SNum 3; replace] =>
      match as_bool replace, w_doc w with
      | Some r, Some evs => Some (parse_out w r evs)
      | Some _, None => Some (err_out EType, None)      (* no document: None.strip() *)
      | None, _ => None
      end
  | SList [SNum 4; replace; SList evs] =>
      match as_bool replace, map_opt event_in evs with
      | Some r, Some evs => Some (parse_out w r evs)
      | _, _ => None
      end
  | _ => None
  end.

Fixpoint do_steps (w : world) (steps : list sexp) (acc : list sexp) : option (list sexp * world) :=
  match steps with
  | [] => Some (rev acc, w)
  | s :: r =>
      match do_step w s with
      | None => None
      | Some (a, Some w') => do_steps w' r (a :: acc)
      | Some (a, None) => Some (rev (a :: acc), w)
      end
  end.

(* --- histories on one object ------------------------------------------------------ *)

Definition kind_in (z : Z) : option (kind * mkind) :=
  if z =? 0 then Some (KMeth, IsMethod) else if z =? 1 then Some (KSig, IsSignal)
  else if z =? 2 then Some (KProp, IsProperty) else None.

Definition lit_in (s : sexp) : option member :=
  match s with
  | SList [SNum 0; n; SNum na; SNum nr; a; r] =>
      match as_str n, as_str a, as_str r with
      | Some n, Some a, Some r => Some (MMeth (mkMeth n na nr a r))
      | _, _, _ => None
      end
  | SList [SNum 1; n; SNum na; a] =>
      match as_str n, as_str a with
      | Some n, Some a => Some (MSig (mkSgnl n na a))
      | _, _ => None
      end
  | SList (SNum 2 :: _) =>
      match decl_in s with
      | Some (DProp n sg rd wr e, _) => Some (MProp (new_property n sg rd wr e))
      | _ => None
      end
  | _ => None
  end.

Record hworld := mkHW {
  hw_obj : cobj;
  hw_typed : option (list tdecl) }.      (* the typed history's definition in force *)

Definition spec_now (w : hworld) : sexp := sopt spec_out (hw_typed w).

Definition obs_out (o : cobs) : sexp :=
  match o with
  | RNone => SList []
  | RXml x => SList [SNum 1; SList (map event_out x)]
  | RErr e => err_out e
  end.

(* a mutator: the call, and what it does to the typed definition when it succeeds *)
Definition mutate (w : hworld) (o : cop) (f : option (list tdecl) -> option (list tdecl)) : sexp * hworld :=
  let r := cstep (hw_obj w) o in
  (obs_out (snd r),
   mkHW (fst r) (match snd r with RErr _ => hw_typed w | _ => f (hw_typed w) end)).

Definition do_hop (w : hworld) (s : sexp) : option (sexp * hworld) :=
  match s with
  | SList [SNum 0; d] =>
      match decl_in d with
      | Some (dc, td) =>
          Some (mutate w (cop_add dc)
                       (fun t => match t, td with
                                 | Some ds, Some x => Some (in_force_step ds (HAdd x))
                                 | _, _ => None
                                 end))
      | None => None
      end
  | SList [SNum 1; SNum k; n] =>
      match kind_in k, as_str n with
      | Some (mk, sk), Some n =>
          Some (mutate w (ODel mk n) (option_map (fun ds => in_force_step ds (HDel sk n))))
      | _, _ => None
      end
  | SList [SNum 2] =>
      let r := get_xml (hw_obj w) in
      Some (match snd r with
            | Ok x => SList [SNum 1; SList (map event_out x); spec_now w]
            | Err e => err_out e
            end, mkHW (fst r) (hw_typed w))
  | SList [SNum 3; path] =>
      match as_str path with
      | Some p =>
          let r := export_doc p (hw_obj w) in
          Some (match snd r with
                | Ok evs =>
                    match parse true [] [] evs with
                    | Ok (id :: _, heap, _) =>
                        match nth_error heap id with
                        | Some i => SList [SNum 1; SList (map event_out evs); iface_out i; spec_now w]
                        | None => SList [SNum 2; SList (map event_out evs); SNum 11]
                        end
                    | Ok ([], _, _) => SList [SNum 2; SList (map event_out evs); SNum 11]
                    | Err e => SList [SNum 2; SList (map event_out evs); SNum (err_code e)]
                    end
                | Err e => err_out e
                end, mkHW (fst r) (hw_typed w))
      | None => None
      end
  | SList [SNum 4; SNum k; lit] =>
      match kind_in k, lit_in lit with
      | Some (mk, _), Some m =>
          Some (mutate w (match mk with KMeth => OAddMethod m | KSig => OAddSignal m | KProp => OAddProperty m end)
                       (fun _ => None))
      | _, _ => None
      end
  | _ => None
  end.

Fixpoint do_hops (w : hworld) (hops : list sexp) (acc : list sexp) : option (list sexp * hworld) :=
  match hops with
  | [] => Some (rev acc, w)
  | s :: r =>
      match do_hop w s with
      | None => None
      | Some (a, w') => do_hops w' r (a :: acc)
      end
  end.

Definition op (args : list sexp) : sexp :=
  match args with
  | [SNum 1; name; SList hops] =>
      match as_str name with
      | None => bad
      | Some n =>
          match do_hops (mkHW (c_new n) (Some [])) hops [] with
          | None => bad
          | Some (answers, w) =>
              SList [SList answers; iface_out (c_iface (hw_obj w)); spec_now w]
          end
      end
  | [SList steps] =>
      match do_steps (mkW [] [] None) steps [] with
      | None => bad
      | Some (answers, w) =>
          SList [SList answers;
                 SList (map iface_out (w_heap w));
                 SList (map (fun kv => SList [sstr (fst kv); snat (snd kv)]) (w_known w))]
      end
  | _ => bad
  end.
