(* Harness entry point for the precondition of C19's variant round trip:
   (19 1 val) -> (1 inside "sig")   inside = inside_claim_b val (0/1);
                                    "sig" = signature of ref_ty val, () when it has none
   The harness compares it with its own reference (ref_type in harness/c19.py). *)
From Tx Require Import Lib.Base Lib.Sexp Model.PyVal Spec.WireSpec Spec.Homogeneous.
Local Open Scope Z_scope.

Definition op (args : list sexp) : sexp :=
  match args with
  | [SNum 1; v] =>
      match pv_of_sexp v with
      | Some v' =>
          SList [SNum 1; sbool (inside_claim_b v');
                 match ref_ty v' with Some t => SBytes (show t) | None => SList [] end]
      | None => bad
      end
  | _ => bad
  end.
