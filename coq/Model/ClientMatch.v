(* Model of the match-rule bookkeeping of txdbus/client.py
   (DBusClientConnection.addMatch / delMatch / signalReceived, the
   `match_rules` dict), statement by statement, and its run against the
   reference daemon of Spec/DaemonSpec.v.  Definitions only.

   addMatch(callback, ...):
       rule = ','.join(l)                                   rule_string
       d = self.callRemote(..., 'AddMatch', body=[rule])    one AddMatch call, always
       def ok(_): rule_id = self.router.addMatch(...); self.match_rules[rule_id] = rule; return rule_id
       d.addCallbacks(ok)                                   an error reply fails the Deferred, nothing is registered
   delMatch(rule_id):
       rule = self.match_rules[rule_id]                     KeyError
       d = self.callRemote(..., 'RemoveMatch', body=[rule]) one RemoveMatch call per rule id
       def ok(_): del self.match_rules[rule_id]; self.router.delMatch(rule_id)
   signalReceived(msig): self.router.routeMessage(msig)                                             *)
From Tx Require Import Lib.Base Model.Router Spec.MatchSpec Spec.DaemonSpec.
Local Open Scope N_scope.

Record client := mkClient {
  cl_router : router;                  (* self.router *)
  cl_texts : list (nat * str)          (* self.match_rules: rule id -> rule text *)
}.

Definition cinit : client := mkClient init [].

(* ok(_) of addMatch, run when the method return arrives; an exception of
   router.addMatch fails the Deferred after the bus accepted the text *)
Definition client_add_ok (r : rule) (k : cbk) (text : str) (c : client) : client * res nat :=
  match add_match r k (cl_router c) with
  | (rt, Ok id) => (mkClient rt (alist_set Nat.eqb id text (cl_texts c)), Ok id)
  | (rt, Err e) => (mkClient rt (cl_texts c), Err e)
  end.

(* rule = self.match_rules[rule_id] *)
Definition client_del_text (id : nat) (c : client) : option str := alist_get Nat.eqb id (cl_texts c).

(* ok(_) of delMatch *)
Definition client_del_ok (id : nat) (c : client) : client :=
  mkClient (fst (del_match id (cl_router c))) (alist_del Nat.eqb id (cl_texts c)).

(* ---- the client on a connection to the reference daemon ------------------------ *)

Inductive wire :=
| WAdd (text : str)                    (* AddMatch method call written by the client *)
| WRemove (text : str).                (* RemoveMatch *)

Inductive cevent :=
| CAdd (r : rule) (k : cbk)            (* conn.addMatch(callback, rule...) *)
| CDel (id : nat)                      (* conn.delMatch(id) *)
| CSignal (m : msg).                   (* a broadcast signal emitted on the bus *)

Inductive cobs :=
| OCAdded (w : list wire) (r : res nat)            (* calls written; what the Deferred gave *)
| OCDeleted (w : list wire) (r : res unit)
| OCSignal (forwarded : bool) (called : list (nat * N)).

Definition cstep (s : client * daemon) (e : cevent) : (client * daemon) * cobs :=
  let '(c, d) := s in
  match e with
  | CAdd r k =>
      let t := rule_string r in
      match d_add t d with
      | Some d' => let '(c', x) := client_add_ok r k t c in ((c', d'), OCAdded [WAdd t] x)
      | None => ((c, d), OCAdded [WAdd t] (Err EOther))           (* error reply -> RemoteError *)
      end
  | CDel i =>
      match client_del_text i c with
      | None => ((c, d), OCDeleted [] (Err EKey))
      | Some t =>
          match d_remove t d with
          | Some d' => ((client_del_ok i c, d'), OCDeleted [WRemove t] (Ok tt))
          | None => ((c, d), OCDeleted [WRemove t] (Err EOther))  (* MatchRuleNotFound *)
          end
      end
  | CSignal m =>
      if d_forwards d m then
        let '(rt, l) := route_message m (cl_router c) in
        ((mkClient rt (cl_texts c), d), OCSignal true l)
      else ((c, d), OCSignal false [])
  end.

Definition crun (h : list cevent) : client * daemon :=
  fold_left (fun s e => fst (cstep s e)) h (cinit, []).

Fixpoint ctrace_from (s : client * daemon) (h : list cevent) : list cobs :=
  match h with
  | [] => []
  | e :: h' => let '(s', o) := cstep s e in o :: ctrace_from s' h'
  end.
Definition ctrace (h : list cevent) : list cobs := ctrace_from (cinit, []) h.

(* the same history seen by the router alone *)
Definition revent (e : cevent) : event :=
  match e with CAdd r k => EAdd r k | CDel i => EDel i | CSignal m => ERoute m end.

(* what the callbacks see of a signal emitted after the history *)
Definition csignal_called (h : list cevent) (m : msg) : list (nat * N) :=
  match snd (cstep (crun h) (CSignal m)) with OCSignal _ l => l | _ => [] end.
