(* Harness entry point for C10.

   (10 classes objects raw outcome later implobs)
     classes = ((ifaces attrs) ...)
        ifaces = () | ((iface ...))            'dbusInterfaces' absent / present in the class __dict__
        iface  = (name ((member in out) ...))
        attrs  = ((pyname fid deco caller) ...)  deco = () | ((iname member)); caller = 0/1
     objects = ((path (class index ...)) ...)  the exports dict; an object is its MRO
     raw     = the call message as bytes (parsed here with Model.Message.parse_message)
     outcome = (0 pyval) | (1 exn) | (2)       what the invoked method does; exn = (class name? text)
     later   = () | ((0 pyval)) | ((1 exn))    how the returned Deferred completes, if it does
     implobs = (escaped (reply ...) (inv ...) (reply ...))   what the implementation was seen to do
        reply  = (kind name? serial dest? sig body)   kind 0 return 1 error 2 error-from-encoder
        body   = (0 bytes) | (1 text) | (2)
        inv    = (fid (pyval ...) caller)      caller = () | (sender?)

   -> (0 code)                                  the message does not parse as a method call
    | (1 wf cur legacy_flags legacy_text (verdict_impl verdict_model) target (candidate fid ...) unmodelled)
        cur / legacy_* = obs = (escaped (reply ...) (inv ...) (reply ...))
        wf      = the hypotheses of the theorems hold (sender absent or a bus name; distinct interface names)
        target  = 0 no object 1 no method 2 bad args 3 method 4 built-in
    the last element: 1 when encoding the returned value is a case Model/Marshal.v leaves unmodelled      *)
From Tx Require Import Lib.Base Lib.Sexp.
From Tx Require Import Model.PyVal Model.Marshal Model.Message Model.Dispatch Spec.DispatchSpec.
Local Open Scope Z_scope.

(* --- the parsed message as a call ------------------------------------------------- *)
Definition attr_str (a : attr) (attrs : list (attr * pyval)) : option str :=
  match get_attr a attrs with
  | Some v => str_of v
  | None => None
  end.

Definition call_of_parsed (p : parsed) : option call :=
  let '(mt, serial, er, _, attrs, body) := p in
  if negb (mt =? 1)%N then None
  else match attr_str APath attrs, attr_str AMember attrs with
       | Some path, Some member =>
           Some (mkCall path (attr_str AInterface attrs) member (attr_str ASignature attrs)
                        (match body with Some l => l | None => [] end)
                        (attr_str ASender attrs) serial er)
       | _, _ => None
       end.

Definition parse_call (legacy_flags : bool) (raw : bytes) : res (option call) :=
  match parse_message legacy_flags (fuel_for header_format (2 * length raw + 260)) raw None with
  | Ok p => Ok (call_of_parsed p)
  | Err e => Err e
  end.

(* --- decoding ------------------------------------------------------------------------ *)
Definition dec_meth (s : sexp) : option meth :=
  match s with
  | SList [n; i; o] =>
      match as_str n, as_str i, as_str o with
      | Some n, Some i, Some o => Some (mkMeth n i o)
      | _, _, _ => None
      end
  | _ => None
  end.

Definition dec_iface (s : sexp) : option iface :=
  match s with
  | SList [n; SList ms] =>
      match as_str n, map_opt dec_meth ms with
      | Some n, Some ms => Some (mkIface n ms)
      | _, _ => None
      end
  | _ => None
  end.

Definition dec_pair (s : sexp) : option (str * str) :=
  match s with
  | SList [a; b] => match as_str a, as_str b with Some a, Some b => Some (a, b) | _, _ => None end
  | _ => None
  end.

Definition dec_attr (s : sexp) : option (str * func) :=
  match s with
  | SList [n; SNum fid; d; cl] =>
      match as_str n, as_opt dec_pair d, as_bool cl with
      | Some n, Some d, Some cl => Some (n, mkFunc (Z.to_N fid) d cl)
      | _, _, _ => None
      end
  | _ => None
  end.

Definition dec_class (s : sexp) : option class :=
  match s with
  | SList [ifs; SList attrs] =>
      match as_opt (fun x => match as_list x with Some l => map_opt dec_iface l | None => None end) ifs,
            map_opt dec_attr attrs with
      | Some ifs, Some attrs => Some (mkClass ifs attrs)
      | _, _ => None
      end
  | _ => None
  end.

Definition dec_object (classes : list class) (s : sexp) : option (str * object) :=
  match s with
  | SList [p; SList idx] =>
      match as_str p, map_opt (fun i => match as_nat i with Some n => nth_error classes n | None => None end) idx with
      | Some p, Some mro => Some (p, mro)
      | _, _ => None
      end
  | _ => None
  end.

Definition dec_exn (s : sexp) : option exn :=
  match s with
  | SList [c; n; t] =>
      match as_str c, as_opt as_str n, as_bytes t with
      | Some c, Some n, Some t => Some (mkExn c n t)
      | _, _, _ => None
      end
  | _ => None
  end.

Definition dec_outcome (s : sexp) : option outcome :=
  match s with
  | SList [SNum 0; v] => option_map OValue (pv_of_sexp v)
  | SList [SNum 1; e] => option_map ORaise (dec_exn e)
  | SList [SNum 2] => Some ODeferred
  | _ => None
  end.

Definition dec_later (s : sexp) : option later :=
  match s with
  | SList [SNum 0; v] => option_map LValue (pv_of_sexp v)
  | SList [SNum 1; e] => option_map LFail (dec_exn e)
  | _ => None
  end.

Definition dec_body (s : sexp) : option body :=
  match s with
  | SList [SNum 0; SBytes b] => Some (BBytes b)
  | SList [SNum 1; SBytes t] => Some (BText t)
  | SList [SNum 2] => Some BOther
  | _ => None
  end.

Definition dec_reply (s : sexp) : option reply :=
  match s with
  | SList [SNum k; n; SNum serial; d; sg; b] =>
      match as_opt as_str n, as_opt as_str d, as_str sg, dec_body b with
      | Some n, Some d, Some sg, Some b =>
          let kind := match k, n with
                      | 0, _ => Some KReturn
                      | 1, Some n => Some (KError n)
                      | 2, _ => Some KEncodeError
                      | _, _ => None
                      end in
          option_map (fun k => mkReply k serial d sg b) kind
      | _, _, _, _ => None
      end
  | _ => None
  end.

Definition all_funcs (classes : list class) : list func :=
  flat_map (fun c => map snd (c_attrs c)) classes.

Definition func_by_id (classes : list class) (fid : N) : func :=
  match find (fun f => (f_id f =? fid)%N) (all_funcs classes) with
  | Some f => f
  | None => mkFunc fid None false
  end.

Definition dec_inv (classes : list class) (s : sexp) : option invocation :=
  match s with
  | SList [SNum fid; SList args; cl] =>
      match map_opt pv_of_sexp args, as_opt (as_opt as_str) cl with
      | Some args, Some cl => Some (mkInv (func_by_id classes (Z.to_N fid)) args cl)
      | _, _ => None
      end
  | _ => None
  end.

Definition dec_obs (classes : list class) (s : sexp) : option obs :=
  match s with
  | SList [esc; SList now; SList invs; SList ltr] =>
      match as_bool esc, map_opt dec_reply now, map_opt (dec_inv classes) invs, map_opt dec_reply ltr with
      | Some esc, Some now, Some invs, Some ltr => Some (mkObs esc now invs ltr)
      | _, _, _, _ => None
      end
  | _ => None
  end.

(* --- encoding ------------------------------------------------------------------------ *)
Definition enc_body (b : body) : sexp :=
  match b with
  | BBytes x => SList [SNum 0; SBytes x]
  | BText t => SList [SNum 1; SBytes t]
  | BOther => SList [SNum 2]
  end.

Definition enc_reply (r : reply) : sexp :=
  let '(k, n) := match r_kind r with
                 | KReturn => (0, None)
                 | KError n => (1, Some n)
                 | KEncodeError => (2, None)
                 end in
  SList [SNum k; sopt sstr n; SNum (r_serial r); sopt sstr (r_dest r); sstr (r_sig r); enc_body (r_body r)].

Definition enc_inv (v : invocation) : sexp :=
  SList [sN (f_id (v_func v)); SList (map pv_to_sexp (v_args v)); sopt (sopt sstr) (v_caller v)].

Definition enc_obs (o : obs) : sexp :=
  SList [sbool (ob_escaped o); SList (map enc_reply (ob_now o)); SList (map enc_inv (ob_invs o));
         SList (map enc_reply (ob_later o))].

(* the model's observation of one call *)
Definition observe_with (legacy_text : bool) (ex : exports) (c : call) (out : outcome) (l : option later) : obs :=
  match handle_with legacy_text ex (fun _ => out) c with
  | HRaise _ => mkObs true [] [] []
  | HDone rs invs p =>
      mkObs false rs invs
            (match p, l with
             | Some p, Some l => fire_with legacy_text p l
             | _, _ => []
             end)
  end.

Definition observe := observe_with false.

Definition verdict_code (v : verdict) : Z :=
  match v with
  | VOk => 0 | VEscaped => 1 | VTooMany => 2 | VMissing => 3 | VMisaddressed => 4
  | VAnsweredNoReply => 5 | VRanUnaddressed => 6 | VWrongErrorKind => 7 | VNotOnce => 8
  | VWrongImpl => 9 | VWrongArgs => 10 | VWrongReturn => 11 | VUnencodableNoError => 12
  | VWrongErrorName => 13 | VWrongErrorText => 14
  end.

(* hypotheses of the theorems of Props/C10.v, decided *)
Fixpoint nodup_str (l : list str) : bool :=
  match l with
  | [] => true
  | x :: r => negb (existsb (str_eqb x) r) && nodup_str r
  end.

Definition wf_call_b (c : call) : bool := dest_ok (c_sender c).
Definition wf_object_b (o : object) : bool := nodup_str (map i_name (interfaces o)).
Definition wf_exports_b (ex : exports) : bool := forallb (fun po => wf_object_b (snd po)) ex.

Definition target_code (ex : exports) (c : call) : Z * list func :=
  if builtin c then (4, [])
  else match addressed ex c with
       | TNoObject => (0, [])
       | TNoMethod => (1, [])
       | TBadArgs => (2, [])
       | TMethod o i m => (3, candidates o (i_name i) (c_member c))
       end.

(* the returned value runs into a case Model/Marshal.v declares unmodelled
   (EUnmodelled, e.g. an int where a double is declared): such a case is not compared *)
Definition encoding_unmodelled (ex : exports) (c : call) (out : outcome) (l : option later) : bool :=
  match addressed ex c, final_of out l with
  | TMethod _ _ m, FValue v =>
      match encode_out (m_out m) (wrap_result (m_nret m) v) with
      | Err EUnmodelled => true
      | _ => false
      end
  | _, _ => false
  end.

Definition op (args : list sexp) : sexp :=
  match args with
  | [SList cls; SList objs; SBytes raw; out; ltr; iobs] =>
      match map_opt dec_class cls with
      | Some classes =>
          match map_opt (dec_object classes) objs, dec_outcome out, as_opt dec_later ltr, dec_obs classes iobs with
          | Some ex, Some out, Some l, Some io =>
              match parse_call false raw, parse_call true raw with
              | Ok (Some c), Ok (Some c_legacy) =>
                  let cur := observe ex c out l in
                  let '(tc, cands) := target_code ex c in
                  SList [SNum 1;
                         sbool (wf_call_b c && wf_exports_b ex);
                         enc_obs cur;
                         enc_obs (observe ex c_legacy out l);
                         enc_obs (observe_with true ex c out l);
                         SList [SNum (verdict_code (judge ex c out l io));
                                SNum (verdict_code (judge ex c out l cur))];
                         SNum tc;
                         SList (map (fun f => sN (f_id f)) cands);
                         sbool (encoding_unmodelled ex c out l)]
              | Err e, _ | _, Err e => SList [SNum 0; SNum (err_code e)]
              | _, _ => SList [SNum 0; SNum 0]
              end
          | _, _, _, _ => bad
          end
      | None => bad
      end
  | _ => bad
  end.
