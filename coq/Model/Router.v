(* Model of txdbus/router.py (Rule.add / Rule.match, MessageRouter.addMatch /
   delMatch / routeMessage), of the rule text written by
   txdbus/client.py DBusClientConnection.addMatch, of its consumer
   txdbus/bus.py Bus.dbus_AddMatch, and of the signature gate of
   txdbus/objects.py RemoteDBusObject.notifyOnSignal - statement by statement.

   Definitions only.  Definitions suffixed _legacy are the code of the pinned
   commit, before the repairs D16 (message type never compared), D17
   (path_namespace by startswith), D18 (argument constraints skipped for a
   message without body), D19 (argNpath by startswith of the message value),
   D33 (routeMessage iterating the live dict while callbacks change it) and
   D34 (constraints with an empty value dropped).

   Vocabulary.  A message is what Rule.match reads of it.  A body element is
   either a Python str or something else (`AOther tag`; the tag only
   identifies the value).  A match rule is the keyword arguments of addMatch:
   string-valued keys (None = absent) and two lists of (index, string) pairs;
   `None` and `[]` are the same to every `if args:` test in the code, so the
   lists are plain lists. *)
From Tx Require Import Lib.Base Lib.Sexp Gen.Generated.
Local Open Scope N_scope.

Definition slash : N := 47.

Inductive arg :=
| AStr (s : str)
| AOther (tag : N).

Record msg := mkMsg {
  m_type : N;                          (* m._messageType: 1 call, 2 return, 3 error, 4 signal *)
  m_path : option str;
  m_interface : option str;
  m_member : option str;
  m_destination : option str;
  m_sender : option str;
  m_signature : option str;
  m_body : option (list arg)           (* None: the message has no body *)
}.

Record rule := mkRule {
  r_type : option str;                 (* mtype *)
  r_sender : option str;
  r_interface : option str;
  r_member : option str;
  r_path : option str;
  r_path_namespace : option str;
  r_destination : option str;
  r_args : list (nat * str);           (* args / arg      : [(idx, value)] *)
  r_arg_paths : list (nat * str);      (* arg_paths / arg_path *)
  r_arg0namespace : option str
}.

Definition empty_rule : rule := mkRule None None None None None None None [] [] None.

(* ---- Rule objects --------------------------------------------------------- *)

(* attributes of the message a `simple` entry may name, and Python values *)
Inductive attr := AtType | AtInterface | AtMember | AtPath | AtDestination.
Inductive pyv := PNone | PInt (n : N) | PStr (s : str).

Definition opt_pyv (o : option str) : pyv := match o with Some s => PStr s | None => PNone end.

(* getattr(m, k) *)
Definition getattr (m : msg) (a : attr) : pyv :=
  match a with
  | AtType => PInt (m_type m)
  | AtInterface => opt_pyv (m_interface m)
  | AtMember => opt_pyv (m_member m)
  | AtPath => opt_pyv (m_path m)
  | AtDestination => opt_pyv (m_destination m)
  end.

(* a == b on these values *)
Definition pyv_eqb (a b : pyv) : bool :=
  match a, b with
  | PNone, PNone => true
  | PInt x, PInt y => x =? y
  | PStr x, PStr y => str_eqb x y
  | _, _ => false
  end.

(* A Rule after addMatch: self.simple and the attributes set by setattr that
   match() reads.  (`sender`, `arg0namespace` and - before D16 -
   `_messageType` are set with setattr as well and never read.) *)
Record crule := mkCRule {
  c_simple : list (attr * pyv);
  c_path_namespace : option str;               (* hasattr(self, 'path_namespace') *)
  c_args : option (list (nat * str));
  c_arg_paths : option (list (nat * str))
}.

(* router._mtypes, regenerated from the tree under test *)
Definition lookup_mtype (name : str) : option N :=
  match router_mtypes with
  | Some t => alist_get str_eqb name t
  | None => None
  end.

Definition simple_of (a : attr) (v : option str) : list (attr * pyv) :=
  match v with Some s => [(a, PStr s)] | None => [] end.

(* `if args:` on a list *)
Definition nonempty {A} (l : list A) : option (list A) :=
  match l with [] => None | _ => Some l end.

(* `if interface:` on None-or-str, as the pinned commit tested every key *)
Definition truthy (v : option str) : option str :=
  match v with Some (_ :: _) => v | _ => None end.

(* the body of MessageRouter.addMatch up to the id allocation:
     if mtype is not None: r.add('_messageType', _mtypes[mtype])     KeyError for an unknown name
     if interface is not None: r.add('interface', interface) ...                                  *)
Definition compile (r : rule) : res crule :=
  do ty <- match r_type r with
           | None => Ok []
           | Some name => match lookup_mtype name with
                          | Some c => Ok [(AtType, PInt c)]
                          | None => Err EKey
                          end
           end;
  Ok (mkCRule (ty ++ simple_of AtInterface (r_interface r) ++ simple_of AtMember (r_member r)
                  ++ simple_of AtPath (r_path r) ++ simple_of AtDestination (r_destination r))
              (r_path_namespace r) (nonempty (r_args r)) (nonempty (r_arg_paths r))).

(* pinned commit: `if mtype: r.add('_messageType', mtype)` stores the type
   where match never looks (D16); every key is tested for truthiness (D34) *)
Definition compile_legacy (r : rule) : res crule :=
  Ok (mkCRule (simple_of AtInterface (truthy (r_interface r)) ++ simple_of AtMember (truthy (r_member r))
                  ++ simple_of AtPath (truthy (r_path r)) ++ simple_of AtDestination (truthy (r_destination r)))
              (truthy (r_path_namespace r)) (nonempty (r_args r)) (nonempty (r_arg_paths r))).

(* ---- Rule.match ------------------------------------------------------------ *)

(* for k, v in self.simple: if getattr(m, k) != v: return *)
Definition simple_ok (c : crule) (m : msg) : bool :=
  forallb (fun kv => pyv_eqb (getattr m (fst kv)) (snd kv)) (c_simple c).

(* m.path is None or not (m.path == ns or ns == '/' or m.path.startswith(ns + '/')) -> return *)
Definition ns_ok (c : crule) (m : msg) : bool :=
  match c_path_namespace c with
  | None => true
  | Some ns =>
      match m_path m with
      | None => false
      | Some p => str_eqb p ns || str_eqb ns [slash] || starts_with (ns ++ [slash]) p
      end
  end.

(* pinned commit (D17): not m.path.startswith(self.path_namespace) -> return *)
Definition ns_ok_legacy (c : crule) (m : msg) : bool :=
  match c_path_namespace c with
  | None => true
  | Some ns => match m_path m with None => false | Some p => starts_with ns p end
  end.

(* body = m.body or [] *)
Definition body_list (m : msg) : list arg :=
  match m_body m with Some l => l | None => [] end.

(* idx >= len(body) or body[idx] != val -> return    (a non-str never equals a str) *)
Definition arg_ok (body : list arg) (iv : nat * str) : bool :=
  match nth_error body (fst iv) with
  | Some (AStr s) => str_eqb s (snd iv)
  | _ => false
  end.

Definition args_ok (c : crule) (m : msg) : bool :=
  match c_args c with
  | None => true
  | Some l => forallb (arg_ok (body_list m)) l
  end.

(* pinned commit (D18): `if hasattr(self, 'args') and m.body is not None` *)
Definition args_ok_legacy (c : crule) (m : msg) : bool :=
  match c_args c, m_body m with
  | Some l, Some body => forallb (arg_ok body) l
  | _, _ => true
  end.

(* idx >= len(body) or not isinstance(body[idx], str) -> return
   not (arg == val or (val.endswith('/') and arg.startswith(val))
                   or (arg.endswith('/') and val.startswith(arg))) -> return *)
Definition arg_path_ok (body : list arg) (iv : nat * str) : bool :=
  match nth_error body (fst iv) with
  | Some (AStr a) =>
      let val := snd iv in
      str_eqb a val
      || (ends_with_char slash val && starts_with val a)
      || (ends_with_char slash a && starts_with a val)
  | _ => false
  end.

Definition arg_paths_ok (c : crule) (m : msg) : bool :=
  match c_arg_paths c with
  | None => true
  | Some l => forallb (arg_path_ok (body_list m)) l
  end.

(* pinned commit (D18, D19): skipped without body;
   idx >= len(m.body) or not m.body[idx].startswith(val) -> return
   (AttributeError on a non-str is caught by the except clause: no call) *)
Definition arg_path_ok_legacy (body : list arg) (iv : nat * str) : bool :=
  match nth_error body (fst iv) with
  | Some (AStr a) => starts_with (snd iv) a
  | _ => false
  end.

Definition arg_paths_ok_legacy (c : crule) (m : msg) : bool :=
  match c_arg_paths c, m_body m with
  | Some l, Some body => forallb (arg_path_ok_legacy body) l
  | _, _ => true
  end.

(* Rule.match reaches self.callback(m) *)
Definition rule_match (c : crule) (m : msg) : bool :=
  simple_ok c m && ns_ok c m && args_ok c m && arg_paths_ok c m.

Definition rule_match_legacy (c : crule) (m : msg) : bool :=
  simple_ok c m && ns_ok_legacy c m && args_ok_legacy c m && arg_paths_ok_legacy c m.

(* would a rule given to addMatch hand this message to its callback?
   (a rule addMatch refuses is never registered) *)
Definition matches (r : rule) (m : msg) : bool :=
  match compile r with Ok c => rule_match c m | Err _ => false end.

Definition matches_legacy (r : rule) (m : msg) : bool :=
  match compile_legacy r with Ok c => rule_match_legacy c m | Err _ => false end.

(* ---- MessageRouter ---------------------------------------------------------- *)

(* What a registered callback does when called: it may change the rule table
   (through router.delMatch / router.addMatch of a passive callback) and may
   then raise.  `cb_tag` identifies the callback. *)
Inductive action :=
| ADel (id : nat)
| AAdd (r : rule) (tag : N) (raises : bool).

Record cbk := mkCb {
  cb_tag : N;
  cb_raises : bool;
  cb_acts : list action
}.

Definition passive (tag : N) (raises : bool) : cbk := mkCb tag raises [].

(* self._id and self._rules (a dict: insertion order kept) *)
Record router := mkRouter {
  next_id : nat;
  rules : list (nat * (crule * cbk))
}.

Definition init : router := mkRouter 0 [].

Section Router.
  Variable compile_f : rule -> res crule.

  (* addMatch: an exception in the rule construction leaves the router untouched *)
  Definition add_match_with (r : rule) (k : cbk) (st : router) : router * res nat :=
    match compile_f r with
    | Err e => (st, Err e)
    | Ok c => (mkRouter (S (next_id st)) (alist_set Nat.eqb (next_id st) (c, k) (rules st)),
               Ok (next_id st))
    end.

  (* delMatch: del self._rules[rule_id]  (KeyError) *)
  Definition del_match (id : nat) (st : router) : router * res unit :=
    match alist_get Nat.eqb id (rules st) with
    | None => (st, Err EKey)
    | Some _ => (mkRouter (next_id st) (alist_del Nat.eqb id (rules st)), Ok tt)
    end.

  (* the body of a callback, up to its first exception (an exception of
     delMatch / addMatch ends the callback like its own raise does; all of
     them are caught in Rule.match) *)
  Fixpoint run_acts (acts : list action) (st : router) : router :=
    match acts with
    | [] => st
    | ADel i :: rest =>
        match del_match i st with
        | (st', Ok _) => run_acts rest st'
        | (st', Err _) => st'
        end
    | AAdd r t b :: rest =>
        match add_match_with r (passive t b) st with
        | (st', Ok _) => run_acts rest st'
        | (st', Err _) => st'
        end
    end.
End Router.

Definition add_match := add_match_with compile.
Definition add_match_legacy := add_match_with compile_legacy.

(* routeMessage:
     for r in list(self._rules.values()):
         if r.id in self._rules: r.match(m)
   Observation: the callbacks called, in order, as (rule id, callback tag).
   Exceptions of callbacks are caught inside Rule.match (`except
   BaseException: log.err()`), so nothing escapes. *)
Fixpoint route_loop (snap : list (nat * (crule * cbk))) (m : msg) (st : router)
  : router * list (nat * N) :=
  match snap with
  | [] => (st, [])
  | (i, (c, k)) :: rest =>
      match alist_get Nat.eqb i (rules st) with
      | Some _ =>
          if rule_match c m then
            let st1 := run_acts compile (cb_acts k) st in
            let '(st2, l) := route_loop rest m st1 in
            (st2, (i, cb_tag k) :: l)
          else route_loop rest m st
      | None => route_loop rest m st
      end
  end.

Definition route_message (m : msg) (st : router) : router * list (nat * N) :=
  route_loop (rules st) m st.

(* pinned commit (D33): `for r in self._rules.values(): r.match(m)`.  The dict
   iterator compares the size of the dict with the size it had when the loop
   started each time it is advanced: once a callback has changed the number of
   rules, RuntimeError escapes from routeMessage and the remaining rules are
   not looked at.  A callback that removes and adds the same number of rules
   leaves the iterator walking a changed table; that is not modelled
   (EUnmodelled). *)
Fixpoint route_loop_legacy (snap : list (nat * (crule * cbk))) (n0 : nat) (m : msg) (st : router)
  : router * list (nat * N) * res unit :=
  match snap with
  | [] => (st, [], Ok tt)
  | (i, (c, k)) :: rest =>
      if rule_match_legacy c m then
        let st1 := run_acts compile_legacy (cb_acts k) st in
        if negb (Nat.eqb (length (rules st1)) n0) then (st1, [(i, cb_tag k)], Err EOther)
        else if negb (Nat.eqb (next_id st1) (next_id st)) then (st1, [(i, cb_tag k)], Err EUnmodelled)
        else
          let '(st2, l, e) := route_loop_legacy rest n0 m st1 in
          (st2, (i, cb_tag k) :: l, e)
      else route_loop_legacy rest n0 m st
  end.

Definition route_message_legacy (m : msg) (st : router) : router * list (nat * N) * res unit :=
  route_loop_legacy (rules st) (length (rules st)) m st.

(* ---- histories --------------------------------------------------------------- *)

Inductive event :=
| EAdd (r : rule) (k : cbk)
| EDel (id : nat)
| ERoute (m : msg).

Inductive obs :=
| OAdded (r : res nat)                               (* the id returned, or the exception *)
| ODeleted (r : res unit)
| ORouted (called : list (nat * N)) (escaped : res unit).

Definition step (st : router) (e : event) : router * obs :=
  match e with
  | EAdd r k => let '(st', x) := add_match r k st in (st', OAdded x)
  | EDel i => let '(st', x) := del_match i st in (st', ODeleted x)
  | ERoute m => let '(st', l) := route_message m st in (st', ORouted l (Ok tt))
  end.

Definition step_legacy (st : router) (e : event) : router * obs :=
  match e with
  | EAdd r k => let '(st', x) := add_match_legacy r k st in (st', OAdded x)
  | EDel i => let '(st', x) := del_match i st in (st', ODeleted x)
  | ERoute m => let '(st', l, x) := route_message_legacy m st in (st', ORouted l x)
  end.

(* the router after a history *)
Definition run_from (st : router) (h : list event) : router :=
  fold_left (fun s e => fst (step s e)) h st.
Definition run (h : list event) : router := run_from init h.

(* what each event of a history showed *)
Fixpoint trace_with (stp : router -> event -> router * obs) (st : router) (h : list event) : list obs :=
  match h with
  | [] => []
  | e :: h' => let '(st', o) := stp st e in o :: trace_with stp st' h'
  end.
Definition trace (h : list event) : list obs := trace_with step init h.
Definition trace_legacy (h : list event) : list obs := trace_with step_legacy init h.

(* the callbacks a route after history h calls *)
Definition called_after (h : list event) (m : msg) : list (nat * N) :=
  snd (route_message m (run h)).

(* ---- client.addMatch: the rule text ------------------------------------------ *)

Definition k_type : str := [116; 121; 112; 101].  (* 'type' *)
Definition k_mtype : str := [109; 116; 121; 112; 101].  (* 'mtype' *)
Definition k_sender : str := [115; 101; 110; 100; 101; 114].  (* 'sender' *)
Definition k_interface : str := [105; 110; 116; 101; 114; 102; 97; 99; 101].  (* 'interface' *)
Definition k_member : str := [109; 101; 109; 98; 101; 114].  (* 'member' *)
Definition k_path : str := [112; 97; 116; 104].  (* 'path' *)
Definition k_path_namespace : str := [112; 97; 116; 104; 95; 110; 97; 109; 101; 115; 112; 97; 99; 101].  (* 'path_namespace' *)
Definition k_destination : str := [100; 101; 115; 116; 105; 110; 97; 116; 105; 111; 110].  (* 'destination' *)
Definition k_args : str := [97; 114; 103; 115].  (* 'args' *)
Definition k_arg_paths : str := [97; 114; 103; 95; 112; 97; 116; 104; 115].  (* 'arg_paths' *)
Definition k_arg0namespace : str := [97; 114; 103; 48; 110; 97; 109; 101; 115; 112; 97; 99; 101].  (* 'arg0namespace' *)
Definition k_arg : str := [97; 114; 103].  (* 'arg' *)

Definition c_comma : N := 44.
Definition c_eq : N := 61.
Definition c_quote : N := 39.

(* f"{k}='{v}'" *)
Definition kv (k v : str) : str := k ++ [c_eq; c_quote] ++ v ++ [c_quote].

(* add(k, v): if v is not None: l.append(...) *)
Definition kv_opt (k : str) (v : option str) : list str :=
  match v with Some s => [kv k s] | None => [] end.

(* '%d' % idx, idx >= 0 *)
Definition dec (n : nat) : str := n_chars (N.of_nat n).

Definition rule_items (r : rule) : list str :=
  kv_opt k_type (r_type r) ++ kv_opt k_sender (r_sender r) ++ kv_opt k_interface (r_interface r)
  ++ kv_opt k_member (r_member r) ++ kv_opt k_path (r_path r)
  ++ kv_opt k_path_namespace (r_path_namespace r) ++ kv_opt k_destination (r_destination r)
  ++ map (fun iv => kv (k_arg ++ dec (fst iv)) (snd iv)) (r_args r)
  ++ map (fun iv => kv (k_arg ++ dec (fst iv) ++ k_path) (snd iv)) (r_arg_paths r)
  ++ kv_opt k_arg0namespace (r_arg0namespace r).

(* rule = ','.join(l) *)
Definition rule_string (r : rule) : str := join_with c_comma (rule_items r).

(* ---- Bus.dbus_AddMatch: reading the rule text ----------------------------------- *)

Definition is_digit (c : N) : bool := (48 <=? c) && (c <=? 57).
Definition is_alnum (c : N) : bool :=
  is_digit c || ((65 <=? c) && (c <=? 90)) || ((97 <=? c) && (c <=? 122)).

(* int(s) for what the model covers: a non-empty run of ASCII digits is its
   value; any other string of ASCII letters and digits (the empty one
   included) is a ValueError; strings with other characters (sign, blanks,
   '_', non-ASCII digits, which int() partly accepts) are not modelled *)
Definition py_int (s : str) : res nat :=
  match s with
  | [] => Err EOther
  | _ =>
      if forallb is_digit s then Ok (N.to_nat (fold_left (fun acc c => acc * 10 + (c - 48)) s 0))
      else if forallb is_alnum s then Err EOther
      else Err EUnmodelled
  end.

(* v[1:-1] *)
Definition strip_ends (v : str) : str := removelast (tl v).

(* s.endswith(t) *)
Definition ends_with (t s : str) : bool := starts_with (rev t) (rev s).

Definition set_type (v : str) (r : rule) : rule :=
  mkRule (Some v) (r_sender r) (r_interface r) (r_member r) (r_path r) (r_path_namespace r)
         (r_destination r) (r_args r) (r_arg_paths r) (r_arg0namespace r).
Definition set_sender (v : str) (r : rule) : rule :=
  mkRule (r_type r) (Some v) (r_interface r) (r_member r) (r_path r) (r_path_namespace r)
         (r_destination r) (r_args r) (r_arg_paths r) (r_arg0namespace r).
Definition set_interface (v : str) (r : rule) : rule :=
  mkRule (r_type r) (r_sender r) (Some v) (r_member r) (r_path r) (r_path_namespace r)
         (r_destination r) (r_args r) (r_arg_paths r) (r_arg0namespace r).
Definition set_member (v : str) (r : rule) : rule :=
  mkRule (r_type r) (r_sender r) (r_interface r) (Some v) (r_path r) (r_path_namespace r)
         (r_destination r) (r_args r) (r_arg_paths r) (r_arg0namespace r).
Definition set_path (v : str) (r : rule) : rule :=
  mkRule (r_type r) (r_sender r) (r_interface r) (r_member r) (Some v) (r_path_namespace r)
         (r_destination r) (r_args r) (r_arg_paths r) (r_arg0namespace r).
Definition set_path_namespace (v : str) (r : rule) : rule :=
  mkRule (r_type r) (r_sender r) (r_interface r) (r_member r) (r_path r) (Some v)
         (r_destination r) (r_args r) (r_arg_paths r) (r_arg0namespace r).
Definition set_destination (v : str) (r : rule) : rule :=
  mkRule (r_type r) (r_sender r) (r_interface r) (r_member r) (r_path r) (r_path_namespace r)
         (Some v) (r_args r) (r_arg_paths r) (r_arg0namespace r).
Definition push_arg (iv : nat * str) (r : rule) : rule :=
  mkRule (r_type r) (r_sender r) (r_interface r) (r_member r) (r_path r) (r_path_namespace r)
         (r_destination r) (r_args r ++ [iv]) (r_arg_paths r) (r_arg0namespace r).
Definition push_arg_path (iv : nat * str) (r : rule) : rule :=
  mkRule (r_type r) (r_sender r) (r_interface r) (r_member r) (r_path r) (r_path_namespace r)
         (r_destination r) (r_args r) (r_arg_paths r ++ [iv]) (r_arg0namespace r).
Definition set_arg0namespace (v : str) (r : rule) : rule :=
  mkRule (r_type r) (r_sender r) (r_interface r) (r_member r) (r_path r) (r_path_namespace r)
         (r_destination r) (r_args r) (r_arg_paths r) (Some v).

(* one `item` of rule.split(','):
     k, v = item.split('=')            ValueError unless exactly one '='
     value = v[1:-1]
     if k == 'type': k = 'mtype'
     if k in kwargs: kwargs[k] = value
     elif k.startswith('arg'):
         if k.endswith('path'): arg_paths.append((int(k[3:-4]), value))
         else: args.append((int(k[3:]), value))
   The keys `args` and `arg_paths` are in kwargs too: a rule text naming them
   puts a str where a list is expected; not modelled (EUnmodelled). *)
Definition parse_kv (acc : rule) (k0 value : str) : res rule :=
  let k := if str_eqb k0 k_type then k_mtype else k0 in
  if str_eqb k k_mtype then Ok (set_type value acc)
  else if str_eqb k k_sender then Ok (set_sender value acc)
  else if str_eqb k k_interface then Ok (set_interface value acc)
  else if str_eqb k k_member then Ok (set_member value acc)
  else if str_eqb k k_path then Ok (set_path value acc)
  else if str_eqb k k_path_namespace then Ok (set_path_namespace value acc)
  else if str_eqb k k_destination then Ok (set_destination value acc)
  else if str_eqb k k_args || str_eqb k k_arg_paths then Err EUnmodelled
  else if str_eqb k k_arg0namespace then Ok (set_arg0namespace value acc)
  else if starts_with k_arg k then
    if ends_with k_path k then
      do n <- py_int (firstn (length k - 7) (skipn 3 k));
      Ok (push_arg_path (n, value) acc)
    else
      do n <- py_int (skipn 3 k);
      Ok (push_arg (n, value) acc)
  else Ok acc.

Definition parse_item (acc : rule) (item : str) : res rule :=
  match split_on c_eq item with
  | [k0; v] => parse_kv acc k0 (strip_ends v)
  | _ => Err EOther
  end.

Fixpoint parse_items (items : list str) (acc : rule) : res rule :=
  match items with
  | [] => Ok acc
  | it :: rest => do acc' <- parse_item acc it; parse_items rest acc'
  end.

(* the keyword arguments dbus_AddMatch passes to router.addMatch *)
Definition parse_rule (text : str) : res rule :=
  parse_items (split_on c_comma text) empty_rule.

(* ---- RemoteDBusObject.notifyOnSignal -------------------------------------------- *)

Definition k_signal : str := [115; 105; 103; 110; 97; 108].  (* 'signal' *)

(* conn.addMatch(callback_caller, mtype='signal', path=self.objectPath,
                 member=signalName, interface=iface.name) *)
Definition proxy_rule (path member iface : str) : rule :=
  mkRule (Some k_signal) None (Some iface) (Some member) (Some path) None None [] [] None.

(* `if expected:` on None-or-str *)
Definition truthy_b (s : option str) : bool :=
  match s with Some (_ :: _) => true | _ => false end.

Definition opt_str_eqb (a b : option str) : bool :=
  match a, b with
  | Some x, Some y => str_eqb x y
  | None, None => true
  | _, _ => false
  end.

(* objects.isSignatureValid(expected, received) *)
Definition is_signature_valid (expected received : option str) : bool :=
  if truthy_b expected then
    if negb (truthy_b received) || negb (opt_str_eqb expected received) then false else true
  else
    if truthy_b received then false else true.

(* callback_caller(sig_msg): None = the user callback is not called,
   Some args = called with these positional arguments
     if isSignatureValid(signal.sig, sig_msg.signature):
         if sig_msg.body: callback( *sig_msg.body) else: callback()          *)
Definition proxy_deliver (declared : option str) (m : msg) : option (list arg) :=
  if is_signature_valid declared (m_signature m) then
    Some (match m_body m with Some (x :: l) => x :: l | _ => [] end)
  else None.
