(* Model of DBus property access in txdbus/objects.py (DBusProperty descriptor,
   the per-class interface caches _iterIFaceCaches / _cacheInterfaces /
   _searchCache, _dbus_PropertyGet / _dbus_PropertySet / _dbus_PropertyGetAll,
   getAllProperties, the property part of exportObject) and of
   interface.Property's access / emits normalisation, statement by statement.

   A class hierarchy is the MRO of the object's class (most derived first,
   DBusObject and object left out: DBusObject contributes the interface
   org.freedesktop.DBus.Properties, which has no properties, and no
   DBusProperty attribute).  Each class carries the DBusInterface objects of
   its own `dbusInterfaces` list and the DBusProperty descriptors of its own
   __dict__, in definition order.

   Values are Model.PyVal.pyval.  What a value looks like on the wire when it
   travels as a variant is taken from the marshalling model (Model/Marshal.v:
   sig_from_py, m_marshal, m_unmarshal).

   Definitions taking a `cfg` cover the code before the repairs D15 (break in
   getAllProperties), D40 (storage key interface+name by concatenation), D41
   (PropertiesChanged value typed by inference), D42 (descriptor used before
   its class's cache exists); `current` / `legacy` fix the flags.

   The legacy_lazy flag (D42) tracks how many class caches exist exactly for
   local assignments; exportObject and every remote call are taken to build
   all of them (exact when they complete; after an export that raised midway
   the pinned code may have built fewer).

   Not represented: several objects sharing classes (descriptor state is per
   class in Python; every hierarchy here has one object), plain attributes
   shadowing a DBusProperty, decorated methods (they only add method entries
   to the caches). *)
From Tx Require Import Lib.Base Lib.Sexp Model.PyVal Model.Marshal.
Local Open Scope N_scope.

(* --- declarations ---------------------------------------------------------- *)

Inductive access := ARead | AWrite | AReadWrite.
Inductive emits := EmTrue | EmFalse | EmInval.

(* interface.Property.__init__(name, sig, readable, writeable, emitsOnChange) *)
Definition norm_access (readable writeable : bool) : access :=
  if writeable && negb readable then AWrite
  else if writeable && readable then AReadWrite
  else ARead.

Record pdecl := mkP { p_name : str; p_sig : str; p_acc : access; p_emits : emits }.
Record iface := mkI { i_name : str; i_props : list pdecl }.        (* .properties, a dict: names distinct *)
Record dprop := mkD { d_attr : str; d_pname : str; d_iface : option str }.   (* attr = DBusProperty(pname, interface) *)
Record class := mkC { c_ifaces : list iface; c_attrs : list dprop }.
Definition hier := list class.

Definition props_iface_name : str :=
  [111;114;103;46;102;114;101;101;100;101;115;107;116;111;112;46;68;66;117;115;46;80;114;111;112;101;114;116;105;101;115].

(* DBusObject.getInterfaces(): for base in __mro__: if 'dbusInterfaces' in base.__dict__: yield from it *)
Definition get_interfaces (h : hier) : list iface :=
  flat_map c_ifaces h ++ [mkI props_iface_name []].

Definition find_prop (i : iface) (n : str) : option pdecl :=
  find (fun p => str_eqb (p_name p) n) (i_props i).

(* --- _cacheInterfaces ------------------------------------------------------- *)

(* the descriptor after _cacheInterfaces: interface, iprop, attr_name set *)
Record bind := mkB { b_attr : str; b_iface : str; b_prop : pdecl;
                     b_explicit : bool (* the interface was given to DBusProperty(...) *) }.

Definition b_name (b : bind) : str := p_name (b_prop b).

Definition resolve (ifs : list iface) (d : dprop) : res bind :=
  do iname <- match d_iface d with
              | Some i => Ok i
              | None =>
                  match find (fun i => match find_prop i (d_pname d) with Some _ => true | None => false end) ifs with
                  | Some i => Ok (i_name i)
                  | None => Err EType                 (* AttributeError: no interface has the property *)
                  end
              end;
  match find (fun i => str_eqb (i_name i) iname) ifs with
  | None => Err EUnmodelled                           (* iprop stays None; excluded (ill-formed declaration) *)
  | Some i =>
      match find_prop i (d_pname d) with
      | Some p => Ok (mkB (d_attr d) iname p (match d_iface d with Some _ => true | None => false end))
      | None => Err EKey                              (* iface.properties[obj.pname] *)
      end
  end.

Fixpoint map_res {A B} (f : A -> res B) (l : list A) : res (list B) :=
  match l with
  | [] => Ok []
  | x :: r => do y <- f x; do ys <- map_res f r; Ok (y :: ys)
  end.

(* every descriptor of every class, resolved against the object's interfaces *)
Definition compile (h : hier) : res (list (list bind)) :=
  map_res (fun c => map_res (resolve (get_interfaces h)) (c_attrs c)) h.

Definition icache := list (str * bind).          (* _IfaceCache.properties *)
Definition cache := list (str * icache).         (* base._dbusIfaceCache, property part *)

(* get_ic(obj.interface).properties[obj.pname] = obj *)
Definition cache_put (c : cache) (b : bind) : cache :=
  let ic := match alist_get str_eqb (b_iface b) c with Some ic => ic | None => [] end in
  alist_set str_eqb (b_iface b) (alist_set str_eqb (b_name b) b ic) c.

Definition cache_of (bl : list bind) : cache := fold_left cache_put bl [].

Definition nonempty (s : str) : bool := match s with [] => false | _ => true end.

Fixpoint first_some {A B} (f : A -> option B) (l : list A) : option B :=
  match l with
  | [] => None
  | x :: r => match f x with Some y => Some y | None => first_some f r end
  end.

(* _searchCache(interfaceName, 'properties', key) *)
Definition search_one (c : cache) (iname key : str) : option bind :=
  if nonempty iname then
    match alist_get str_eqb iname c with
    | Some d => alist_get str_eqb key d
    | None => None
    end
  else first_some (fun ic => alist_get str_eqb key (snd ic)) c.

Definition search (cs : list cache) (iname key : str) : option bind :=
  first_some (fun c => search_one c iname key) cs.

(* how many caches the generator _iterIFaceCaches had to produce *)
Fixpoint search_visited (cs : list cache) (iname key : str) : nat :=
  match cs with
  | [] => 0%nat
  | c :: r => match search_one c iname key with
              | Some _ => 1%nat
              | None => S (search_visited r iname key)
              end
  end.

(* --- values ----------------------------------------------------------------- *)

Definition is_int_code (c : N) : bool :=
  existsb (N.eqb c) [121; 98; 110; 113; 105; 117; 120; 116].          (* y b n q i u x t *)
Definition is_str_code (c : N) : bool := (c =? 103) || (c =? 111).      (* g o *)

Definition all_letters (s : bytes) : bool :=
  forallb (fun c => ((65 <=? c) && (c <=? 90)) || ((97 <=? c) && (c <=? 122))) s.

Definition s_None : bytes := [78; 111; 110; 101].
Definition s_True : bytes := [84; 114; 117; 101].
Definition s_False : bytes := [70; 97; 108; 115; 101].

(* marshal.variantClassMap[sig](v) when sig is in the map, else v:
   the int subclasses call int(v), Signature / ObjectPath call str(v) *)
Definition wrap_decl (sg : str) (v : pyval) : res pyval :=
  match sg with
  | [c] =>
      if is_int_code c then
        match v with
        | PInt z => Ok (PWrap c (PInt z))
        | PBool b => Ok (PWrap c (PInt (if b then 1 else 0)%Z))
        | PWrap _ (PInt z) => Ok (PWrap c (PInt z))
        | PStr s | PWrap _ (PStr s) =>
            if all_letters s then Err EOther              (* ValueError: invalid literal for int() *)
            else Err EUnmodelled                          (* int('12'), int(' 7 '), ... *)
        | PNone | PList _ | PTuple _ | PDict _ => Err EType
        | _ => Err EUnmodelled                            (* float truncation, bytearray, objects *)
        end
      else if is_str_code c then
        match v with
        | PStr s | PWrap _ (PStr s) => Ok (PWrap c (PStr s))
        | PInt z | PWrap _ (PInt z) => Ok (PWrap c (PStr (z_chars z)))
        | PBool b => Ok (PWrap c (PStr (if b then s_True else s_False)))
        | PNone => Ok (PWrap c (PStr s_None))
        | _ => Err EUnmodelled                            (* repr of floats and containers *)
        end
      else Ok v
  | _ => Ok v
  end.

Definition vfuel (v : pyval) : nat := (4 * pv_size v + 16)%nat.

(* the value sent as a variant: the signature written (sigFromPy) and what a
   peer reads back; Err when marshalling raises *)
Definition wire_variant (v : pyval) : res (str * pyval) :=
  do sg <- sig_from_py v;
  match m_marshal (vfuel v) [118] (PList [v]) 0 true None with
  | Err e => Err e
  | Ok (_, b, _) =>
      match m_unmarshal (vfuel v) [118] b 0 true (Some []) with
      | Ok (_, [x]) => Ok (sg, x)
      | Ok _ => Err EOther
      | Err e => Err e
      end
  end.

(* a property value of declared type sg as it leaves in a reply or signal *)
Definition present (sg : str) (v : pyval) : res (str * pyval) :=
  do w <- wrap_decl sg v; wire_variant w.

(* --- state, configuration ---------------------------------------------------- *)

Definition key := (str * str)%type.               (* (descriptor.interface, descriptor.pname) *)

Record cfg := mkCfg {
  legacy_break : bool;       (* D15: break after the first class mentioning the interface *)
  legacy_key : bool;         (* D40: self.key = self.interface + self.pname *)
  legacy_sigtype : bool;     (* D41: PropertiesChanged carries the raw value *)
  legacy_lazy : bool         (* D42: __set__ forces the caches with _getProperty('', pname) only *)
}.
Definition current : cfg := mkCfg false false false false.
Definition legacy : cfg := mkCfg true true true true.

Definition key_eqb (cf : cfg) (a b : key) : bool :=
  if legacy_key cf then str_eqb (fst a ++ snd a) (fst b ++ snd b)
  else str_eqb (fst a) (fst b) && str_eqb (snd a) (snd b).

(* Connections are numbered; connection c has its own DBusObjectHandler with its
   own `exports` table.  The object itself keeps ONE handler reference
   (`_objectHandler`): exportObject overwrites it, unexportObject leaves it alone. *)
Record state := mkS {
  s_vals : list (key * pyval);       (* instance._dbusProperties *)
  s_exps : list nat;                 (* connections whose handler.exports holds the object *)
  s_handler : option nat;            (* obj._objectHandler: the connection of the latest exportObject *)
  s_built : nat                      (* classes whose _dbusIfaceCache exists (read only under legacy_lazy) *)
}.
Definition init : state := mkS [] [] None 0.

Definition exp_on (st : state) (c : nat) : bool := existsb (Nat.eqb c) (s_exps st).

Inductive op :=
| OAssign (attr : str) (v : pyval)        (* obj.attr = v *)
| OExport (c : nat)                        (* handler_c.exportObject(obj) *)
| OUnexport (c : nat)                      (* handler_c.unexportObject(path) *)
| OGet (c : nat) (i n : str)               (* org.freedesktop.DBus.Properties.Get(i, n) arriving on connection c *)
| OSet (c : nat) (i n : str) (v : pyval)   (* Set(i, n, variant v) arriving on connection c *)
| OGetAll (c : nat) (i : str).             (* GetAll(i) arriving on connection c *)

Inductive reply :=
| RNone                                    (* local operation completed *)
| RRaise                                   (* local operation raised *)
| RVal (sg : str) (v : pyval)              (* method return 'v' *)
| RDict (d : list (str * (str * pyval)))   (* method return 'a{sv}' *)
| ROk                                      (* method return, empty body *)
| RErr.                                    (* error reply *)

(* messages handed to connection c's sendMessage *)
Inductive signal :=
| SigChanged (c : nat) (i n : str) (sg : str) (v : pyval)                (* PropertiesChanged(i, {n: v}, []) *)
| SigAdded (c : nat) (d : list (str * list (str * (str * pyval))))       (* InterfacesAdded(path, {iface: {name: v}}) *)
| SigRemoved (c : nat) (names : list str).                               (* InterfacesRemoved(path, [iface names]) *)

Section Step.
  Variable cf : cfg.
  Variable inames : list str.              (* [i.name for i in getInterfaces()] *)
  Variable bs : list (list bind).          (* compile h *)

  Definition caches : list cache := map cache_of bs.

  (* type(self).__mro__ lookup of a DBusProperty attribute: class index and descriptor *)
  Fixpoint lookup_attr_from (k : nat) (l : list (list bind)) (a : str) : option (nat * bind) :=
    match l with
    | [] => None
    | bl :: r => match find (fun b => str_eqb (b_attr b) a) bl with
                 | Some b => Some (k, b)
                 | None => lookup_attr_from (S k) r a
                 end
    end.
  Definition lookup_attr (a : str) : option (nat * bind) := lookup_attr_from 0 bs a.

  Definition key_of (b : bind) : key := (b_iface b, b_name b).

  Definition read_val (st : state) (k : key) : pyval :=
    match alist_get (key_eqb cf) k (s_vals st) with Some v => v | None => PNone end.

  (* getattr(self, p.attr_name): DBusProperty.__get__ of whatever descriptor the name reaches *)
  Definition getattr (st : state) (a : str) : res pyval :=
    match lookup_attr a with
    | Some (_, b') => Ok (read_val st (key_of b'))
    | None => Err EType
    end.

  Definition store (st : state) (k : key) (v : pyval) : state :=
    mkS (alist_set (key_eqb cf) k v (s_vals st)) (s_exps st) (s_handler st) (s_built st).

  (* the tail of DBusProperty.__set__ once iprop is known: store, then emit *)
  Definition set_resolved (st : state) (b : bind) (v : pyval) : state * bool * list signal :=
    let st' := store st (key_of b) v in
    match p_emits (b_prop b) with
    | EmTrue =>
        (* D41 repair: the value is first given the declared class (this raises for a
           value int() / str() refuse, exported or not); emitSignal then returns at
           once without an object handler, else marshals and sends *)
        match (if legacy_sigtype cf then Ok v else wrap_decl (p_sig (b_prop b)) v) with
        | Err _ => (st', false, [])              (* the exception escapes after the store *)
        | Ok w =>
            match s_handler st with
            | Some c =>
                match wire_variant w with
                | Ok (sg, x) => (st', true, [SigChanged c (b_iface b) (b_name b) sg x])
                | Err _ => (st', false, [])
                end
            | None => (st', true, [])
            end
        end
    | _ => (st', true, [])
    end.

  (* setattr(self, attr, v) -> (state, completed without exception, signals) *)
  Definition assign (st : state) (a : str) (v : pyval) : state * bool * list signal :=
    match lookup_attr a with
    | None => (st, true, [])                     (* not a DBusProperty: outside the model *)
    | Some (k, b) =>
        if legacy_lazy cf && negb (Nat.ltb k (s_built st)) then
          (* self.iprop is None: instance._getProperty('', self.pname) builds the
             caches up to the first class that has a property of that name *)
          let built := Nat.max (s_built st) (search_visited caches [] (b_name b)) in
          let st1 := mkS (s_vals st) (s_exps st) (s_handler st) built in
          if Nat.ltb k built then set_resolved st1 b v
          else if b_explicit b
               then (store st1 (key_of b) v, false, [])   (* stored, then None.emits: AttributeError *)
               else (st1, false, [])                      (* None + pname: TypeError before the store *)
        else set_resolved st b v
    end.

  Definition all_built (st : state) : state :=
    mkS (s_vals st) (s_exps st) (s_handler st) (Nat.max (s_built st) (length bs)).

  (* _dbus_PropertyGet, then the reply body marshalled as a variant *)
  Definition prop_get (st : state) (i n : str) : reply :=
    match search caches i n with
    | None => RErr                                            (* Exception('Invalid Property') *)
    | Some b =>
        match p_acc (b_prop b) with
        | AWrite => RErr                                      (* 'Property is not readable' *)
        | _ =>
            match (do v <- getattr st (b_attr b); present (p_sig (b_prop b)) v) with
            | Ok (sg, x) => RVal sg x
            | Err _ => RErr
            end
        end
    end.

  (* _dbus_PropertySet *)
  Definition prop_set (st : state) (i n : str) (v : pyval) : state * reply * list signal :=
    match search caches i n with
    | None => (st, RErr, [])
    | Some b =>
        match p_acc (b_prop b) with
        | ARead => (st, RErr, [])                             (* 'Property is not Writeable' *)
        | _ =>
            let '(st', ok, sigs) := assign st (b_attr b) v in
            (st', if ok then ROk else RErr, sigs)
        end
    end.

  (* getAllProperties: addp *)
  Definition addp (st : state) (r : res (list (str * pyval))) (b : bind) : res (list (str * pyval)) :=
    do r0 <- r;
    match p_acc (b_prop b) with
    | AWrite => Ok r0
    | _ =>
        do v <- getattr st (b_attr b);
        do w <- wrap_decl (p_sig (b_prop b)) v;
        Ok (alist_set str_eqb (b_name b) w r0)
    end.

  Definition addps (st : state) (r : res (list (str * pyval))) (ic : icache) : res (list (str * pyval)) :=
    fold_left (addp st) (map snd ic) r.

  Fixpoint get_all_named (st : state) (cs : list cache) (i : str) (r : res (list (str * pyval)))
    : res (list (str * pyval)) :=
    match cs with
    | [] => r
    | c :: rest =>
        match alist_get str_eqb i c with
        | Some ic =>
            let r' := addps st r ic in
            if legacy_break cf then r' else get_all_named st rest i r'
        | None => get_all_named st rest i r
        end
    end.

  Definition get_all_any (st : state) (cs : list cache) : res (list (str * pyval)) :=
    fold_left (fun r c => fold_left (fun r ic => addps st r (snd ic)) c r) cs (Ok []).

  Definition get_all (st : state) (i : str) : res (list (str * pyval)) :=
    if nonempty i then get_all_named st caches i (Ok []) else get_all_any st caches.

  Definition wire_dict (d : list (str * pyval)) : res (list (str * (str * pyval))) :=
    map_res (fun nv => do x <- wire_variant (snd nv); Ok (fst nv, x)) d.

  Definition prop_get_all (st : state) (i : str) : reply :=
    match (do d <- get_all st i; wire_dict d) with
    | Ok d => RDict d
    | Err _ => RErr
    end.

  (* exportObject: table and handler first, then
     i = {}; for iface in getInterfaces(): i[iface.name] = getAllProperties(iface.name);
     InterfacesAdded is marshalled and sent *)
  Definition export (c : nat) (st : state) : state * reply * list signal :=
    let st' := mkS (s_vals st) (c :: s_exps st) (Some c) (Nat.max (s_built st) (length bs)) in
    match fold_left (fun acc i => do d0 <- acc; do d <- get_all st' i; do w <- wire_dict d;
                                  Ok (alist_set str_eqb i w d0)) inames (Ok []) with
    | Ok d => (st', RNone, [SigAdded c d])
    | Err _ => (st', RRaise, [])
    end.

  (* unexportObject: o = self.exports[path] (KeyError), del, InterfacesRemoved with the
     interface names; the object's _objectHandler is not touched *)
  Definition unexport (c : nat) (st : state) : state * reply * list signal :=
    if exp_on st c then
      (mkS (s_vals st) (filter (fun x => negb (Nat.eqb x c)) (s_exps st)) (s_handler st) (s_built st),
       RNone, [SigRemoved c inames])
    else (st, RRaise, []).

  (* a call arriving on connection c reaches the object iff handler_c.exports holds it
     (UnknownObject error reply otherwise) *)
  Definition step (st : state) (o : op) : state * reply * list signal :=
    match o with
    | OAssign a v => let '(st', ok, sigs) := assign st a v in (st', if ok then RNone else RRaise, sigs)
    | OExport c => export c st
    | OUnexport c => unexport c st
    | OGet c i n => if exp_on st c then (all_built st, prop_get st i n, []) else (st, RErr, [])
    | OSet c i n v => if exp_on st c then prop_set (all_built st) i n v else (st, RErr, [])
    | OGetAll c i => if exp_on st c then (all_built st, prop_get_all st i, []) else (st, RErr, [])
    end.

  Fixpoint run_from (st : state) (h : list op) : state :=
    match h with
    | [] => st
    | o :: r => run_from (fst (fst (step st o))) r
    end.

  Definition run (h : list op) : state := run_from init h.

  (* the observations of a whole history, in order *)
  Fixpoint trace_from (st : state) (h : list op) : list (reply * list signal) :=
    match h with
    | [] => []
    | o :: r => let '(st', rp, sg) := step st o in (rp, sg) :: trace_from st' r
    end.
End Step.

Definition iface_names (h : hier) : list str := map i_name (get_interfaces h).
