(* Harness entry point for C16.

   (16 kinds events qpaths every)
     kinds  = ((iface ...) ...)        iface = (name props); props is passed through unread;
                                       an object's identity tag is the index of its kind
     events = ((0 path kind) | (1 path) ...)
     qpaths = (path ...)               paths queried
     every  = 0/1                      query after every step, or only after the last one

   -> one entry per step: (signal announce queries)
        signal   = (1 0 hdr_path body_path ((name props) ...)) | (1 1 hdr_path body_path (name ...)) | (0 errcode)
        announce = () | (0 path id) | (1 path id)               from Spec/PathTree.v
        queries  = () | one entry per queried path:
                   (plain introspect introspect_legacy managed managed_legacy
                    (bound introspectable (child ...) ((path id) ...)))   last group from the spec
        reply    = (0) UnknownObject | (1 id path) dispatched | (2 has_obj (child ...))
                 | (3 ((path ((name props) ...)) ...)) | (4 errcode)                                  *)
From Tx Require Import Lib.Base.
From Tx Require Import Lib.Sexp.
From Tx Require Import Model.Validators.
From Tx Require Import Model.ObjTree.
From Tx Require Import Spec.PathTree.
Local Open Scope Z_scope.

(* How a history of the model is read by the specification: the text of each
   path becomes its element list.  Used by the harness oracle below and by
   the theorems of Props/C16.v. *)
Section Abs.
  Variable P : Type.

  Definition abs_event (e : event P) : sevent (obj P) :=
    match e with
    | EExport o => SExport (comps (o_path o)) o
    | EUnexport p => SUnexport (comps p)
    end.

  (* histories over well-formed object paths *)
  Definition valid_event (e : event P) : Prop :=
    match e with
    | EExport o => validate_path (o_path o) = true
    | EUnexport p => validate_path p = true
    end.

  Definition valid_history (h : list (event P)) : Prop := Forall valid_event h.

  (* the specification's tree after the history *)
  Definition tree_of (h : list (event P)) : tree (obj P) := s_run (map abs_event h).
End Abs.

Definition PD : Type := sexp.     (* property dictionaries are passed through unread *)

Definition dec_iface (s : sexp) : option (str * PD) :=
  match s with
  | SList [n; p] => match as_str n with Some n' => Some (n', p) | None => None end
  | _ => None
  end.

Definition dec_kind (s : sexp) : option (list (str * PD)) :=
  match as_list s with Some l => map_opt dec_iface l | None => None end.

Definition dec_event (kinds : list (list (str * PD))) (s : sexp) : option (event PD) :=
  match s with
  | SList [SNum 0; p; SNum k] =>
      match as_str p, nth_error kinds (Z.to_nat k) with
      | Some p', Some ifs => Some (EExport (mkObj (Z.to_N k) p' ifs))
      | _, _ => None
      end
  | SList [SNum 1; p] => option_map EUnexport (as_str p)
  | _ => None
  end.

Definition enc_ifaces (d : list (str * PD)) : sexp :=
  SList (map (fun np => SList [sstr (fst np); snd np]) d).

Definition enc_signal (r : res (signal PD)) : sexp :=
  match r with
  | Ok (SigAdded hp bp d) => SList [SNum 1; SNum 0; sstr hp; sstr bp; enc_ifaces d]
  | Ok (SigRemoved hp bp ns) => SList [SNum 1; SNum 1; sstr hp; sstr bp; SList (map sstr ns)]
  | Err e => SList [SNum 0; SNum (err_code e)]
  end.

Definition enc_reply (r : reply PD) : sexp :=
  match r with
  | RUnknownObject => SList [SNum 0]
  | RDispatch o => SList [SNum 1; sN (o_id o); sstr (o_path o)]
  | RIntrospect b m => SList [SNum 2; sbool b; SList (map sstr m)]
  | RManaged d => SList [SNum 3; SList (map (fun pd => SList [sstr (fst pd); enc_ifaces (snd pd)]) d)]
  | RRaise e => SList [SNum 4; SNum (err_code e)]
  end.

Definition sev : event PD -> sevent (obj PD) := abs_event PD.

Definition enc_announce (a : option (announce (obj PD))) : sexp :=
  match a with
  | None => SList []
  | Some (Added p o) => SList [SNum 0; sstr (render p); sN (o_id o)]
  | Some (Removed p o) => SList [SNum 1; sstr (render p); sN (o_id o)]
  end.

Definition enc_query (s : exports PD) (t : tree (obj PD)) (dom : list path) (q : str) : sexp :=
  let qp := comps q in
  SList [ enc_reply (handle CPlain q s);
          enc_reply (handle CIntrospect q s);
          enc_reply (handle_legacy CIntrospect q s);
          enc_reply (handle CManaged q s);
          enc_reply (handle_legacy CManaged q s);
          SList [ sopt (fun o => SList [sN (o_id o); sstr (o_path o)]) (t qp);
                  sbool (x_introspectable t dom qp);
                  SList (map sstr (x_children t dom qp));
                  SList (map (fun qo => SList [sstr (render (fst qo)); sN (o_id (snd qo))])
                             (x_managed t dom qp)) ] ].

Fixpoint go (every : bool) (qpaths : list str) (s : exports PD) (t : tree (obj PD)) (dom : list path)
            (h : list (event PD)) : list sexp :=
  match h with
  | [] => []
  | e :: h' =>
      let '(s', r) := step s e in
      let se := sev e in
      let a := s_announce t se in
      let t' := s_step t se in
      let dom' := sevent_path se :: dom in
      let qs := if every || match h' with [] => true | _ => false end
                then SList (map (enc_query s' t' dom') qpaths) else SList [] in
      SList [enc_signal r; enc_announce a; qs] :: go every qpaths s' t' dom' h'
  end.

Definition op (args : list sexp) : sexp :=
  match args with
  | [kinds; events; qpaths; every] =>
      match as_list kinds, as_list events, as_list qpaths, as_bool every with
      | Some ks, Some es, Some qs, Some ev =>
          match map_opt dec_kind ks, map_opt as_str qs with
          | Some kinds', Some qpaths' =>
              match map_opt (dec_event kinds') es with
              | Some h => SList (go ev qpaths' [] empty [] h)
              | None => bad
              end
          | _, _ => bad
          end
      | _, _, _, _ => bad
      end
  | _ => bad
  end.
