(* The DBUS_COOKIE_SHA1 keyring file shared by all connections of one bus process
   (BusCookieAuthenticator.cookieContext contains the pid only), and the cookie
   exchanges of several connections interleaved over it.  Mirrors

     _create_cookie   id = 1 + the largest id in the file (1 for an empty file),
                      the new line "id time cookie" is appended
     _delete_cookie   the first line whose id equals self.cookieId is removed
                      (the file itself when nothing is left)
     _step_two        delete, forget the id (repair D10b), compare the hash
     cancel()         delete if an id is still held
     ClientAuthenticator._authGetDBusCookie
                      the cookie of the FIRST line whose id is the one announced

   The file is the list of its lines (id, cookie); all entries are younger than
   the 30 s after which _get_cookies drops them ("within the cookie lifetime").
   A connection takes part in at most one exchange at a time (a new mechanism
   object is only created in WaitingForAuth, which is entered through reject(),
   i.e. after cancel()); a connection that is lost in mid-exchange never deletes
   its cookie ([Drop]).  Definitions only. *)
From Tx Require Import Lib.Base Model.AuthText Model.AuthServer.
Local Open Scope N_scope.

Definition kstore := list (N * bytes).

Definition ids (st : kstore) : list N := map fst st.

(* _create_cookie's id: the same computation as in Model/AuthServer.v *)
Definition alloc_max (st : kstore) : N := next_id (ids st).

(* the seeded variant  cookie_id = len(cookies) + 1  (for the refutation only) *)
Definition alloc_len (st : kstore) : N := N.of_nat (length st) + 1.

Fixpoint delete_id (i : N) (st : kstore) : kstore :=
  match st with
  | [] => []
  | (j, k) :: r => if j =? i then r else (j, k) :: delete_id i r
  end.

Fixpoint lookup (i : N) (st : kstore) : option bytes :=
  match st with
  | [] => None
  | (j, k) :: r => if j =? i then Some k else lookup i r
  end.

(* what a mechanism object in mid-exchange holds: cookieId, cookie, challenge_str *)
Record exch := { x_id : N; x_cookie : bytes; x_chal : bytes }.

Record sys := {
  k_store : kstore;
  k_held : nat -> option exch;     (* per connection *)
  k_made : nat                     (* cookies created so far *)
}.

Inductive sev :=
| Start (c : nat)                  (* AUTH DBUS_COOKIE_SHA1 <user>: _step_one succeeds *)
| Finish (c : nat) (resp : bytes)  (* DATA <response>: _step_two *)
| Cancel (c : nat)                 (* CANCEL / ERROR: reject() -> cancel() *)
| Drop (c : nat).                  (* the connection is lost; nothing is cleaned up *)

Definition upd (f : nat -> option exch) (c : nat) (v : option exch) : nat -> option exch :=
  fun c' => if Nat.eqb c' c then v else f c'.

Section Sys.
  Variable alloc : kstore -> N.
  Variable cookie : nat -> bytes.        (* hexlify(os.urandom(24)) at the n-th creation *)
  Variable chal : nat -> bytes.
  Variable sha1hex : bytes -> bytes.

  (* the hash comparison of _step_two *)
  Definition check (x : exch) (resp : bytes) : verdict :=
    match split_ws resp with
    | [cc; h] =>
        if str_eqb (sha1hex (colon (x_chal x) (colon cc (x_cookie x)))) h then VOk else VReject
    | _ => VReject
    end.

  Definition step (s : sys) (e : sev) : sys * option verdict :=
    match e with
    | Start c =>
        match k_held s c with
        | Some _ => (s, None)
        | None =>
            let i := alloc (k_store s) in
            let x := {| x_id := i; x_cookie := cookie (k_made s); x_chal := chal (k_made s) |} in
            ({| k_store := k_store s ++ [(i, x_cookie x)]; k_held := upd (k_held s) c (Some x);
                k_made := S (k_made s) |}, None)
        end
    | Finish c resp =>
        match k_held s c with
        | None => (s, None)
        | Some x =>
            ({| k_store := delete_id (x_id x) (k_store s); k_held := upd (k_held s) c None;
                k_made := k_made s |},
             (* an empty file: os.unlink raises inside _step_two, step() answers REJECTED *)
             Some (match k_store s with [] => VReject | _ => check x resp end))
        end
    | Cancel c =>
        match k_held s c with
        | None => (s, None)
        | Some x =>
            ({| k_store := delete_id (x_id x) (k_store s); k_held := upd (k_held s) c None;
                k_made := k_made s |}, None)
        end
    | Drop c =>
        ({| k_store := k_store s; k_held := upd (k_held s) c None; k_made := k_made s |}, None)
    end.

  Fixpoint run (s : sys) (evs : list sev) : sys :=
    match evs with
    | [] => s
    | e :: r => run (fst (step s e)) r
    end.

  (* the same, keeping what can be observed after each event: the ids in the file
     and, for Finish, the verdict *)
  Fixpoint observe (s : sys) (evs : list sev) : list (list N * option verdict) :=
    match evs with
    | [] => []
    | e :: r => let (s', v) := step s e in (ids (k_store s'), v) :: observe s' r
    end.

  Definition sys0 (st : kstore) : sys :=
    {| k_store := st; k_held := fun _ => None; k_made := 0 |}.

  (* the response of a conforming client that was given the challenge of exchange x
     and looks the announced id up in the keyring as it is now *)
  Definition client_response (st : kstore) (x : exch) (cc : bytes) : bytes :=
    let k := match lookup (x_id x) st with Some k => k | None => [] end in
    sp cc (sha1hex (colon (x_chal x) (colon cc k))).
End Sys.
