(* Harness entry point for C14:
     (14 (<event> ...))
   event ::= (0 <msg>)        a new connection's first message
           | (1 <c> <msg>)    a further message of connection number c
           | (2 <c>)          connection c is lost
   msg   ::= (le type flags serial path iface member error_name reply_serial dest sender sig "body" args rs_signed)
             path iface member error_name dest sender sig : () | (str);  reply_serial : () | (n)
             args : () | ((arg ...)),  arg ::= (0 str) | (1 number)
   Answer: ((<out> ...) (<out> ...) ((<owed> ...) ...))      model, pre-repair model, specification
   out      ::= (named (<write> ...) close)     named : () | (c);  close : 0|1
   write    ::= (c 0 <msg>) forwarded | (c 1 serial <answer>) reply of the bus | (c 2 <signal>) signal of the bus
   answer   ::= (0 <reply of OpsC13>) | (1) empty return | (2) error | (3) one reply of either kind
   owed     ::= (c <msg>) *)
From Tx Require Import Lib.Base Lib.Sexp Model.BusNames Spec.NameSpec Model.BusRoute Spec.BusRouteSpec.
From Tx Require Model.Router Model.OpsC12 Model.OpsC13.
Local Open Scope Z_scope.

Definition dec_on (s : sexp) : option (option N) := as_opt as_N s.

Definition dec_bmsg (s : sexp) : option bmsg :=
  match s with
  | SList [le; SNum t; SNum fl; SNum ser; p; i; mb; en; rs; d; sd; sg; SBytes body; args; rsg] =>
      match as_bool le, OpsC12.dec_ostr p, OpsC12.dec_ostr i, OpsC12.dec_ostr mb, OpsC12.dec_ostr en with
      | Some le', Some p', Some i', Some mb', Some en' =>
          match dec_on rs, OpsC12.dec_ostr d, OpsC12.dec_ostr sd, OpsC12.dec_ostr sg, OpsC12.dec_body args, as_bool rsg with
          | Some rs', Some d', Some sd', Some sg', Some args', Some rsg' =>
              Some (mkB le' (Z.to_N t) (Z.to_N fl) (Z.to_N ser) p' i' mb' en' rs' d' sd' sg' body args' rsg')
          | _, _, _, _, _, _ => None
          end
      | _, _, _, _, _ => None
      end
  | _ => None
  end.

Definition enc_bmsg (m : bmsg) : sexp :=
  SList [ sbool (g_le m); sN (g_type m); sN (g_flags m); sN (g_serial m);
          sopt sstr (g_path m); sopt sstr (g_interface m); sopt sstr (g_member m); sopt sstr (g_error_name m);
          sopt sN (g_reply_serial m); sopt sstr (g_destination m); sopt sstr (g_sender m);
          sopt sstr (g_signature m); SBytes (g_body m);
          sopt (fun l => SList (map OpsC12.enc_arg l)) (g_args m); sbool (g_rs_signed m) ].

Definition dec_event (s : sexp) : option event :=
  match s with
  | SList [SNum 0; m] => option_map EFirst (dec_bmsg m)
  | SList [SNum 1; SNum c; m] => option_map (ESend (Z.to_N c)) (dec_bmsg m)
  | SList [SNum 2; SNum c] => Some (EDisconnect (Z.to_N c))
  | _ => None
  end.

Definition enc_answer (a : answer) : sexp :=
  match a with
  | AName r => SList [SNum 0; OpsC13.sreply r]
  | AOk => SList [SNum 1]
  | AErr => SList [SNum 2]
  | AAny => SList [SNum 3]
  end.

Definition enc_write (w : client * delivery) : sexp :=
  match snd w with
  | DFwd m => SList [sN (fst w); SNum 0; enc_bmsg m]
  | DReply n a => SList [sN (fst w); SNum 1; sN n; enc_answer a]
  | DSignal s => SList [sN (fst w); SNum 2; OpsC13.ssignal s]
  end.

Definition enc_out (o : rout) : sexp :=
  SList [sopt sN (d_named o); SList (map enc_write (d_deliv o)); sbool (d_close o)].

Definition enc_owed (l : list (client * bmsg)) : sexp :=
  SList (map (fun x => SList [sN (fst x); enc_bmsg (snd x)]) l).

Definition op (args : list sexp) : sexp :=
  match args with
  | [SList es] =>
      match map_opt dec_event es with
      | None => bad
      | Some h =>
          SList [ SList (map enc_out (snd (run h)));
                  SList (map enc_out (snd (run_legacy h)));
                  SList (map enc_owed (snd (srun h))) ]
      end
  | _ => bad
  end.
