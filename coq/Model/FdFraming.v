(* Faithful model of UNIX file descriptor passing in txdbus (property C20), ON TOP
   of the framing model (Model/Framing.v, property C04) and the message / marshal
   models (Model/Message.v, Model/Marshal.v).  Definitions only.

   What is mirrored
   - protocol.py  BasicDBusProtocol.fileDescriptorReceived   queue _receivedFDs
                  BasicDBusProtocol.rawDBusMessageReceived   parse with the queue,
                      drop unix_fds entries, dispatch to the four callbacks
                  BasicDBusProtocol.sendMessage              sendFileDescriptor for every
                      entry of msg.oobFDs, THEN transport.write(rawMessage)
   - message.py   parseMessage(rawMessage, oobFDs)           [parse_message_fd]
   - client.py    callRemote: MethodCallMessage(..., oobFDs=[]) then sendMessage
   marshal_unix_fd / unmarshal_unix_fd and DBusMessage._marshal (the unix_fds
   header) are already in Model/Marshal.v (m_unix_fd, u_one 'h') and
   Model/Message.v (marshal_body, header_list).

   The CURRENT model describes the tree with the repair
     fixes/D60-descriptor-argument-own-message-only.patch
   (parseMessage hands the body decoder only the first unix_fds entries of the
   queue).  Before it, the body decoder saw the whole queue: [legacy = true].

   Descriptors are opaque Python values (pyval); the harness uses integers.
   Python exceptions escaping rawDBusMessageReceived escape dataReceived: Twisted
   drops the connection ([Dropped]; nothing is delivered afterwards). *)
From Tx Require Import Lib.Base Model.PyVal Model.Marshal Model.Message Model.Framing.
Local Open Scope N_scope.

(* ------------------------------------------------------------------------ *)
(* Python slices of the descriptor queue                                      *)

(* the value used as a slice bound: None (no bound), an int / bool; anything
   else raises TypeError (slice indices must be integers or None) *)
Definition bound_of (v : pyval) : res (option Z) :=
  match v with
  | PNone => Ok None
  | PInt z => Ok (Some z)
  | PBool b => Ok (Some (if b then 1 else 0)%Z)
  | PWrap _ (PInt z) => Ok (Some z)
  | _ => Err EType
  end.

(* l[:z]   (negative z counts from the end; out-of-range bounds are clipped to
   [0, len(l)] - done before converting to nat so that a bound of 2^32 costs nothing) *)
Definition clip (l : list pyval) (z : Z) : nat :=
  let n := Z.of_nat (length l) in
  Z.to_nat (Z.max 0 (Z.min n (if (z <? 0)%Z then n + z else z)%Z)).

Definition slice_to (l : list pyval) (b : option Z) : list pyval :=
  match b with
  | None => l
  | Some z => firstn (clip l z) l
  end.

(* l[z:] *)
Definition slice_from (l : list pyval) (b : option Z) : list pyval :=
  match b with
  | None => l
  | Some z => skipn (clip l z) l
  end.

(* ------------------------------------------------------------------------ *)
(* message.parseMessage(rawMessage, oobFDs)                                    *)

(* the list the body decoder is given:
     if oobFDs is not None: oobFDs = oobFDs[:getattr(m, 'unix_fds', 0)]
   ([legacy]: the list as received) *)
Definition body_fds (legacy : bool) (attrs : list (attr * pyval)) (fds : fdst) : res fdst :=
  if legacy then Ok fds
  else
    match fds with
    | None => Ok None
    | Some l =>
        match get_attr AUnixFds attrs with
        | None => Ok (Some [])
        | Some v => do b <- bound_of v; Ok (Some (slice_to l b))
        end
    end.

(* the same function as Message.parse_message false, except for the list handed
   to the body decoder ([parse_message_fd true] IS [parse_message false], see
   Proofs/FdProofs.v) *)
Definition parse_message_fd (legacy : bool) (fuel : nat) (raw : bytes) (fds : fdst) : res parsed :=
  match raw with
  | [] => Err EIndex
  | b0 :: _ =>
      let le := b0 =? 108 in
      do r <- m_unmarshal fuel header_format raw 0 le fds;
      let '(nheader, hval) := r in
      match hval with
      | [_; PInt mt; PInt flags; _; _; PInt serial; PList fields] =>
          if negb ((1 <=? mt) && (mt <=? 4))%Z then Err EMarshal
          else
            let npad := pad_len 8 nheader in
            let raw_body := skipn (N.to_nat (N.min (nheader + npad) (len raw))) raw in
            do attrs <- set_fields fields [];
            let er := Z.even flags in
            let au := Z.even (flags / 2) in
            match get_attr ASignature attrs with
            | Some sv =>
                if truthy sv then
                  do bf <- body_fds legacy attrs fds;
                  match sv with
                  | PStr sig =>
                      do rb <- m_unmarshal fuel sig raw_body 0 le bf;
                      let '(_, body) := rb in
                      Ok (Z.to_N mt, serial, er, au, attrs, Some body)
                  | _ => Err EType
                  end
                else Ok (Z.to_N mt, serial, er, au, attrs, None)
            | None => Ok (Z.to_N mt, serial, er, au, attrs, None)
            end
      | _ => Err EOther
      end
  end.

(* ------------------------------------------------------------------------ *)
(* BasicDBusProtocol.rawDBusMessageReceived(rawMsg) with _receivedFDs = q:
   the message handed to methodCallReceived / methodReturnReceived /
   errorReceived / signalReceived (parseMessage only returns types 1..4) and
   the queue afterwards:
     if hasattr(m, 'unix_fds'): self._receivedFDs = self._receivedFDs[m.unix_fds:] *)
Definition raw_received (legacy : bool) (fuel : nat) (raw : bytes) (q : list pyval)
  : res (parsed * list pyval) :=
  do p <- parse_message_fd legacy fuel raw (Some q);
  let '(_, _, _, _, attrs, _) := p in
  match get_attr AUnixFds attrs with
  | None => Ok (p, q)
  | Some v => do b <- bound_of v; Ok (p, slice_from q b)
  end.

(* ------------------------------------------------------------------------ *)
(* The receiving connection: framing state + descriptor queue.                *)

Inductive input :=
| Fd (v : pyval)          (* fileDescriptorReceived(v) *)
| Read (b : bytes).       (* dataReceived(b) *)

Inductive out :=
| Deliver (p : parsed)    (* one of the four callbacks was called with this message *)
| Dropped                 (* an exception escaped rawDBusMessageReceived (hence dataReceived) *)
| Other (e : event).      (* what framing reports besides messages (Line, AuthOk, Close, Crash, Fuel) *)

(* rawDBusMessageReceived is called from inside dataReceived's loop, once per
   [Msg] event and in that order; the first exception ends the loop *)
Fixpoint deliver_all (legacy : bool) (fuel : nat) (evs : list event) (q : list pyval)
  : list out * list pyval * bool :=
  match evs with
  | [] => ([], q, false)
  | Msg raw :: r =>
      match raw_received legacy fuel raw q with
      | Ok (p, q') =>
          let '(o, q'', dead) := deliver_all legacy fuel r q' in (Deliver p :: o, q'', dead)
      | Err _ => ([Dropped], q, true)
      end
  | e :: r =>
      let '(o, q', dead) := deliver_all legacy fuel r q in (Other e :: o, q', dead)
  end.

Section Conn.
  Context {A : Type}.
  Variable astep : A -> bytes -> A * ares.
  Variable maxl : N.
  Variable legacy : bool.
  Variable fuel : nat.               (* interpreter recursion available to parseMessage *)

  Record conn := mkConn {
    c_st : st A;                     (* framing state (Model/Framing.v) *)
    c_q : list pyval;                (* _receivedFDs *)
    c_dead : bool                    (* connection dropped after an escaped exception *)
  }.

  Definition step (c : conn) (i : input) : conn * list out :=
    if c_dead c || s_closed (c_st c) then (c, [])
    else
      match i with
      | Fd v => (mkConn (c_st c) (c_q c ++ [v]) false, [])
      | Read b =>
          let '(s', evs) := recv astep maxl (c_st c) b in
          let '(o, q', dead) := deliver_all legacy fuel evs (c_q c) in
          (mkConn s' q' dead, o)
      end.

  Fixpoint run_conn (c : conn) (ins : list input) : conn * list out :=
    match ins with
    | [] => (c, [])
    | i :: r =>
        let '(c1, o1) := step c i in
        let '(c2, o2) := run_conn c1 r in
        (c2, o1 ++ o2)
    end.

  (* an authenticated connection with nothing buffered and nothing queued
     (connectionMade sets _receivedFDs = []) *)
  Definition ready (client : bool) (a : A) : conn :=
    mkConn (mkSt client false true [] 0 false false a) [] false.

  (* a connection right after connectionMade: handshake not yet started, nothing
     buffered, _receivedFDs = [].  Descriptors may arrive from now on: the line
     phase of dataReceived never touches the queue, setAuthenticationSucceeded
     keeps it *)
  Definition fresh (client : bool) (a : A) : conn := mkConn (init client a) [] false.

  (* what is observable at the end: callbacks in order, the queue, the bytes
     not yet framed (None once the connection is closing / dropped) *)
  Definition run_fd (client : bool) (a : A) (ins : list input)
    : list out * list pyval * option bytes :=
    let '(c, o) := run_conn (ready client a) ins in
    (o, c_q c, if c_dead c then None else residual (c_st c)).

  (* the same from the start of the connection (handshake included) *)
  Definition run_start (client : bool) (a : A) (ins : list input)
    : list out * list pyval * option bytes :=
    let '(c, o) := run_conn (fresh client a) ins in
    (o, c_q c, if c_dead c then None else residual (c_st c)).
End Conn.

Arguments mkConn {A}.
Arguments conn : clear implicits.

(* ------------------------------------------------------------------------ *)
(* The sending side                                                           *)

Inductive tcall :=
| SendFd (v : pyval)      (* transport.sendFileDescriptor(v) *)
| Write (b : bytes).      (* transport.write(b) *)

(* BasicDBusProtocol.sendMessage(msg): msg.oobFDs (absent / None / a list) and
   msg.rawMessage *)
Definition send_message (oob : fdst) (raw : bytes) : list tcall :=
  match oob with
  | Some l => map SendFd l
  | None => []
  end ++ [Write raw].

(* DBusClientConnection.callRemote: MethodCallMessage(..., oobFDs=[]) followed
   by sendMessage; the transport calls made, and the serial counter *)
Definition call_remote (fuel : nat) (expect_reply auto_start : bool)
           (attrs : list (attr * pyval)) (body : pyval) (next : Z)
  : res (list tcall) * Z :=
  match construct_st false fuel 1 expect_reply auto_start attrs body next (Some []) with
  | (Ok (h, p, b, oob), next') => (Ok (send_message oob (h ++ p ++ b)), next')
  | (Err e, next') => (Err e, next')
  end.
