(* Model of txdbus/marshal.py genCompleteTypes (lines 349-393): the generator
   that splits a signature into its top-level single complete types.

   Python                                   model
   ------                                   -----
   find_end(idx, b, e)                      find_end b e depth s   (s = compoundSig[idx:], result
                                            relative to idx; None when the while loop falls off
                                            the end and the function returns None)
   one iteration of the outer while loop    gct_next s  (s = compoundSig[i:]): the complete type
                                            yielded and the remaining text, Ok None at the end
   the whole generator, fully consumed      gen_complete_types s

   Exceptions: an unterminated container makes Python evaluate `None + 1`
   (TypeError -> Err EType); 'a' with nothing after it makes next(g) raise
   StopIteration (RuntimeError inside a generator -> Err EStop).  Every other
   character - including ')' and '}' and characters that are no type code -
   is yielded as a one-character type, exactly as the final `else` does.

   The callers modelled here (interface.py) always consume the generator
   completely, so its laziness is not represented.  The iteration over the
   remaining text is not structural, hence fuel; gen_complete_types supplies
   S (length s), which Proofs/SigSplitProofs.v shows is always enough. *)
From Tx Require Import Lib.Base.
Local Open Scope N_scope.

Fixpoint find_end (b e : N) (depth : Z) (s : str) : option nat :=
  match s with
  | [] => None
  | c :: r =>
      if c =? b then option_map S (find_end b e (depth + 1) r)
      else if c =? e then
        let d := (depth - 1)%Z in
        if (d =? 0)%Z then Some O else option_map S (find_end b e d r)
      else option_map S (find_end b e depth r)
  end.

Definition c_lparen : N := 40.
Definition c_rparen : N := 41.
Definition c_lbrace : N := 123.
Definition c_rbrace : N := 125.
Definition c_a : N := 97.

Definition container (b e : N) (c : N) (r : str) : res (option (str * str)) :=
  match find_end b e 1 r with
  | None => Err EType                                   (* None + 1 *)
  | Some x => Ok (Some (c :: firstn (S x) r, skipn (S x) r))
  end.

Fixpoint gct_next (s : str) : res (option (str * str)) :=
  match s with
  | [] => Ok None
  | c :: r =>
      if c =? c_lparen then container c_lparen c_rparen c r
      else if c =? c_lbrace then container c_lbrace c_rbrace c r
      else if c =? c_a then
        match gct_next r with
        | Err e => Err e
        | Ok None => Err EStop                          (* next(g) on an exhausted generator *)
        | Ok (Some (ct, rest)) => Ok (Some (c :: ct, rest))
        end
      else Ok (Some ([c], r))
  end.

Fixpoint gct_all (fuel : nat) (s : str) : res (list str) :=
  match fuel with
  | O => Err EFuel
  | S f =>
      match gct_next s with
      | Err e => Err e
      | Ok None => Ok []
      | Ok (Some (ct, rest)) => do l <- gct_all f rest; Ok (ct :: l)
      end
  end.

Definition gen_complete_types (s : str) : res (list str) := gct_all (S (length s)) s.
