(* Python values as the marshalling code sees them, with the class lattice
   sigFromPy's isinstance tests depend on. *)
From Tx Require Import Lib.Base Lib.Sexp.
Local Open Scope N_scope.

Inductive pyval :=
| PInt (z : Z)                          (* int *)
| PBool (b : bool)                      (* bool (subclass of int) *)
| PFloat (bits : N)                     (* float, as its IEEE-754 binary64 pattern *)
| PStr (s : bytes)                      (* str, as its UTF-8 encoding (see Marshal.v header) *)
| PBytes (b : bytes)                    (* bytearray *)
| PList (l : list pyval)
| PTuple (l : list pyval)
| PDict (l : list (pyval * pyval))      (* insertion-ordered *)
| PObj (l : list pyval)                 (* object declaring dbusOrder: the attribute values in that order *)
| PWrap (code : N) (v : pyval)          (* marshal.Byte/Boolean/Int16/.../Signature/ObjectPath instance *)
| PNone.

(* Python classes relevant to isinstance(v, type(first)) *)
Inductive pyclass :=
| CInt | CBool | CWrapInt (code : N) | CFloat | CStr | CWrapStr (code : N)
| CBytes | CList | CTuple | CDict | CObj | CNone.

Definition wrap_is_str (code : N) : bool := (code =? 103) || (code =? 111).  (* 'g' 'o' *)

Definition class_of (v : pyval) : pyclass :=
  match v with
  | PInt _ => CInt | PBool _ => CBool | PFloat _ => CFloat | PStr _ => CStr
  | PBytes _ => CBytes | PList _ => CList | PTuple _ => CTuple | PDict _ => CDict
  | PObj _ => CObj | PNone => CNone
  | PWrap code _ => if wrap_is_str code then CWrapStr code else CWrapInt code
  end.

(* issubclass(c, d) *)
Definition subclass (c d : pyclass) : bool :=
  match c, d with
  | CInt, CInt | CBool, CBool | CFloat, CFloat | CStr, CStr | CBytes, CBytes
  | CList, CList | CTuple, CTuple | CDict, CDict | CObj, CObj | CNone, CNone => true
  | CBool, CInt => true
  | CWrapInt _, CInt => true
  | CWrapStr _, CStr => true
  | CWrapInt a, CWrapInt b => a =? b
  | CWrapStr a, CWrapStr b => a =? b
  | _, _ => false
  end.

(* the plain value a wrapper instance behaves as *)
Definition unwrap (v : pyval) : pyval := match v with PWrap _ x => x | _ => v end.

(* bool(v) *)
Definition truthy (v : pyval) : bool :=
  match unwrap v with
  | PInt z => negb (Z.eqb z 0)
  | PBool b => b
  | PFloat bits => negb ((bits =? 0) || (bits =? 9223372036854775808))
  | PStr s => negb (match s with [] => true | _ => false end)
  | PBytes s => negb (match s with [] => true | _ => false end)
  | PList l | PTuple l => negb (match l with [] => true | _ => false end)
  | PDict l => negb (match l with [] => true | _ => false end)
  | PObj _ => true
  | PWrap _ _ => true
  | PNone => false
  end.

(* --- s-expression coding -------------------------------------------------- *)

Fixpoint pv_to_sexp (v : pyval) : sexp :=
  match v with
  | PInt z => SList [SNum 0; SNum z]
  | PBool b => SList [SNum 1; sbool b]
  | PFloat bits => SList [SNum 2; sN bits]
  | PStr s => SList [SNum 3; SBytes s]
  | PBytes s => SList [SNum 4; SBytes s]
  | PList l => SList [SNum 5; SList (map pv_to_sexp l)]
  | PTuple l => SList [SNum 6; SList (map pv_to_sexp l)]
  | PDict l => SList [SNum 7; SList (map (fun kv => SList [pv_to_sexp (fst kv); pv_to_sexp (snd kv)]) l)]
  | PObj l => SList [SNum 8; SList (map pv_to_sexp l)]
  | PWrap c x => SList [SNum 9; sN c; pv_to_sexp x]
  | PNone => SList [SNum 10]
  end.

Fixpoint pv_of_sexp (s : sexp) : option pyval :=
  match s with
  | SList [SNum 0; SNum z] => Some (PInt z)
  | SList [SNum 1; SNum z] => Some (PBool (negb (Z.eqb z 0)))
  | SList [SNum 2; SNum z] => Some (PFloat (Z.to_N z))
  | SList [SNum 3; SBytes b] => Some (PStr b)
  | SList [SNum 4; SBytes b] => Some (PBytes b)
  | SList [SNum 5; SList l] => option_map PList (map_opt pv_of_sexp l)
  | SList [SNum 6; SList l] => option_map PTuple (map_opt pv_of_sexp l)
  | SList [SNum 7; SList l] =>
      option_map PDict
        (map_opt (fun kv => match kv with
                            | SList [k; v] =>
                                match pv_of_sexp k, pv_of_sexp v with
                                | Some k', Some v' => Some (k', v')
                                | _, _ => None
                                end
                            | _ => None
                            end) l)
  | SList [SNum 8; SList l] => option_map PObj (map_opt pv_of_sexp l)
  | SList [SNum 9; SNum c; x] => option_map (PWrap (Z.to_N c)) (pv_of_sexp x)
  | SList [SNum 10] => Some PNone
  | _ => None
  end%Z.

(* number of constructors: a generous bound on recursion depth through a value *)
Fixpoint pv_size (v : pyval) : nat :=
  match v with
  | PList l | PTuple l | PObj l => S (fold_right (fun x n => (pv_size x + n)%nat) 0%nat l)
  | PDict l => S (fold_right (fun kv n => (pv_size (fst kv) + pv_size (snd kv) + n)%nat) 0%nat l)
  | PWrap _ x => S (pv_size x)
  | _ => 1%nat
  end.
