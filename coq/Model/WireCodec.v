(* The concrete codec for Model/SystemBytes.v, from the model of txdbus/message.py
   (Model/Message.v):

     wire_enc m   the bytes DBusMessage._marshal writes for a message whose fields
                  are those of m and whose body is the raw body m carries
                  (rawMessage = rawHeader + rawPadding + rawBody): Message.marshal_header
                  on the header attributes of m - the message class's table decides
                  which are written; reply_serial goes out as UINT32 (marshal.UInt32);
     wire_dec raw the header part of message.parseMessage (Message.parse_message:
                  the same unmarshal of 'yyyyuua(yv)', the same field table), the
                  body kept as the raw bytes behind the padded header - as the bus
                  forwards it (rawBody) and as Model/System.v's handlers decode it
                  themselves ([decode_body]).

   Definitions only. *)
From Tx Require Import Lib.Base Model.PyVal Model.Marshal Model.Message.
From Tx Require Model.BusRoute Model.Framing Spec.FramingSpec Model.System.
Local Open Scope N_scope.

Definition ostr (o : option str) : pyval := match o with Some s => PStr s | None => PNone end.

Definition attrs_of (m : BusRoute.bmsg) : list (attr * pyval) :=
  [(APath, ostr (BusRoute.g_path m)); (AInterface, ostr (BusRoute.g_interface m));
   (AMember, ostr (BusRoute.g_member m)); (AErrorName, ostr (BusRoute.g_error_name m));
   (AReplySerial, match BusRoute.g_reply_serial m with Some n => PWrap 117 (PInt (Z.of_N n)) | None => PNone end);
   (ADestination, ostr (BusRoute.g_destination m)); (ASender, ostr (BusRoute.g_sender m));
   (ASignature, ostr (BusRoute.g_signature m))].

Definition wire_enc (fuel : nat) (m : BusRoute.bmsg) : bytes :=
  match marshal_header fuel (BusRoute.g_type m)
                       (negb (N.testbit (BusRoute.g_flags m) 0)) (negb (N.testbit (BusRoute.g_flags m) 1))
                       (attrs_of m) (BusRoute.g_body m) (Z.of_N (BusRoute.g_serial m)) None with
  | Ok (h, p, b, _) => h ++ p ++ b
  | Err _ => []
  end.

Definition field_str (a : attr) (attrs : list (attr * pyval)) : option str :=
  match get_attr a attrs with Some v => str_of v | None => None end.

Definition wire_dec (fuel : nat) (raw : bytes) : option BusRoute.bmsg :=
  match raw with
  | [] => None
  | b0 :: _ =>
      let le := b0 =? 108 in
      match m_unmarshal fuel header_format raw 0 le (Some []) with
      | Ok (nheader, [_; PInt mt; PInt flags; _; _; PInt serial; PList fields]) =>
          if negb ((1 <=? mt) && (mt <=? 4))%Z then None
          else
            match set_fields fields [] with
            | Ok attrs =>
                let npad := pad_len 8 nheader in
                let raw_body := skipn (N.to_nat (N.min (nheader + npad) (len raw))) raw in
                Some (BusRoute.mkB le (Z.to_N mt) (Z.to_N flags) (Z.to_N serial)
                                   (field_str APath attrs) (field_str AInterface attrs) (field_str AMember attrs)
                                   (field_str AErrorName attrs)
                                   (match get_attr AReplySerial attrs with
                                    | Some (PInt z) => Some (Z.to_N z)
                                    | _ => None
                                    end)
                                   (field_str ADestination attrs) (field_str ASender attrs)
                                   (field_str ASignature attrs) raw_body None false)
            | Err _ => None
            end
      | _ => None
      end
  end.

(* --- the two facts the byte-level theorems need of a codec, as a computation ------- *)
Definition ostr_eqb (a b : option str) : bool :=
  match a, b with Some x, Some y => str_eqb x y | None, None => true | _, _ => false end.

Definition bmsg_eqb (a b : BusRoute.bmsg) : bool :=
  Bool.eqb (BusRoute.g_le a) (BusRoute.g_le b) && (BusRoute.g_type a =? BusRoute.g_type b) &&
  (BusRoute.g_flags a =? BusRoute.g_flags b) && (BusRoute.g_serial a =? BusRoute.g_serial b) &&
  ostr_eqb (BusRoute.g_path a) (BusRoute.g_path b) && ostr_eqb (BusRoute.g_interface a) (BusRoute.g_interface b) &&
  ostr_eqb (BusRoute.g_member a) (BusRoute.g_member b) && ostr_eqb (BusRoute.g_error_name a) (BusRoute.g_error_name b) &&
  match BusRoute.g_reply_serial a, BusRoute.g_reply_serial b with
  | Some x, Some y => x =? y | None, None => true | _, _ => false end &&
  ostr_eqb (BusRoute.g_destination a) (BusRoute.g_destination b) && ostr_eqb (BusRoute.g_sender a) (BusRoute.g_sender b) &&
  ostr_eqb (BusRoute.g_signature a) (BusRoute.g_signature b) && str_eqb (BusRoute.g_body a) (BusRoute.g_body b) &&
  match BusRoute.g_args a, BusRoute.g_args b with None, None => true | _, _ => false end &&
  Bool.eqb (BusRoute.g_rs_signed a) (BusRoute.g_rs_signed b).


Section Check.
  Variable enc : BusRoute.bmsg -> bytes.
  Variable dec : bytes -> option BusRoute.bmsg.

  (* the encoding announces its own length (FramingSpec.wellframed) and parses back to the message *)
  Definition encodableb (m : BusRoute.bmsg) : bool :=
    (16 <=? FramingSpec.size (enc m)) && (FramingSpec.frame_total (enc m) =? FramingSpec.size (enc m)) &&
    match dec (enc m) with Some m' => bmsg_eqb m' m | None => false end.


  Definition net_okb (net : list (System.link * System.wire)) : bool := forallb (fun x => encodableb (System.w_msg (snd x))) net.

End Check.
