(* Faithful model of the client side of the DBus authentication handshake:
   txdbus/authentication.py  ClientAuthenticator  (one definition per method)
   txdbus/protocol.py        BasicDBusProtocol, client mode, line mode
                             (connectionMade, the per-line part of dataReceived).

   External behaviour enters as Section variables:
     user      getpass.getuser().encode('ascii')
     lookup    _authGetDBusCookie(context, id) (the file system under the keyring):
               None = it raised, Some None = it returned None (no such id),
               Some (Some c) = the cookie
     nonce     k |-> hexlify(sha1(os.urandom(8)).digest()) for the k-th call of os.urandom
     sha1hex   x |-> hexlify(sha1(x).digest())

   The current definitions describe the tree WITH the repairs D05 D06 D07 D08
   (fixes/D0x-*.patch); the behaviour of the unrepaired tree is kept as
   auth_AGREE_UNIX_FD_legacy, auth_ERROR_legacy, auth_DATA_legacy (with the
   cookie lookup that always raises, D07) and step_legacy.

   Definitions only. *)
From Tx Require Import Lib.Base Lib.Sexp.
Local Open Scope N_scope.

(* --- the bytes methods used by the code ----------------------------------- *)

(* bytes.strip() / bytes.split(): ASCII whitespace is space, \t \n \v \f \r *)
Definition is_ws (c : N) : bool := (c =? 32) || ((9 <=? c) && (c <=? 13)).

Fixpoint lstrip (l : bytes) : bytes :=
  match l with
  | [] => []
  | c :: r => if is_ws c then lstrip r else l
  end.

Fixpoint rstrip (l : bytes) : bytes :=
  match l with
  | [] => []
  | c :: r => match rstrip r with
              | [] => if is_ws c then [] else [c]
              | r' => c :: r'
              end
  end.

Definition strip (l : bytes) : bytes := rstrip (lstrip l).

(* data.split(): the maximal runs of non-whitespace *)
Fixpoint split_ws (l : bytes) : list bytes :=
  match l with
  | [] => []
  | c :: r =>
      if is_ws c then split_ws r
      else match r with
           | [] => [[c]]
           | c2 :: _ =>
               if is_ws c2 then [c] :: split_ws r
               else match split_ws r with
                    | t :: ts => (c :: t) :: ts
                    | [] => [[c]]                 (* unreachable *)
                    end
           end
  end.

(* line.split(b' ', 1) when b' ' in line *)
Fixpoint split_first_space (l : bytes) : option (bytes * bytes) :=
  match l with
  | [] => None
  | c :: r =>
      if c =? 32 then Some ([], r)
      else match split_first_space r with
           | Some (a, b) => Some (c :: a, b)
           | None => None
           end
  end.

(* binascii.hexlify / binascii.unhexlify (None = binascii.Error) *)
Definition hexlify (b : bytes) : bytes := hex_chars b.

Fixpoint unhexlify (l : bytes) : option bytes :=
  match l with
  | [] => Some []
  | [_] => None
  | a :: b :: r =>
      match hexval a, hexval b, unhexlify r with
      | Some x, Some y, Some t => Some (x * 16 + y :: t)
      | _, _, _ => None
      end
  end.

(* --- constants ------------------------------------------------------------- *)
Definition s_EXTERNAL : bytes := [69; 88; 84; 69; 82; 78; 65; 76].
Definition s_COOKIE : bytes := [68; 66; 85; 83; 95; 67; 79; 79; 75; 73; 69; 95; 83; 72; 65; 49].  (* DBUS_COOKIE_SHA1 *)
Definition s_ANONYMOUS : bytes := [65; 78; 79; 78; 89; 77; 79; 85; 83].
Definition s_AUTH_ : bytes := [65; 85; 84; 72; 32].                      (* "AUTH " *)
Definition s_txdbus : bytes := [116; 120; 100; 98; 117; 115].
Definition s_REJECTED : bytes := [82; 69; 74; 69; 67; 84; 69; 68].
Definition s_OK : bytes := [79; 75].
Definition s_DATA : bytes := [68; 65; 84; 65].
Definition s_ERROR : bytes := [69; 82; 82; 79; 82].
Definition s_AGREE_UNIX_FD : bytes := [65; 71; 82; 69; 69; 95; 85; 78; 73; 88; 95; 70; 68].
Definition s_NEGOTIATE_UNIX_FD : bytes := [78; 69; 71; 79; 84; 73; 65; 84; 69; 95; 85; 78; 73; 88; 95; 70; 68].
Definition s_BEGIN : bytes := [66; 69; 71; 73; 78].
Definition s_CANCEL : bytes := [67; 65; 78; 67; 69; 76].

(* ClientAuthenticator.preference (tied to Generated.client_preference in Props/C07.v) *)
Definition preference : list bytes := [s_EXTERNAL; s_COOKIE; s_ANONYMOUS].

(* BasicDBusProtocol.MAX_AUTH_LENGTH (tied to Generated.MAX_AUTH_LENGTH) *)
Definition max_auth_length : N := 16384.

(* --- ClientAuthenticator ---------------------------------------------------- *)
Record cst := mk_cst {
  c_unix : bool;              (* self.unixFDSupport *)
  c_order : list bytes;       (* self.authOrder, next mechanism first (the code keeps it reversed and pops) *)
  c_mech : bytes;             (* self.authMech *)
  c_guid : option bytes;      (* self.guid *)
  c_authd : bool;             (* self.authenticated *)
  c_fdwait : bool;            (* self.unixFDNegotiating (D05 repair; never read by the legacy handlers) *)
  c_nonce : nat               (* number of os.urandom calls made so far *)
}.

Definition set_guid (c : cst) (g : bytes) : cst :=
  mk_cst (c_unix c) (c_order c) (c_mech c) (Some g) (c_authd c) (c_fdwait c) (c_nonce c).
Definition set_authd (c : cst) : cst :=
  mk_cst (c_unix c) (c_order c) (c_mech c) (c_guid c) true (c_fdwait c) (c_nonce c).
Definition set_fdwait (c : cst) (b : bool) : cst :=
  mk_cst (c_unix c) (c_order c) (c_mech c) (c_guid c) (c_authd c) b (c_nonce c).
Definition bump_nonce (c : cst) : cst :=
  mk_cst (c_unix c) (c_order c) (c_mech c) (c_guid c) (c_authd c) (c_fdwait c) (S (c_nonce c)).

(* What a handler does: new state, the lines handed to sendAuthMessage in
   order, and whether it then raised DBusAuthenticationFailed. *)
Definition areply : Type := cst * list bytes * bool.

Inductive lookup_result :=
| LRaised                     (* _authGetDBusCookie raised *)
| LNoCookie                   (* it returned None: no line with that id *)
| LCookie (c : bytes).

(* what the protocol object does on its transport, and its own state *)
Inductive out :=
| Raw (b : bytes)                 (* transport.write of bytes that are not a line: the initial NUL *)
| Send (l : bytes)                (* sendAuthMessage(l): l followed by \r\n *)
| Close                           (* transport.loseConnection() *)
| Authd (guid : option bytes).    (* setAuthenticationSucceeded(): binary mode, connectionAuthenticated() *)

Record pst := mk_pst {
  p_c : cst;
  p_closed : bool;                (* transport.disconnecting *)
  p_done : bool                   (* self._authenticated *)
}.

Section Authenticator.
  Variable user : bytes.
  Variable lookup : bytes -> bytes -> lookup_result.
  Variable nonce : nat -> bytes.
  Variable sha1hex : bytes -> bytes.

  (* authTryNextMethod *)
  Definition try_next (c : cst) : areply :=
    match c_order c with
    | [] => (c, [], true)
    | m :: rest =>
        let c' := mk_cst (c_unix c) rest m (c_guid c) (c_authd c) false (c_nonce c) in
        let msg :=
          if str_eqb m s_COOKIE then s_AUTH_ ++ m ++ [32] ++ hexlify user
          else if str_eqb m s_ANONYMOUS then s_AUTH_ ++ m ++ [32] ++ hexlify s_txdbus
          else s_AUTH_ ++ m in
        (c', [msg], false)
    end.

  (* beginAuthentication *)
  Definition begin_auth (unix : bool) : areply :=
    try_next (mk_cst unix preference [] None false false 0).

  Definition auth_REJECTED (c : cst) (args : bytes) : areply := try_next c.

  Definition auth_OK (c : cst) (args : bytes) : areply :=
    let line := strip args in
    match line with
    | [] => (c, [], true)                                  (* Missing guid *)
    | _ =>
        match unhexlify line with
        | None => (c, [], true)                            (* Invalid guid *)
        | Some g =>
            let c1 := set_guid c g in
            if c_unix c then (set_fdwait c1 true, [s_NEGOTIATE_UNIX_FD], false)
            else (set_authd c1, [s_BEGIN], false)
        end
    end.

  Definition auth_AGREE_UNIX_FD (c : cst) (args : bytes) : areply :=
    if c_fdwait c then (set_authd c, [s_BEGIN], false)
    else (c, [], true).

  (* the answer to a DBUS_COOKIE_SHA1 challenge; any exception -> ERROR <text> (text not modelled) *)
  Definition cookie_answer (look : bytes -> bytes -> lookup_result) (c : cst) (args : bytes) : areply :=
    match unhexlify (strip args) with
    | None => (c, [s_ERROR], false)
    | Some data =>
        match split_ws data with
        | [ctx; cid; challenge] =>
            match look ctx cid with
            | LRaised => (c, [s_ERROR], false)
            | LNoCookie => (bump_nonce c, [s_ERROR], false)     (* b':'.join([.., None]) raises after os.urandom *)
            | LCookie cookie =>
                let cc := nonce (c_nonce c) in
                let response := sha1hex (challenge ++ [58] ++ cc ++ [58] ++ cookie) in
                (bump_nonce c, [s_DATA ++ [32] ++ hexlify (cc ++ [32] ++ response)], false)
            end
        | _ => (c, [s_ERROR], false)
        end
    end.

  Definition auth_DATA (c : cst) (args : bytes) : areply :=
    if str_eqb (c_mech c) s_EXTERNAL then (c, [s_DATA], false)
    else if str_eqb (c_mech c) s_COOKIE then cookie_answer lookup c args
    else (c, [s_CANCEL], false).

  Definition auth_ERROR (c : cst) (args : bytes) : areply :=
    if c_fdwait c then (set_authd c, [s_BEGIN], false)
    else try_next c.

  (* --- the same three handlers on the tree without the repairs ------------- *)
  Definition auth_AGREE_UNIX_FD_legacy (c : cst) (args : bytes) : areply :=      (* D05 *)
    if c_unix c then (set_authd c, [s_BEGIN], false)
    else (c, [], true).

  Definition auth_DATA_legacy (c : cst) (args : bytes) : areply :=               (* D07, D08 *)
    if str_eqb (c_mech c) s_EXTERNAL then (c, [s_DATA], false)
    else if str_eqb (c_mech c) s_COOKIE then cookie_answer (fun _ _ => LRaised) c args
    else (c, [], false).

  Definition auth_ERROR_legacy (c : cst) (args : bytes) : areply := try_next c.  (* D06 *)

  (* handleAuthMessage: getattr(self, '_auth_' + cmd.decode(), None).  A command
     that is not valid UTF-8 raises UnicodeDecodeError out of dataReceived, which
     drops the connection just as DBusAuthenticationFailed does (DESIGN.md 3). *)
  Definition handle_with (fAGREE fDATA fERROR : cst -> bytes -> areply) (c : cst) (line : bytes) : areply :=
    let (cmd, args) := match split_first_space line with
                       | Some p => p
                       | None => (line, [])
                       end in
    if str_eqb cmd s_REJECTED then auth_REJECTED c args
    else if str_eqb cmd s_OK then auth_OK c args
    else if str_eqb cmd s_AGREE_UNIX_FD then fAGREE c args
    else if str_eqb cmd s_DATA then fDATA c args
    else if str_eqb cmd s_ERROR then fERROR c args
    else (c, [], true).

  Definition handle := handle_with auth_AGREE_UNIX_FD auth_DATA auth_ERROR.
  Definition handle_legacy := handle_with auth_AGREE_UNIX_FD_legacy auth_DATA_legacy auth_ERROR_legacy.

  (* --- BasicDBusProtocol, client side, line mode ---------------------------- *)
  (* connectionMade *)
  Definition connect (unix : bool) : pst * list out :=
    let '(c, sent, _) := begin_auth unix in
    (mk_pst c false false, Raw [0] :: map Send sent).

  (* one complete line of dataReceived's line branch *)
  Definition step_with (h : cst -> bytes -> areply) (p : pst) (line : bytes) : pst * list out :=
    if p_done p then (p, [])                     (* binary mode: C04's concern, not modelled here *)
    else if p_closed p then (p, [])
    else if max_auth_length <? N.of_nat (length line) then
      (mk_pst (p_c p) true false, [Close])
    else
      let '(c, sent, raised) := h (p_c p) line in
      if raised then (mk_pst c true false, map Send sent ++ [Close])
      else if c_authd c then (mk_pst c false true, map Send sent ++ [Authd (c_guid c)])
      else (mk_pst c false false, map Send sent).

  Definition step := step_with handle.
  Definition step_legacy := step_with handle_legacy.

  (* outputs per received line *)
  Fixpoint run_with (h : cst -> bytes -> areply) (p : pst) (lines : list bytes) : list (list out) :=
    match lines with
    | [] => []
    | l :: r => let (p', o) := step_with h p l in o :: run_with h p' r
    end.

  Definition session_with (h : cst -> bytes -> areply) (unix : bool) (lines : list bytes) : list out * list (list out) :=
    let (p, o) := connect unix in (o, run_with h p lines).

  Definition session := session_with handle.
  Definition session_legacy := session_with handle_legacy.
End Authenticator.
