(* The whole system: clients attached to one built-in bus, with proxies, exported
   objects and everything in flight between them.  A composition of the
   component models - nothing of txdbus is modelled a second time here except
   the glue between the components:

     Model/ProxyCall.v   RemoteDBusObject.callRemote, getRemoteObject (both paths)
     Model/Calls.v       the client's pending-call table, the serial counter (C08)
     Model/Marshal.v     encoding / decoding of message bodies (C01, C02)
     Model/BusRoute.v    the bus: BusProtocol.rawDBusMessageReceived ... Bus.sendMessage
                         (C14), on Model/BusNames.v (C13) and Model/Router.v (C12)
     Model/Dispatch.v    DBusObjectHandler.handleMethodCallMessage, send_reply /
                         send_error, the Deferred of an exported method (C10)
     Model/Introspect.v  generateIntrospectionXML / getInterfacesFromXML (C15)

   Granularity.  What travels on a link is a MESSAGE (BusRoute.bmsg: byte order,
   type, flags byte, serial, the header fields, the encoded body bytes); a
   schedule delivers one message of one link at a time.  That a byte stream cut
   into arbitrary reads delivers exactly the messages written into it, in order,
   is C04 (C04_partition_independent / C04_messages_intact, with C03_frame_length
   for constructed messages), and header <-> field correspondence is C03
   (C03_parse_own); that reduction is argued from those theorems in prose, it is
   not formalised (hence Props/C11.v names its theorem `..._message_level_partial`);
   the correspondence run cuts every message into random reads.

   Glue defined here (txdbus/client.py, protocol.py: what happens between the
   components):
     conn_call     DBusClientConnection.callRemote / callRemoteMessage: validation
                   and body encoding of MethodCallMessage, Calls.call_remote for the
                   bookkeeping, the message put on the link;
     call_of       the attributes parseMessage leaves on a received call;
     deliver_call  methodCallReceived -> Dispatch.handle; the replies become
                   messages (each takes a serial of the process);
     deliver_reply methodReturnReceived / errorReceived: parse, Calls bookkeeping,
                   and the completion with the decoded values ([cvt_pv],
                   [remote_pv]: _cbCvtReply / errorReceived on Python values, the
                   functions Calls.cvt_reply / Calls.mk_remote_error are the
                   abstractions of - proved in Proofs/SystemProofs.v);
     bus_deliver   one message of a client handed to BusRoute.step.

   State that belongs to a PROCESS (DBusMessage._nextSerial, the interface
   objects and DBusInterface.knownInterfaces) is kept per process; the
   configuration says which client lives in which process (every client its own
   process: a real deployment; all in one: the in-process harness).

   User code is a parameter: [g_beh c inv] is what the exported method of client
   c invoked as [inv] does (a value / an exception / an unfired Deferred); how a
   Deferred completes later is chosen by the schedule (AFire).

   Not modelled: timers firing (C08 covers expiry; a timeout may be armed, the
   clock is never advanced), loss of a connection (C09), signals and match rules
   on the clients (C12), calls addressed to org.freedesktop.DBus itself (C13,
   C14: a proxy for the bus name is refused by [get_remote] as outside the
   model), UNIX descriptors (C20).  The XML text of an Introspect reply is
   carried as the element events of Model/Introspect.v beside the message
   ([w_xml]; the text layer is not modelled, as in C15); only the methods of the
   exported interfaces appear in it (signals and properties never influence a
   call).  Definitions only. *)
From Tx Require Import Lib.Base Model.PyVal Model.Validators Model.Marshal Model.BusNames Model.ProxyCall.
From Tx Require Model.Calls Model.BusRoute Model.Dispatch Model.Introspect Model.Router Model.Message
  Model.SigSplit.
Local Open Scope N_scope.

(* ------------------------------------------------------------------------ *)
(* configuration                                                             *)

Record config := mkCfg {
  g_fuel : nat;                                                 (* recursion fuel of the codec *)
  g_proc : client -> nat;                                       (* which process a client lives in *)
  g_exports : client -> Dispatch.exports;                       (* DBusObjectHandler.exports of each client *)
  g_beh : client -> Dispatch.invocation -> Dispatch.outcome;    (* user code *)
  g_unmodelled : Dispatch.call -> str * bytes;                  (* name and text of the error replies whose name /
                                                                   text Model/Dispatch.v leaves open *)
  g_limit : N                                                   (* DBusMessage._maxMsgLen (2**27) *)
}.

(* ------------------------------------------------------------------------ *)
(* what is in flight                                                         *)

Record wire := mkW {
  w_msg : BusRoute.bmsg;
  w_xml : option (list Introspect.event)      (* the meaning of the body of an Introspect reply *)
}.

Inductive link := Up (c : client) | Down (c : client).     (* client -> bus, bus -> client *)

Definition link_eqb (a b : link) : bool :=
  match a, b with
  | Up x, Up y => x =? y
  | Down x, Down y => x =? y
  | _, _ => false
  end.

(* the first message waiting on a link, and the rest *)
Fixpoint take (lk : link) (l : list (link * wire)) : option (wire * list (link * wire)) :=
  match l with
  | [] => None
  | (k, w) :: r =>
      if link_eqb lk k then Some (w, r)
      else match take lk r with
           | Some (x, r') => Some (x, (k, w) :: r')
           | None => None
           end
  end.

(* ------------------------------------------------------------------------ *)
(* completions of the Deferreds handed to the application                     *)

Inductive completion :=
| CValue (v : option pyval)                      (* callback; None is Python's None *)
| CRemote (name : str) (message : bytes) (values : list pyval)   (* errback RemoteError(name) *)
| CSigMismatch                                   (* errback RemoteError raised by _cbCvtReply *)
| CFailed                                        (* callRemote returned defer.fail(): nothing was sent *)
| CProxy (idx : nat)                             (* getRemoteObject: the proxy, by its number *)
| CIntroFailed.                                  (* getRemoteObject: IntrospectionFailed *)

(* what the Deferred of a call is chained to *)
Inductive cont :=
| KUser                                          (* handed to the application as it is *)
| KIntro (replace : bool) (required : list str) (bus path : str).    (* getRemoteObject's callbacks *)

(* _cbCvtReply(msg, returnSignature) on the parsed reply: signature field and
   decoded values *)
Definition py_body (sg : option str) (vals : list pyval) : option (list pyval) :=
  if Calls.truthy_sig sg then Some vals else None.

Definition cvt_check_fails (sg : option str) (rs : Calls.retsig) : bool :=
  match rs with
  | Calls.RsNoCheck => false
  | Calls.RsNone => Calls.truthy_sig sg
  | Calls.RsStr [] => Calls.truthy_sig sg
  | Calls.RsStr s => negb (Calls.truthy_sig sg) || Calls.sig_ne sg s
  end.

Definition cvt_pv (sg : option str) (vals : list pyval) (rs : Calls.retsig) : completion :=
  if cvt_check_fails sg rs then CSigMismatch
  else match py_body sg vals with
       | None => CValue None
       | Some [] => CValue None
       | Some [v] => if negb (Calls.sig_first_is_paren sg) then CValue (Some v)
                     else CValue (Some (PList [v]))
       | Some body => CValue (Some (PList body))
       end.

(* errorReceived: RemoteError(error_name); message = body[0] when that is a str *)
Definition remote_pv (name : str) (sg : option str) (vals : list pyval) : completion :=
  match py_body sg vals with
  | None => CRemote name [] []
  | Some [] => CRemote name [] []
  | Some (PStr s :: r) => CRemote name s (PStr s :: r)
  | Some body => CRemote name [] body
  end.

(* ------------------------------------------------------------------------ *)
(* state                                                                      *)

Record pstate := mkP {                       (* one process *)
  p_serial : N;                              (* DBusMessage._nextSerial *)
  p_heap : list Introspect.iface;            (* the DBusInterface objects *)
  p_known : list (str * nat)                 (* DBusInterface.knownInterfaces *)
}.

Definition tag := (option str * Z)%type.     (* (msg.sender, msg.serial) of a received call *)

Record sys := mkSys {
  s_bus : BusRoute.state;
  s_hist : list BusRoute.event;              (* the events the bus has seen since it was empty *)
  s_closed : list client;                    (* the bus called loseConnection on these *)
  s_net : list (link * wire);                (* everything in flight, oldest first; per link: FIFO *)
  s_calls : client -> Calls.state;           (* _pendingCalls, timers, Deferred numbering *)
  s_conts : client -> list (nat * cont);     (* Deferred number -> what it is chained to *)
  s_proxies : client -> list proxy;          (* the proxies handed out, in order *)
  s_dead : list client;                      (* an exception escaped dataReceived there *)
  s_procs : nat -> pstate;
  s_open : list (client * nat * Dispatch.pend);   (* unfired Deferreds of exported methods: where, key, callbacks *)
  s_next_open : nat;
  (* observations *)
  s_invs : list (client * tag * Dispatch.invocation);     (* user code run: where, for which call, how *)
  s_results : list (client * tag * Dispatch.later);       (* how it ended: returned / raised (at once or later) *)
  s_done : list (client * nat * completion);              (* completions: whose Deferred, which, what *)
  s_raised : list (client * pc_result)                    (* exceptions RemoteDBusObject.callRemote raised *)
}.

Definition upd {A} (f : client -> A) (c : client) (v : A) : client -> A :=
  fun x => if x =? c then v else f x.
Definition updn {A} (f : nat -> A) (c : nat) (v : A) : nat -> A :=
  fun x => if Nat.eqb x c then v else f x.

Definition set_net (s : sys) (n : list (link * wire)) : sys :=
  mkSys (s_bus s) (s_hist s) (s_closed s) n (s_calls s) (s_conts s) (s_proxies s) (s_dead s) (s_procs s)
        (s_open s) (s_next_open s) (s_invs s) (s_results s) (s_done s) (s_raised s).
Definition set_dead (s : sys) (c : client) : sys :=
  mkSys (s_bus s) (s_hist s) (s_closed s) (s_net s) (s_calls s) (s_conts s) (s_proxies s) (c :: s_dead s)
        (s_procs s) (s_open s) (s_next_open s) (s_invs s) (s_results s) (s_done s) (s_raised s).
Definition set_calls (s : sys) (c : client) (st : Calls.state) : sys :=
  mkSys (s_bus s) (s_hist s) (s_closed s) (s_net s) (upd (s_calls s) c st) (s_conts s) (s_proxies s) (s_dead s)
        (s_procs s) (s_open s) (s_next_open s) (s_invs s) (s_results s) (s_done s) (s_raised s).
Definition set_procs (s : sys) (p : nat -> pstate) : sys :=
  mkSys (s_bus s) (s_hist s) (s_closed s) (s_net s) (s_calls s) (s_conts s) (s_proxies s) (s_dead s)
        p (s_open s) (s_next_open s) (s_invs s) (s_results s) (s_done s) (s_raised s).
Definition add_done (s : sys) (c : client) (id : nat) (x : completion) : sys :=
  mkSys (s_bus s) (s_hist s) (s_closed s) (s_net s) (s_calls s) (s_conts s) (s_proxies s) (s_dead s)
        (s_procs s) (s_open s) (s_next_open s) (s_invs s) (s_results s) (s_done s ++ [(c, id, x)]) (s_raised s).
Definition add_proxy (s : sys) (c : client) (p : proxy) : sys :=
  mkSys (s_bus s) (s_hist s) (s_closed s) (s_net s) (s_calls s) (s_conts s)
        (upd (s_proxies s) c (s_proxies s c ++ [p])) (s_dead s)
        (s_procs s) (s_open s) (s_next_open s) (s_invs s) (s_results s) (s_done s) (s_raised s).
Definition add_cont (s : sys) (c : client) (id : nat) (k : cont) : sys :=
  mkSys (s_bus s) (s_hist s) (s_closed s) (s_net s) (s_calls s)
        (upd (s_conts s) c (s_conts s c ++ [(id, k)])) (s_proxies s) (s_dead s)
        (s_procs s) (s_open s) (s_next_open s) (s_invs s) (s_results s) (s_done s) (s_raised s).
Definition add_raised (s : sys) (c : client) (r : pc_result) : sys :=
  mkSys (s_bus s) (s_hist s) (s_closed s) (s_net s) (s_calls s) (s_conts s) (s_proxies s) (s_dead s)
        (s_procs s) (s_open s) (s_next_open s) (s_invs s) (s_results s) (s_done s) (s_raised s ++ [(c, r)]).

Definition proc_of (g : config) (s : sys) (c : client) : pstate := s_procs s (g_proc g c).

Definition set_serial (p : pstate) (n : N) : pstate := mkP n (p_heap p) (p_known p).
Definition set_world (p : pstate) (h : list Introspect.iface) (k : list (str * nat)) : pstate :=
  mkP (p_serial p) h k.

Definition is_dead (s : sys) (c : client) : bool := mem c (s_dead s).

(* ------------------------------------------------------------------------ *)
(* the Deferred of call [id] of client c fires with x                         *)

Definition cont_of (s : sys) (c : client) (id : nat) : cont :=
  match alist_get Nat.eqb id (s_conts s c) with Some k => k | None => KUser end.

Definition finish (g : config) (s : sys) (c : client) (id : nat) (x : completion)
           (xml : option (list Introspect.event)) : sys :=
  match cont_of s c id with
  | KUser => add_done s c id x
  | KIntro replace required bus path =>
      match x, xml with
      | CValue (Some (PStr _)), Some evs =>
          let p := proc_of g s c in
          match introspected replace (p_heap p) (p_known p) required bus path evs with
          | IProxy px h k =>
              let s1 := set_procs s (updn (s_procs s) (g_proc g c) (set_world p h k)) in
              add_done (add_proxy s1 c px) c id (CProxy (length (s_proxies s c)))
          | IFailed h k =>
              add_done (set_procs s (updn (s_procs s) (g_proc g c) (set_world p h k))) c id CIntroFailed
          end
      | _, _ => add_done s c id CIntroFailed      (* err(): IntrospectionFailed; or the text is no XML *)
      end
  end.

(* ------------------------------------------------------------------------ *)
(* DBusClientConnection.callRemote(...)                                       *)

Definition ostr (o : option str) : pyval := match o with Some s => PStr s | None => PNone end.

(* msg.body as match rules would see it (never read for an addressed message) *)
Definition view_args (sg : option str) (vals : list pyval) : option (list Router.arg) :=
  if Calls.truthy_sig sg
  then Some (map (fun v => match v with PStr s => Router.AStr s | _ => Router.AOther 0 end) vals)
  else None.

(* the body bytes: "if self.signature: marshal(self.signature, self.body, oobFDs)" *)
Definition encode_body (fuel : nat) (sg : option str) (vals : pyval) (fds : fdst) : res bytes :=
  match sg with
  | Some (c :: r) =>
      match m_marshal fuel (c :: r) vals 0 true fds with
      | Ok (_, b, _) => Ok b
      | Err e => Err e
      end
  | _ => Ok []
  end.

(* the header can be encoded once a serial has been taken: the path is an object path,
   the signature fits a SIGNATURE *)
Definition header_ok (q : creq) : bool :=
  validate_path (q_path q) &&
  match q_sig q with Some sg => is_ascii sg && (length sg <=? 255)%nat | None => true end.
  (* marshal_signature: codecs.encode(var, 'ascii'), one length byte *)

Definition call_flags (q : creq) : N :=
  (if q_expect q then 0 else 1) + (if q_auto q then 0 else 2).

Definition call_msg (q : creq) (serial : N) (body : bytes) : BusRoute.bmsg :=
  BusRoute.mkB true 1 (call_flags q) serial (Some (q_path q)) (q_iface q) (Some (q_member q)) None None
               (q_dest q) None (q_sig q) body None false.
  (* g_args - the decoded body as match rules and the bus's own methods read it - is only
     looked at for messages without destination or addressed to org.freedesktop.DBus
     (Model/BusRoute.v); this model sends neither, and carries None there, for calls as for
     replies ([view_args] above is what it would be) *)

(* DBusMessage._marshal, after the header has been packed:
     "if len(self.rawMessage) > self._maxMsgLen: raise MarshallingError(...)"
   - header, padding to 8 and body together.  (Model/Message.v's marshal_header refuses
   above 2**27 by itself; [limit] is _maxMsgLen where it is at most that.) *)
Definition hdr_attrs (m : BusRoute.bmsg) : list (Message.attr * pyval) :=
  [(Message.APath, ostr (BusRoute.g_path m)); (Message.AInterface, ostr (BusRoute.g_interface m));
   (Message.AMember, ostr (BusRoute.g_member m)); (Message.AErrorName, ostr (BusRoute.g_error_name m));
   (Message.AReplySerial, match BusRoute.g_reply_serial m with Some n => PWrap 117 (PInt (Z.of_N n)) | None => PNone end);
   (Message.ADestination, ostr (BusRoute.g_destination m)); (Message.ASender, ostr (BusRoute.g_sender m));
   (Message.ASignature, ostr (BusRoute.g_signature m))].

Definition too_big (limit : N) (fuel : nat) (m : BusRoute.bmsg) : bool :=
  match Message.marshal_header fuel (BusRoute.g_type m)
                               (negb (N.testbit (BusRoute.g_flags m) 0)) (negb (N.testbit (BusRoute.g_flags m) 1))
                               (hdr_attrs m) (BusRoute.g_body m) (Z.of_N (BusRoute.g_serial m)) None with
  | Ok (h, p, b, _) => limit <? len h + len p + len b
  | Err _ => true
  end.

Definition with_serial (st : Calls.state) (n : N) : Calls.state :=
  Calls.State n (Calls.st_next_id st) (Calls.st_pending st) (Calls.st_timers st) (Calls.st_done st)
              (Calls.st_fault st).

(* the completion of the Deferred callRemote returns, when it has one already *)
Definition conn_call (g : config) (s : sys) (c : client) (q : creq) (k : cont) : sys :=
  let p := proc_of g s c in
  let st := with_serial (s_calls s c) (p_serial p) in
  let id := Calls.st_next_id st in
  let s := add_cont s c id k in
  let attrs := [(Message.APath, PStr (q_path q)); (Message.AInterface, ostr (q_iface q));
                (Message.AMember, PStr (q_member q)); (Message.ADestination, ostr (q_dest q));
                (Message.ASignature, ostr (q_sig q))] in
  match Message.validate_args false 1 attrs, encode_body (g_fuel g) (q_sig q) (PTuple (q_args q)) (Some []) with
  | Ok _, Ok body =>
      let serial := p_serial p in
      if negb (header_ok q) ||
         (negb (Calls.max_serial <? serial) && too_big (g_limit g) (g_fuel g) (call_msg q serial body)) then
        (* the serial is taken, then packing the header raises, or what was packed exceeds
           _maxMsgLen (the constructor marshals: nothing is registered, nothing is sent): defer.fail() *)
        let s1 := set_procs s (updn (s_procs s) (g_proc g c) (set_serial p (serial + 1))) in
        let st1 := Calls.call_remote (with_serial st (serial + 1)) Calls.CkInvalid (q_timeout q) (q_rs q) in
        finish g (set_calls s1 c st1) c id CFailed None
      else
        let kind := if q_expect q then Calls.CkNormal else Calls.CkNoReply in
        let st1 := Calls.call_remote st kind (q_timeout q) (q_rs q) in
        let s1 := set_procs s (updn (s_procs s) (g_proc g c) (set_serial p (Calls.st_next_serial st1))) in
        let s2 := set_calls s1 c st1 in
        if Calls.max_serial <? serial then finish g s2 c id CFailed None
        else
          let s3 := set_net s2 (s_net s2 ++ [(Up c, mkW (call_msg q serial body) None)]) in
          if q_expect q then s3
          else finish g s3 c id (CValue None) None        (* defer.succeed(None) through _cbCvtReply *)
  | _, _ =>
      (* MethodCallMessage(...) raises before a serial is taken: defer.fail() *)
      let st1 := Calls.call_remote st Calls.CkInvalid (q_timeout q) (q_rs q) in
      let s1 := set_procs s (updn (s_procs s) (g_proc g c) (set_serial p (p_serial p))) in   (* the counter stays *)
      finish g (set_calls s1 c st1) c id CFailed None
  end.

(* ------------------------------------------------------------------------ *)
(* the application: proxies and calls through them                            *)

Definition ifaces_of (heap : list Introspect.iface) (ids : list nat) : list Introspect.iface :=
  flat_map (fun id => match nth_error heap id with Some i => [i] | None => [] end) ids.

Definition proxy_call (g : config) (s : sys) (c : client) (pidx : nat) (member : str)
           (args : list pyval) (kw : kwargs) : sys :=
  match nth_error (s_proxies s c) pidx with
  | None => s
  | Some px =>
      match call_remote (ifaces_of (p_heap (proc_of g s c)) (px_ifaces px))
                        (px_bus px) (px_path px) member args kw with
      | PcCall q => conn_call g s c q KUser
      | r => add_raised s c r
      end
  end.

(* getRemoteObject(busName, objectPath, interfaces, replaceKnownInterfaces); the
   Deferred it returns is numbered like a call's (it IS the Deferred of the
   Introspect call on the introspection path; on the explicit path it has fired
   already and is not numbered: the proxy is simply there) *)
Definition get_remote (g : config) (s : sys) (c : client) (bus path : str) (a : ifarg) (replace : bool) : sys :=
  if str_eqb bus BusRoute.bus_name then s            (* outside this model: C13 / C14 *)
  else
    let p := proc_of g s c in
    match get_remote_object (p_heap p) (p_known p) bus path a with
    | GProxy px => add_proxy s c px
    | GIntrospect required => conn_call g s c (introspect_request bus path) (KIntro replace required bus path)
    end.

(* DBusInterface(name, *decls [, noRegister=True]) in the process of client c *)
Definition declare_iface (g : config) (s : sys) (c : client) (name : str) (ds : list Introspect.decl)
           (noreg : bool) : sys :=
  let p := proc_of g s c in
  match Introspect.declare (p_heap p) (p_known p) name ds noreg with
  | Ok (h, k, _) => set_procs s (updn (s_procs s) (g_proc g c) (set_world p h k))
  | Err _ => s
  end.

(* ------------------------------------------------------------------------ *)
(* the bus reads one message of client c                                      *)

Definition fwd_items (xml : option (list Introspect.event)) (o : BusRoute.rout) : list (link * wire) :=
  flat_map (fun x => match snd x with
                     | BusRoute.DFwd m => [(Down (fst x), mkW m xml)]
                     | _ => []            (* the bus's own replies and signals: not carried (C13 / C14) *)
                     end) (BusRoute.d_deliv o).

Definition bus_deliver (s : sys) (c : client) (w : wire) : sys :=
  if mem c (s_closed s) then s              (* nothing is delivered after loseConnection *)
  else
    let e := BusRoute.ESend c (w_msg w) in
    let '(b, o) := BusRoute.step (s_bus s) e in
    mkSys b (s_hist s ++ [e]) (if BusRoute.d_close o then c :: s_closed s else s_closed s)
          (s_net s ++ fwd_items (w_xml w) o)
          (s_calls s) (s_conts s) (s_proxies s) (s_dead s) (s_procs s) (s_open s) (s_next_open s)
          (s_invs s) (s_results s) (s_done s) (s_raised s).

(* ------------------------------------------------------------------------ *)
(* a client reads one message                                                 *)

(* msg.body: "if m.signature: m.body = unmarshal(m.signature, rawBody, ...)" *)
Definition decode_body (fuel : nat) (m : BusRoute.bmsg) : res (list pyval) :=
  match BusRoute.g_signature m with
  | Some (c :: r) =>
      match m_unmarshal fuel (c :: r) (BusRoute.g_body m) 0 (BusRoute.g_le m) (Some []) with
      | Ok (_, vals) => Ok vals
      | Err e => Err e
      end
  | _ => Ok []
  end.

Definition or_empty (o : option str) : str := match o with Some s => s | None => [] end.

(* the received call as handleMethodCallMessage reads it *)
Definition call_of (fuel : nat) (m : BusRoute.bmsg) : res Dispatch.call :=
  match decode_body fuel m with
  | Ok args =>
      Ok (Dispatch.mkCall (or_empty (BusRoute.g_path m)) (BusRoute.g_interface m) (or_empty (BusRoute.g_member m))
                          (BusRoute.g_signature m) args (BusRoute.g_sender m) (Z.of_N (BusRoute.g_serial m))
                          (negb (N.testbit (BusRoute.g_flags m) 0)))
  | Err e => Err e
  end.

(* a reply of the dispatcher as a message with serial n.  Replies carry
   NO_REPLY_EXPECTED?  No: the constructors leave expectReply = True, flags 0. *)
Definition reply_body (g : config) (c : Dispatch.call) (r : Dispatch.reply) : bytes :=
  match Dispatch.r_body r with
  | Dispatch.BBytes b => b
  | Dispatch.BText t =>
      match m_marshal (g_fuel g) Dispatch.s_sig (PList [PStr t]) 0 true None with
      | Ok (_, b, _) => b
      | Err _ => []
      end
  | Dispatch.BOther =>
      match m_marshal (g_fuel g) Dispatch.s_sig (PList [PStr (snd (g_unmodelled g c))]) 0 true None with
      | Ok (_, b, _) => b
      | Err _ => []
      end
  end.

Definition reply_msg (g : config) (c : Dispatch.call) (r : Dispatch.reply) (n : N) : BusRoute.bmsg :=
  let '(ty, en) := match Dispatch.r_kind r with
                   | Dispatch.KReturn => (2, None)
                   | Dispatch.KError name => (3, Some name)
                   | Dispatch.KEncodeError => (3, Some (fst (g_unmodelled g c)))
                   end in
  let sg := match Dispatch.r_sig r with [] => None | x => Some x end in
  BusRoute.mkB true ty 0 n None None None en (Some (Z.to_N (Dispatch.r_serial r))) (Dispatch.r_dest r) None
               sg (reply_body g c r) None false.

(* Introspectable.Introspect is answered by the handler itself with the generated
   document; its element events ride beside the message *)
Definition conv_meth (m : Dispatch.meth) : Introspect.decl :=
  Introspect.DMeth (Dispatch.m_name m) (Dispatch.m_in m) (Dispatch.m_out m).

Definition conv_iface (i : Dispatch.iface) : Introspect.iface :=
  match Introspect.new_iface (Dispatch.i_name i) (map conv_meth (Dispatch.i_methods i)) with
  | Ok x => x
  | Err _ => Introspect.mkIface (Dispatch.i_name i) [] [] []
  end.

Definition intro_exports (ex : Dispatch.exports) : list (str * list Introspect.iface) :=
  map (fun po => (fst po, map conv_iface (Dispatch.interfaces (snd po)))) ex.

Definition is_introspect (c : Dispatch.call) : bool :=
  Dispatch.opt_is (Dispatch.c_iface c) Dispatch.n_introspectable &&
  str_eqb (Dispatch.c_member c) Dispatch.n_introspect.

Definition xml_for (ex : Dispatch.exports) (c : Dispatch.call) (r : Dispatch.reply) : option (list Introspect.event) :=
  match Dispatch.r_kind r with
  | Dispatch.KReturn =>
      if is_introspect c
      then match Introspect.gen_doc (Dispatch.c_path c) (intro_exports ex) with
           | Ok (Some evs) => Some evs
           | _ => None
           end
      else None
  | _ => None
  end.

(* conn.sendMessage(r) for each reply: a serial of the process each; packing a
   serial beyond UINT32 raises inside the callback and nothing is sent *)
Fixpoint send_replies (g : config) (s : sys) (c : client) (dc : Dispatch.call) (rs : list Dispatch.reply) : sys :=
  match rs with
  | [] => s
  | r :: rest =>
      let p := proc_of g s c in
      let n := p_serial p in
      let s1 := set_procs s (updn (s_procs s) (g_proc g c) (set_serial p (n + 1))) in
      let s2 := if Calls.max_serial <? n then s1
                else set_net s1 (s_net s1 ++ [(Up c, mkW (reply_msg g dc r n) (xml_for (g_exports g c) dc r))]) in
      send_replies g s2 c dc rest
  end.

Definition tag_of_call (dc : Dispatch.call) : tag := (Dispatch.c_sender dc, Dispatch.c_serial dc).

Definition add_invs (s : sys) (c : client) (t : tag) (invs : list Dispatch.invocation)
           (res : list Dispatch.later) (p : option Dispatch.pend) : sys :=
  mkSys (s_bus s) (s_hist s) (s_closed s) (s_net s) (s_calls s) (s_conts s) (s_proxies s) (s_dead s) (s_procs s)
        (match p with Some x => s_open s ++ [(c, s_next_open s, x)] | None => s_open s end)
        (match p with Some _ => S (s_next_open s) | None => s_next_open s end)
        (s_invs s ++ map (fun i => (c, t, i)) invs)
        (s_results s ++ map (fun l => (c, t, l)) res)
        (s_done s) (s_raised s).

(* what is known at once about how the invoked code ended *)
Definition results_now (beh : Dispatch.invocation -> Dispatch.outcome) (invs : list Dispatch.invocation)
  : list Dispatch.later :=
  flat_map (fun i => match beh i with
                     | Dispatch.OValue v => [Dispatch.LValue v]
                     | Dispatch.ORaise e => [Dispatch.LFail e]
                     | Dispatch.ODeferred => []
                     end) invs.

Definition deliver_call (g : config) (s : sys) (c : client) (m : BusRoute.bmsg) : sys :=
  match call_of (g_fuel g) m with
  | Err _ => set_dead s c                         (* parseMessage raises inside dataReceived *)
  | Ok dc =>
      match Dispatch.handle (g_exports g c) (g_beh g c) dc with
      | Dispatch.HRaise _ => set_dead s c
      | Dispatch.HDone rs invs p =>
          let s1 := add_invs s c (tag_of_call dc) invs (results_now (g_beh g c) invs) p in
          send_replies g s1 c dc rs
      end
  end.

(* methodReturnReceived / errorReceived *)
Definition abs_val (v : pyval) : Calls.val :=
  match v with
  | PStr s => Calls.VStr s
  | PList l | PTuple l => Calls.VSeq (map (fun _ => Calls.VInt 0) l)
  | PInt z => Calls.VInt z
  | _ => Calls.VInt 0
  end.

Definition abs_msg (sg : option str) (vals : list pyval) : Calls.msg := Calls.Msg sg (map abs_val vals).

Definition deliver_reply (g : config) (s : sys) (c : client) (w : wire) : sys :=
  let m := w_msg w in
  match decode_body (g_fuel g) m with
  | Err _ => set_dead s c
  | Ok vals =>
      match BusRoute.g_reply_serial m with
      | None => s                                  (* _pendingCalls.get(None): nothing *)
      | Some n =>
          match alist_get N.eqb n (Calls.st_pending (s_calls s c)) with
          | None => s
          | Some pc =>
              let sg := BusRoute.g_signature m in
              if BusRoute.g_type m =? 2 then
                let st1 := Calls.method_return_received (s_calls s c) n (abs_msg sg vals) in
                finish g (set_calls s c st1) c (Calls.pc_id pc) (cvt_pv sg vals (Calls.pc_rs pc)) (w_xml w)
              else
                let name := or_empty (BusRoute.g_error_name m) in
                let st1 := Calls.error_received (s_calls s c) n name (abs_msg sg vals) in
                finish g (set_calls s c st1) c (Calls.pc_id pc) (remote_pv name sg vals) None
          end
      end
  end.

Definition client_deliver (g : config) (s : sys) (c : client) (w : wire) : sys :=
  if is_dead s c then s                            (* the connection was dropped: nothing is read *)
  else
    let t := BusRoute.g_type (w_msg w) in
    if t =? 1 then deliver_call g s c (w_msg w)
    else if (t =? 2) || (t =? 3) then deliver_reply g s c w
    else if t =? 4 then s                          (* a signal: no rule is registered, no callback runs *)
    else set_dead s c.                             (* parseMessage: unknown message type *)

(* ------------------------------------------------------------------------ *)
(* an unfired Deferred of an exported method fires                            *)

Fixpoint take_open (c : client) (key : nat) (l : list (client * nat * Dispatch.pend))
  : option (Dispatch.pend * list (client * nat * Dispatch.pend)) :=
  match l with
  | [] => None
  | (c', k, p) :: r =>
      if (c' =? c) && Nat.eqb k key then Some (p, r)
      else match take_open c key r with
           | Some (x, r') => Some (x, (c', k, p) :: r')
           | None => None
           end
  end.

Definition fire_open (g : config) (s : sys) (c : client) (key : nat) (l : Dispatch.later) : sys :=
  match take_open c key (s_open s) with
  | None => s
  | Some (p, rest) =>
      let dc := Dispatch.p_call p in
      let s1 := mkSys (s_bus s) (s_hist s) (s_closed s) (s_net s) (s_calls s) (s_conts s) (s_proxies s) (s_dead s)
                      (s_procs s) rest (s_next_open s) (s_invs s)
                      (s_results s ++ [(c, tag_of_call dc, l)]) (s_done s) (s_raised s) in
      send_replies g s1 c dc (Dispatch.fire p l)
  end.

(* ------------------------------------------------------------------------ *)
(* schedules                                                                  *)

Inductive action :=
| ADeclare (c : client) (name : str) (ds : list Introspect.decl) (noreg : bool)
| AProxy (c : client) (bus path : str) (a : ifarg) (replace : bool)
| ACall (c : client) (pidx : nat) (member : str) (args : list pyval) (kw : kwargs)
| AUp (c : client)             (* the bus reads the next message client c wrote *)
| ADown (c : client)           (* client c reads the next message the bus wrote to it *)
| AFire (c : client) (key : nat) (l : Dispatch.later).

Definition step (g : config) (s : sys) (a : action) : sys :=
  match a with
  | ADeclare c name ds noreg => declare_iface g s c name ds noreg
  | AProxy c bus path a replace => get_remote g s c bus path a replace
  | ACall c pidx member args kw => proxy_call g s c pidx member args kw
  | AUp c =>
      match take (Up c) (s_net s) with
      | Some (w, rest) => bus_deliver (set_net s rest) c w
      | None => s
      end
  | ADown c =>
      match take (Down c) (s_net s) with
      | Some (w, rest) => client_deliver g (set_net s rest) c w
      | None => s
      end
  | AFire c key l => fire_open g s c key l
  end.

Definition run_from (g : config) (s : sys) (sched : list action) : sys := fold_left (step g) sched s.

(* the state after the bus has seen the history h0 (connections made, Hello said,
   names requested ...), all of it delivered: nothing in flight, nothing pending.
   [serial0 p] is the serial counter of process p at that moment. *)
Definition init (h0 : list BusRoute.event) (serial0 : nat -> N) : sys :=
  mkSys (fst (BusRoute.run h0)) h0 [] []
        (fun _ => Calls.init 0) (fun _ => []) (fun _ => []) []
        (fun p => mkP (serial0 p) [] []) [] 0 [] [] [] [].

Definition run (g : config) (h0 : list BusRoute.event) (serial0 : nat -> N) (sched : list action) : sys :=
  run_from g (init h0 serial0) sched.

(* nothing in flight and no Deferred of an exported method open *)
Definition quiescent (s : sys) : Prop := s_net s = [] /\ s_open s = [].
