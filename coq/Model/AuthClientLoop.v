(* The client model (Model/AuthClient.v) connected to the specification's
   reference server (Spec/AuthClientSpec.v) over two FIFO links.  One sys_step
   delivers one thing: a server line to the client if one is in flight, else one
   thing the client did (raw bytes, a line, closing) to the server.
   Definitions only. *)
From Tx Require Import Lib.Base Lib.Sexp Model.AuthClient Spec.AuthClientSpec.
Local Open Scope N_scope.

Record sys := mk_sys {
  y_c : pst;                 (* client *)
  y_s : sstate;              (* server *)
  y_to_s : list out;         (* client -> server, in flight *)
  y_to_c : list bytes        (* server -> client, in flight *)
}.

Definition ev_of (o : out) : ev :=
  match o with
  | Raw b => TxRaw b
  | Send l => Tx l
  | Close => Closed
  | Authd _ => Binary
  end.

(* a session of the model as the specification sees it: the events on connecting,
   then each received line with the events it caused *)
Definition observe (s : list out * list (list out)) (lines : list bytes) : list ev * list exchange :=
  (map ev_of (fst s), combine lines (map (map ev_of) (snd s))).

(* everything observed in a session of the (repaired) model, in order *)
Definition session_observed (user : bytes) (lookup : bytes -> bytes -> lookup_result) (nonce : nat -> bytes)
    (sha1hex : bytes -> bytes) (unix : bool) (lines : list bytes) : list ev * list exchange :=
  observe (session user lookup nonce sha1hex unix lines) lines.

Definition session_trace user lookup nonce sha1hex unix lines : list ev :=
  let (init, xs) := session_observed user lookup nonce sha1hex unix lines in trace init xs.

Definition session_observed_legacy (user : bytes) (nonce : nat -> bytes)
    (sha1hex : bytes -> bytes) (unix : bool) (lines : list bytes) : list ev * list exchange :=
  observe (session_legacy user nonce sha1hex unix lines) lines.

Definition session_trace_legacy user nonce sha1hex unix lines : list ev :=
  let (init, xs) := session_observed_legacy user nonce sha1hex unix lines in trace init xs.

Section Loop.
  Variable user : bytes.
  Variable sha1hex : bytes -> bytes.
  Variable h : cst -> bytes -> areply.        (* handle or handle_legacy, already applied to the oracles *)
  Variable cfg : server_cfg.

  Definition sys_init (unix : bool) : sys :=
    let (p, o) := connect user unix in
    mk_sys p SWaitNul o [].

  Definition sys_step (y : sys) : sys :=
    match y_to_c y with
    | l :: r =>
        let (p, o) := step_with h (y_c y) l in
        mk_sys p (y_s y) (y_to_s y ++ o) r
    | [] =>
        match y_to_s y with
        | [] => y
        | o :: r =>
            match o with
            | Authd _ => mk_sys (y_c y) (y_s y) r []                 (* not on the wire *)
            | _ =>
                let i := match o with Raw b => CRaw b | Send l => CLine l | _ => CEof end in
                let (s, ls) := server_step sha1hex cfg (y_s y) i in
                mk_sys (y_c y) s r ls
            end
        end
    end.

  Fixpoint iterate (n : nat) (y : sys) : sys :=
    match n with O => y | S k => iterate k (sys_step y) end.

  (* what the client receives and does in a step, for the record *)
  Definition step_events (y : sys) : list ev :=
    match y_to_c y with
    | l :: _ => Rx l :: map ev_of (snd (step_with h (y_c y) l))
    | [] => []
    end.

  Fixpoint iterate_log (n : nat) (y : sys) : list ev :=
    match n with O => [] | S k => step_events y ++ iterate_log k (sys_step y) end.

  Definition handshake_log (unix : bool) (fuel : nat) : list ev :=
    map ev_of (snd (connect user unix)) ++ iterate_log fuel (sys_init unix).

  (* both sides agree that the handshake is over and nothing is in flight *)
  Definition completed (y : sys) : bool :=
    p_done (y_c y) && negb (p_closed (y_c y))
    && match y_s y with SDone => true | _ => false end
    && match y_to_s y, y_to_c y with [], [] => true | _, _ => false end.

  Definition handshake (unix : bool) (fuel : nat) : sys := iterate fuel (sys_init unix).
End Loop.

(* the keyring holds the server's cookie under the server's context and id *)
Definition shared_keyring (ctx cid : bytes) : lookup_result :=
  if str_eqb ctx srv_ctx then
    if str_eqb cid srv_cookie_id then LCookie srv_cookie else LNoCookie
  else LRaised.

(* keyrings that cannot answer the server's challenge:
   no cookie can be looked up at all (no keyring directory, or one the client
   must not use: _authGetDBusCookie raises for every context and id) *)
Definition no_keyring (ctx cid : bytes) : lookup_result := LRaised.

(* the server's context file exists but does not hold the challenged id
   (_authGetDBusCookie returns None); other contexts do not exist *)
Definition other_keyring (ctx cid : bytes) : lookup_result :=
  if str_eqb ctx srv_ctx then LNoCookie else LRaised.

(* the client has given up - closed without authenticating -, the server has seen
   the connection drop, nothing is in flight: the run is over (sys_step changes
   nothing any more) and nobody waits for anybody *)
Definition gave_up (y : sys) : bool :=
  p_closed (y_c y) && negb (p_done (y_c y))
  && match y_s y with SDead => true | _ => false end
  && match y_to_s y, y_to_c y with [], [] => true | _, _ => false end.
