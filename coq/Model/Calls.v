(* Faithful model of the remote-call bookkeeping of txdbus/client.py
   (DBusClientConnection): callRemote, callRemoteMessage, _onMethodTimeout,
   methodReturnReceived, errorReceived, _cbCvtReply, connectionLost, and of the
   process-wide serial counter of txdbus/message.py (DBusMessage._nextSerial).
   Definitions only.

   What is modelled and what enters from outside:
   - a connection that has completed authentication and Hello (busName set);
   - user callbacks are passive observers (they record the completion, they do
     not call back into the connection);
   - the wire codec is not part of this model: a received reply is given by
     the attributes parseMessage leaves on it (signature header, decoded
     values);
   - the reactor is an explicit table of outstanding delayed calls; the
     environment decides when one of them fires (event ETimer). *)
From Tx Require Import Lib.Base.
Local Open Scope N_scope.

(* ------------------------------------------------------------------------ *)
(* Vocabulary shared with Spec/CallSpec.v (types only).                      *)

(* decoded DBus values as far as this code looks at them: str or not, list *)
Inductive val :=
| VInt (z : Z)
| VStr (s : str)            (* any instance of str: 's', 'o', 'g' *)
| VSeq (l : list val).      (* struct or array: both decode to a Python list *)

(* a parsed METHOD_RETURN / ERROR as far as the client reads it *)
Record msg := Msg {
  m_sig : option str;       (* SIGNATURE header field; None when absent *)
  m_vals : list val         (* values decoded from the body per the signature *)
}.

(* the returnSignature argument of callRemote *)
Inductive retsig :=
| RsNoCheck                 (* default _NO_CHECK_RETURN *)
| RsNone                    (* None passed explicitly *)
| RsStr (s : str).          (* a signature string, possibly '' *)

Inductive ckind :=
| CkNormal                  (* expectReply=True, well-formed arguments *)
| CkNoReply                 (* expectReply=False *)
| CkInvalid.                (* MethodCallMessage(...) raises before taking a serial
                               (invalid member name, reserved path, ...) *)

Inductive event :=
| ECall (k : ckind) (timeout : option N) (rs : retsig)
| EReturn (reply_serial : N) (m : msg)
| EError (reply_serial : N) (name : str) (m : msg)
| ETimer (serial : N)       (* the reactor runs the delayed call armed for [serial],
                               if there is one outstanding *)
| ELost (reason : N).       (* connectionLost(reason); reasons are numbered *)

Inductive outcome :=
| OValue (v : option val)   (* callback; None is Python's None *)
| ORemote (name message : str) (values : list val)   (* errback RemoteError from an error reply *)
| OSigMismatch              (* errback RemoteError raised by _cbCvtReply *)
| OTimeOut                  (* errback error.TimeOut *)
| OLost (reason : N)        (* errback with the connection-loss reason *)
| OFailed.                  (* callRemote returned defer.fail(): the call was not sent *)

(* ------------------------------------------------------------------------ *)
(* Python truthiness of the things this code tests                           *)

Definition truthy_sig (o : option str) : bool :=
  match o with Some (_ :: _) => true | _ => false end.

Definition truthy_timeout (o : option N) : bool :=
  match o with Some 0 => false | Some _ => true | None => false end.

(* parseMessage: "if m.signature: ..., m.body = unmarshal(...)"; otherwise
   body keeps the class attribute None *)
Definition py_body (m : msg) : option (list val) :=
  if truthy_sig (m_sig m) then Some (m_vals m) else None.

(* msg.signature != returnSignature  (returnSignature a non-empty str) *)
Definition sig_ne (o : option str) (s : str) : bool :=
  match o with Some t => negb (str_eqb t s) | None => true end.

(* msg.signature[0] == '('   (only evaluated when the body is non-empty, hence
   the signature is) *)
Definition sig_first_is_paren (o : option str) : bool :=
  match o with Some (c :: _) => c =? 40 | _ => false end.

(* ------------------------------------------------------------------------ *)
(* _cbCvtReply(msg, returnSignature); msg is None for expectReply=False      *)

Definition cvt_check_fails (m : msg) (rs : retsig) : bool :=
  match rs with
  | RsNoCheck => false                                   (* == _NO_CHECK_RETURN *)
  | RsNone => truthy_sig (m_sig m)                       (* not returnSignature *)
  | RsStr [] => truthy_sig (m_sig m)
  | RsStr s => negb (truthy_sig (m_sig m)) || sig_ne (m_sig m) s
  end.

Definition cvt_reply (mo : option msg) (rs : retsig) : outcome :=
  match mo with
  | None => OValue None
  | Some m =>
      if cvt_check_fails m rs then OSigMismatch
      else match py_body m with
           | None => OValue None
           | Some [] => OValue None
           | Some [v] => if negb (sig_first_is_paren (m_sig m)) then OValue (Some v)
                         else OValue (Some (VSeq [v]))
           | Some body => OValue (Some (VSeq body))
           end
  end.

(* errorReceived: RemoteError(error_name); message=''; values=[]; if body: ... *)
Definition mk_remote_error (name : str) (m : msg) : outcome :=
  match py_body m with
  | None => ORemote name [] []
  | Some [] => ORemote name [] []
  | Some (VStr s :: r) => ORemote name s (VStr s :: r)
  | Some body => ORemote name [] body
  end.

(* ------------------------------------------------------------------------ *)
(* State                                                                     *)

Record pcall := PCall {
  pc_id : nat;              (* which Deferred (numbered in order of creation) *)
  pc_timer : bool;          (* second component of the tuple is a DelayedCall, not None *)
  pc_rs : retsig            (* returnSignature bound into the Deferred's callback chain *)
}.

Record state := State {
  st_next_serial : N;                (* DBusMessage._nextSerial *)
  st_next_id : nat;                  (* number of Deferreds handed out so far *)
  st_pending : list (N * pcall);     (* _pendingCalls, insertion order *)
  st_timers : list (N * nat);        (* outstanding delayed calls: _onMethodTimeout(serial, d) *)
  st_done : list (nat * outcome);    (* completions delivered to user callbacks, in order *)
  st_fault : bool                    (* an exception escaped the library code
                                        (KeyError, AlreadyCalled/AlreadyCancelled) *)
}.

Definition init (serial0 : N) : state := State serial0 0 [] [] [] false.

Definition set_pending (st : state) (p : list (N * pcall)) : state :=
  State (st_next_serial st) (st_next_id st) p (st_timers st) (st_done st) (st_fault st).
Definition set_timers (st : state) (t : list (N * nat)) : state :=
  State (st_next_serial st) (st_next_id st) (st_pending st) t (st_done st) (st_fault st).
Definition set_fault (st : state) : state :=
  State (st_next_serial st) (st_next_id st) (st_pending st) (st_timers st) (st_done st) true.
(* d.callback / d.errback on Deferred [id], seen through the callback chain *)
Definition complete (st : state) (id : nat) (o : outcome) : state :=
  State (st_next_serial st) (st_next_id st) (st_pending st) (st_timers st)
        (st_done st ++ [(id, o)]) (st_fault st).

(* the reactor's list of delayed calls, keyed by the serial argument of the
   call: look up / take out the first one armed for [serial] *)
Definition find_timer (serial : N) (t : list (N * nat)) : option nat := alist_get N.eqb serial t.
Definition remove_timer (serial : N) (t : list (N * nat)) : list (N * nat) := alist_del N.eqb serial t.

(* timeout.cancel() on the DelayedCall kept in the tuple for [serial];
   cancelling one that already ran or was cancelled raises *)
Definition cancel_timer (st : state) (serial : N) : state :=
  match find_timer serial (st_timers st) with
  | Some _ => set_timers st (remove_timer serial (st_timers st))
  | None => set_fault st
  end.

Definition max_serial : N := 4294967295.   (* header field 'u' *)

(* ------------------------------------------------------------------------ *)
(* callRemote / callRemoteMessage                                            *)

Definition call_remote (st : state) (k : ckind) (timeout : option N) (rs : retsig) : state :=
  let id := st_next_id st in
  let st := State (st_next_serial st) (S id) (st_pending st) (st_timers st) (st_done st) (st_fault st) in
  match k with
  | CkInvalid => complete st id OFailed             (* except Exception: return defer.fail() *)
  | _ =>
      (* _marshal: self.serial = _nextSerial; _nextSerial += 1; then the header is packed *)
      let serial := st_next_serial st in
      let st := State (serial + 1) (st_next_id st) (st_pending st) (st_timers st) (st_done st) (st_fault st) in
      if max_serial <? serial then complete st id OFailed      (* struct.error -> defer.fail() *)
      else match k with
           | CkNormal =>
               let timer := truthy_timeout timeout in
               let st := if timer then set_timers st (st_timers st ++ [(serial, id)]) else st in
               set_pending st (alist_set N.eqb serial (PCall id timer rs) (st_pending st))
           | _ => complete st id (cvt_reply None rs)            (* defer.succeed(None) *)
           end
  end.

(* ------------------------------------------------------------------------ *)
(* methodReturnReceived / errorReceived                                      *)

Definition reply_received (st : state) (serial : N) (o : retsig -> outcome) : state :=
  match alist_get N.eqb serial (st_pending st) with
  | None => st                                      (* .get(..., (None, None)) *)
  | Some pc =>
      let st := if pc_timer pc then cancel_timer st serial else st in
      let st := set_pending st (alist_del N.eqb serial (st_pending st)) in
      complete st (pc_id pc) (o (pc_rs pc))
  end.

Definition method_return_received (st : state) (serial : N) (m : msg) : state :=
  reply_received st serial (fun rs => cvt_reply (Some m) rs).

Definition error_received (st : state) (serial : N) (name : str) (m : msg) : state :=
  reply_received st serial (fun _ => mk_remote_error name m).

(* ------------------------------------------------------------------------ *)
(* _onMethodTimeout(serial, d), run by the reactor                           *)

Definition on_method_timeout (st : state) (serial : N) (id : nat) : state :=
  match alist_get N.eqb serial (st_pending st) with
  | None => set_fault st                            (* del raises KeyError *)
  | Some _ =>
      complete (set_pending st (alist_del N.eqb serial (st_pending st))) id OTimeOut
  end.

Definition timer_fires (st : state) (serial : N) : state :=
  match find_timer serial (st_timers st) with
  | None => st                                      (* nothing armed: nothing runs *)
  | Some id => on_method_timeout (set_timers st (remove_timer serial (st_timers st))) serial id
  end.

(* ------------------------------------------------------------------------ *)
(* connectionLost(reason), busName set                                       *)

Definition lose_one (reason : N) (st : state) (e : N * pcall) : state :=
  let st := if pc_timer (snd e) then cancel_timer st (fst e) else st in
  complete st (pc_id (snd e)) (OLost reason).

Definition connection_lost (st : state) (reason : N) : state :=
  set_pending (fold_left (lose_one reason) (st_pending st) st) [].

(* ------------------------------------------------------------------------ *)

Definition step (st : state) (e : event) : state :=
  match e with
  | ECall k timeout rs => call_remote st k timeout rs
  | EReturn serial m => method_return_received st serial m
  | EError serial name m => error_received st serial name m
  | ETimer serial => timer_fires st serial
  | ELost reason => connection_lost st reason
  end.

Definition run (serial0 : N) (evs : list event) : state := fold_left step evs (init serial0).

Definition completions (st : state) : list (nat * outcome) := st_done st.
Definition pending_serials (st : state) : list N := map fst (st_pending st).
Definition timer_serials (st : state) : list N := map fst (st_timers st).
