(* C05: the unmarshaller of Model/Marshal.v and parseMessage, instrumented with
   work counters.  Definitions only.

   [uc_one] is [Marshal.u_one] with the 17-way dispatch factored through
   [classify] and every result paired with a [cost]:
     calls - one tick per call of an unmarshaller (unmarshallers[tcode](...)),
             plus one per byte of a decoded string / signature (codecs.decode);
     scan  - characters of signature handed to genCompleteTypes (one scan of
             the text per call of marshal.unmarshal: struct / dict entry /
             variant / top level);
     units - "data-paid" work items: array iterations, variants, string bytes.
   Proofs/CostProofs.v proves that erasing the counters gives exactly
   [Marshal.u_one] / [Marshal.m_unmarshal] ([legacy := false]).

   [legacy := true] is unmarshal_array before commit 834e941 (defect D01): an
   iteration that consumed nothing is not rejected. *)
From Tx Require Import Lib.Base Model.PyVal Model.Marshal Model.Message Model.FdFraming.
Local Open Scope N_scope.

Record cost := mkc { calls : nat; scan : nat; units : nat }.
Definition c0 : cost := mkc 0 0 0.
Definition tick : cost := mkc 1 0 0.
Definition cadd (a b : cost) : cost :=
  mkc (calls a + calls b) (scan a + scan b) (units a + units b).

Definition cres (A : Type) : Type := (res A * cost)%type.

Inductive kind :=
| KFix (n : nat)     (* y b n q i u x t d : struct.unpack_from of n bytes *)
| KStr               (* s o *)
| KSig               (* g *)
| KFd                (* h *)
| KArr               (* a *)
| KStruct            (* ( { *)
| KVar               (* v *)
| KBad.              (* KeyError *)

Definition classify (c : N) : kind :=
  if c =? 121 then KFix 1
  else if c =? 98 then KFix 4
  else if c =? 110 then KFix 2
  else if c =? 113 then KFix 2
  else if c =? 105 then KFix 4
  else if c =? 117 then KFix 4
  else if c =? 120 then KFix 8
  else if c =? 116 then KFix 8
  else if c =? 100 then KFix 8
  else if (c =? 115) || (c =? 111) then KStr
  else if c =? 103 then KSig
  else if c =? 104 then KFd
  else if c =? 97 then KArr
  else if (c =? 40) || (c =? 123) then KStruct
  else if c =? 118 then KVar
  else KBad.

Definition signed_code (c : N) : bool := (c =? 110) || (c =? 105) || (c =? 120).

(* the Python value built from the n bytes of a fixed-width type *)
Definition fix_val (le : bool) (c : N) (b : bytes) : pyval :=
  if c =? 98 then PBool (negb (dec_uint le b =? 0))
  else if c =? 100 then PFloat (dec_uint le b)
  else PInt (unpack_int (signed_code c) le b).

(* bytes of text in a decoded leaf *)
Definition str_bytes (r : ures) : nat :=
  match r with Ok (_, PStr s) => length s | _ => 0%nat end.

Definition leaf_cost (r : ures) : cost := mkc (1 + str_bytes r) 0 (str_bytes r).

Section Cost.
  Variables (legacy : bool) (data : bytes) (le : bool) (fds : fdst).

  Definition u_fix (n : nat) (c : N) (off : N) : ures :=
    do b <- take_at n data off; Ok (N.of_nat n, fix_val le c b).

  Definition u_sig_leaf (off : N) : ures :=
    do r <- u_signature data off le; let '(n, s) := r in Ok (n, PStr s).

  Definition u_fd (off : N) : ures :=
    do b <- take_at 4 data off;
    match fds with
    | None => Err EType
    | Some l =>
        let idx := dec_uint le b in
        Ok (4, if idx <? N.of_nat (length l) then nth (N.to_nat idx) l PNone else PNone)
    end.

  Section Loops.
    Variable one : str -> N -> cres (N * pyval).

    (* for ct in genCompleteTypes(sig): ... *)
    Fixpoint uc_seq (n : nat) (sig : str) (off : N) : cres (N * list pyval) :=
      match n with
      | O => (Err EFuel, c0)
      | S n' =>
          match gct_next sig with
          | Err e => (Err e, c0)
          | Ok None => (Ok (off, []), c0)
          | Ok (Some (ct, rest)) =>
              match ct with
              | [] => (Err EOther, c0)
              | tcode :: _ =>
                  match pad_for tcode off with
                  | Err e => (Err e, c0)
                  | Ok p =>
                      let '(r, c1) := one ct (off + p) in
                      match r with
                      | Err e => (Err e, c1)
                      | Ok (nb, v) =>
                          let '(r2, c2) := uc_seq n' rest (off + p + nb) in
                          match r2 with
                          | Err e => (Err e, cadd c1 c2)
                          | Ok (off2, vs) => (Ok (off2, v :: vs), cadd c1 c2)
                          end
                      end
                  end
              end
          end
      end.

    (* while offset < end_offset: ... ; every iteration is one unit *)
    Fixpoint uc_arr (n : nat) (tsig : str) (tcode : N) (off end_off : N) : cres (N * list pyval) :=
      if off <? end_off then
        match n with
        | O => (Err EFuel, c0)
        | S n' =>
            match pad_for tcode off with
            | Err e => (Err e, c0)
            | Ok p =>
                let '(r, c1) := one tsig (off + p) in
                let c1' := cadd (mkc 0 0 1) c1 in
                match r with
                | Err e => (Err e, c1')
                | Ok (nb, v) =>
                    if negb legacy && (nb =? 0) then (Err EMarshal, c1') else
                    let '(r2, c2) := uc_arr n' tsig tcode (off + p + nb) end_off in
                    match r2 with
                    | Err e => (Err e, cadd c1' c2)
                    | Ok (off2, vs) => (Ok (off2, v :: vs), cadd c1' c2)
                    end
                end
            end
        end
      else (Ok (off, []), c0).
  End Loops.

  Fixpoint uc_one (fuel : nat) (ct : str) (off : N) : cres (N * pyval) :=
    match fuel with
    | O => (Err EFuel, c0)
    | S f =>
        match ct with
        | [] => (Err EOther, c0)
        | tcode :: tsig =>
            match classify tcode with
            | KFix n => (u_fix n tcode off, tick)
            | KStr => let r := u_string data off le in (r, leaf_cost r)
            | KSig => let r := u_sig_leaf off in (r, leaf_cost r)
            | KFd => (u_fd off, tick)
            | KArr =>
                match take_at 4 data off with
                | Err e => (Err e, tick)
                | Ok lb =>
                    let dlen := dec_uint le lb in
                    match tsig with
                    | [] => (Err EIndex, tick)
                    | ecode :: _ =>
                        match pad_for ecode (off + 4) with
                        | Err e => (Err e, tick)
                        | Ok ip =>
                            let start := off + 4 + ip in
                            let end_off := start + dlen in
                            let '(r, c) := uc_arr (uc_one f) (S (length data)) tsig ecode start end_off in
                            let c' := cadd tick c in
                            match r with
                            | Err e => (Err e, c')
                            | Ok (off2, vs) =>
                                if negb (off2 =? end_off) then (Err EMarshal, c')
                                else if ecode =? 123 then
                                       match build_dict vs [] with
                                       | Err e => (Err e, c')
                                       | Ok d => (Ok (off2 - off, PDict d), c')
                                       end
                                     else (Ok (off2 - off, PList vs), c')
                            end
                        end
                    end
                end
            | KStruct =>
                let inner := strip_ends ct in
                let '(r, c) := uc_seq (uc_one f) (S (length inner)) inner off in
                let c' := cadd (mkc 1 (length ct) 0) c in
                match r with
                | Err e => (Err e, c')
                | Ok (off2, vs) => (Ok (off2 - off, PList vs), c')
                end
            | KVar =>
                match u_signature data off le with
                | Err e => (Err e, tick)
                | Ok (nsig, vsig) =>
                    match vsig with
                    | [] => (Err EIndex, tick)
                    | vcode :: _ =>
                        match pad_for vcode (off + nsig) with
                        | Err e => (Err e, tick)
                        | Ok p =>
                            let '(r, c) := uc_seq (uc_one f) (S (length vsig)) vsig (off + nsig + p) in
                            let c' := cadd (mkc 1 (length vsig) 1) c in
                            match r with
                            | Err e => (Err e, c')
                            | Ok (off2, vs) =>
                                match vs with
                                | [] => (Err EIndex, c')
                                | v0 :: _ => (Ok (nsig + p + (off2 - (off + nsig + p)), v0), c')
                                end
                            end
                        end
                    end
                end
            | KBad => (Err EKey, tick)
            end
        end
    end.

  (* marshal.unmarshal(sig, data, off, le, fds) *)
  Definition mc_unmarshal (fuel : nat) (sig : str) (off : N) : cres (N * list pyval) :=
    let '(r, c) := uc_seq (uc_one fuel) (S (length sig)) sig off in
    let c' := cadd (mkc 0 (length sig) 0) c in
    match r with
    | Err e => (Err e, c')
    | Ok (off2, vs) => (Ok (off2 - off, vs), c')
    end.
End Cost.

(* fuel that always suffices (Props/C05.v): linear in |sig| + |data| *)
Definition lin_fuel (sig : str) (data : bytes) : nat := S (S (length sig + length data)).

(* the model nests deeper than [d] on this input (Python: RecursionError territory) *)
Definition deeper_than (d : nat) (sig : str) (data : bytes) (off : N) (le : bool) (fds : fdst) : bool :=
  match m_unmarshal d sig data off le fds with Err EFuel => true | _ => false end.

(* ---------------------------------------------------------------------------
   size of a decoded value: one per node plus the bytes of every string          *)

Fixpoint vsize (v : pyval) : nat :=
  match v with
  | PStr s | PBytes s => S (length s)
  | PList l | PTuple l | PObj l => S (fold_right (fun x n => (vsize x + n)%nat) 0%nat l)
  | PDict l => S (fold_right (fun kv n => (vsize (fst kv) + vsize (snd kv) + n)%nat) 0%nat l)
  | PWrap _ x => S (vsize x)
  | _ => 1%nat
  end.

Definition vsize_list (l : list pyval) : nat := fold_right (fun x n => (vsize x + n)%nat) 0%nat l.

(* ---------------------------------------------------------------------------
   parseMessage with the signature header field validated (repair D35) and the
   descriptor list cut to the message's own UNIX_FDS count (repair D60): a
   truthy signature that is not a str of at most 255 characters raises
   MarshallingError.  Message.parse_message is the pre-repair definition. *)

(* len(s) of a Python str carried as UTF-8: bytes that are not continuation bytes *)
Definition ulen (s : bytes) : nat := length (filter (fun x => negb (cont x)) s).

Definition msg_of (mt : Z) (serial : Z) (er au : bool) (attrs : list (attr * pyval))
           (body : option (list pyval)) : parsed :=
  (Z.to_N mt, serial, er, au, attrs, body).

(* hval[1], hval[2], hval[5], hval[6] of a decoded header *)
Definition hdr_view (hval : list pyval) : option (Z * Z * Z * list pyval) :=
  match hval with
  | [_; PInt mt; PInt flags; _; _; PInt serial; PList fields] => Some (mt, flags, serial, fields)
  | _ => None
  end.

(* "if m.signature:" followed by the D35 validation: the signature to decode the body with.
   len(m.signature) > 255 counts characters; a PStr carries the UTF-8 encoding of a Python str
   (representation invariant of Marshal.v: every str the decoder builds passed utf8_valid /
   is_ascii), so at most 255 characters are at most 4*255 bytes - the second disjunct is
   implied by the first for every representable str and only makes the byte bound available
   without threading that invariant through the decoder. *)
Definition body_sig (attrs : list (attr * pyval)) : res (option str) :=
  match get_attr ASignature attrs with
  | Some sv =>
      if truthy sv then
        match sv with
        | PStr sig => if ((255 <? ulen sig) || (1020 <? length sig))%nat then Err EMarshal else Ok (Some sig)
        | _ => Err EMarshal
        end
      else Ok None
  | None => Ok None
  end.

Definition body_of (nheader : N) (raw : bytes) : bytes :=
  skipn (N.to_nat (N.min (nheader + pad_len 8 nheader) (len raw))) raw.

Definition parse_c (raw : bytes) (fds : fdst) : cres parsed :=
  match raw with
  | [] => (Err EIndex, c0)
  | b0 :: _ =>
      let le := b0 =? 108 in
      let '(r, c1) := mc_unmarshal false raw le fds (lin_fuel header_format raw) header_format 0 in
      match r with
      | Err e => (Err e, c1)
      | Ok (nheader, hval) =>
          match hdr_view hval with
          | None => (Err EOther, c1)
          | Some (mt, flags, serial, fields) =>
              if negb ((1 <=? mt) && (mt <=? 4))%Z then (Err EMarshal, c1)
              else
                let raw_body := body_of nheader raw in
                let c2 := cadd c1 (mkc (length fields) 0 0) in       (* the setattr loop *)
                match set_fields fields [] with
                | Err e => (Err e, c2)
                | Ok attrs =>
                    let er := Z.even flags in
                    let au := Z.even (flags / 2) in
                    match body_sig attrs with
                    | Err e => (Err e, c2)
                    | Ok None => (Ok (msg_of mt serial er au attrs None), c2)
                    | Ok (Some sig) =>
                        (* repair D60: oobFDs = oobFDs[:getattr(m, 'unix_fds', 0)] (FdFraming.body_fds);
                           a UNIX_FDS field that is not an int / bool / None makes the slice raise *)
                        match body_fds false attrs fds with
                        | Err e => (Err e, c2)
                        | Ok bf =>
                            let '(rb, c3) := mc_unmarshal false raw_body le bf (lin_fuel sig raw_body) sig 0 in
                            match rb with
                            | Err e => (Err e, cadd c2 c3)
                            | Ok (_, body) => (Ok (msg_of mt serial er au attrs (Some body)), cadd c2 c3)
                            end
                        end
                    end
                end
          end
      end
  end.

(* the same without counters, written against Marshal.m_unmarshal; the fuel of
   the two unmarshal calls is a parameter ([fh], [fb sig body]) *)
Definition parse_gen (fh : nat) (fb : str -> bytes -> nat) (raw : bytes) (fds : fdst) : res parsed :=
  match raw with
  | [] => Err EIndex
  | b0 :: _ =>
      let le := b0 =? 108 in
      do r <- m_unmarshal fh header_format raw 0 le fds;
      let '(nheader, hval) := r in
      match hdr_view hval with
      | None => Err EOther
      | Some (mt, flags, serial, fields) =>
          if negb ((1 <=? mt) && (mt <=? 4))%Z then Err EMarshal
          else
            let raw_body := body_of nheader raw in
            do attrs <- set_fields fields [];
            let er := Z.even flags in
            let au := Z.even (flags / 2) in
            do os <- body_sig attrs;
            match os with
            | None => Ok (msg_of mt serial er au attrs None)
            | Some sig =>
                do bf <- body_fds false attrs fds;
                do rb <- m_unmarshal (fb sig raw_body) sig raw_body 0 le bf;
                let '(_, body) := rb in
                Ok (msg_of mt serial er au attrs (Some body))
            end
      end
  end.

(* parseMessage: each unmarshal call gets the fuel that always suffices for it *)
Definition parse_message_v2 (raw : bytes) (fds : fdst) : res parsed :=
  parse_gen (lin_fuel header_format raw) lin_fuel raw fds.

(* fuel for the pre-repair Message.parse_message (one fuel for both calls) *)
Definition msg_fuel (raw : bytes) : nat := S (S (S (length header_format + 2 * length raw))).

Definition attrs_size (l : list (attr * pyval)) : nat :=
  fold_right (fun av n => (vsize (snd av) + n)%nat) 0%nat l.

Definition parsed_size (m : parsed) : nat :=
  let '(_, _, _, _, attrs, body) := m in
  (attrs_size attrs + match body with Some b => vsize_list b | None => 0 end)%nat.
