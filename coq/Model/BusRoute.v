(* Faithful model of message delivery by txdbus's built-in bus (txdbus/bus.py):

     BusProtocol.rawDBusMessageReceived   parse, unique name on the first message, Hello,
                                          loseConnection for a call that precedes Hello,
                                          sender overwrite, re-serialisation with the
                                          original serial (_marshal(False, rawBody=...))
     Bus.clientConnected / clientDisconnected
     Bus.messageReceived                  bus calls, forwarding, routing by match rules
     Bus.sendMessage                      destination resolution (unique / well-known name)
     Bus.sendSignal / broadcastSignal     NameAcquired / NameLost / NameOwnerChanged
     Bus.dbus_AddMatch                    rule text -> router.addMatch(caller.sendMessage, ...)

   built ON TOP of Model/BusNames.v (the name table; every name operation goes through
   BusNames.step) and Model/Router.v (parse_rule, compile, matches).

   A connection is identified by the number clientConnected gave it (its unique name is
   ":1.k").  A connection that has not sent anything yet is unknown to the bus: it is in
   no table, nothing can be addressed to it and losing it changes nothing; so a history
   starts a connection with its first message (EFirst).

   A message is what the bus reads of it and writes again: byte order, type, flags byte,
   serial, the header fields of message.py's class tables (Message.hattrs), the raw body
   bytes, and the decoded body as far as match rules and bus methods look at it (g_args:
   strings, and everything else as an opaque number - a UINT32 argument is AOther of its
   value).  g_rs_signed says that REPLY_SERIAL is carried as INT32 instead of UINT32 (never
   in a message a conforming peer sends; the pre-repair bus produced it).

   Outputs of a step: the messages written to each connection's transport, in the order
   written: forwarded peer messages (DFwd), the bus's own replies (DReply, identified by
   the serial they answer) and signals (DSignal); whether transport.loseConnection() was
   called on the originating connection; the connection number given by clientConnected.

   [step] describes the tree WITH the repairs D24 (an addressed message is not also routed
   through the match rules), D25 (the body is forwarded as received, in the original byte
   order; REPLY_SERIAL stays UINT32), D50 (AddMatch records the rule id, so a disconnected
   client's rules are removed) and D53 (header flag bits the bus does not interpret are
   kept).  [step_legacy] is the tree before them.  Definitions only. *)
From Tx Require Import Lib.Base Lib.Sexp Model.PyVal Model.Marshal Model.Validators Model.BusNames.
From Tx Require Model.Message Model.Router.
Local Open Scope N_scope.

Definition bus_name : str := [111; 114; 103; 46; 102; 114; 101; 101; 100; 101; 115; 107; 116; 111; 112; 46; 68; 66; 117; 115].   (* org.freedesktop.DBus *)
Definition bus_path : str := [47; 111; 114; 103; 47; 102; 114; 101; 101; 100; 101; 115; 107; 116; 111; 112; 47; 68; 66; 117; 115].   (* /org/freedesktop/DBus *)
Definition s_Hello : str := [72; 101; 108; 108; 111].   (* Hello *)
Definition s_RequestName : str := [82; 101; 113; 117; 101; 115; 116; 78; 97; 109; 101].   (* RequestName *)
Definition s_ReleaseName : str := [82; 101; 108; 101; 97; 115; 101; 78; 97; 109; 101].   (* ReleaseName *)
Definition s_GetNameOwner : str := [71; 101; 116; 78; 97; 109; 101; 79; 119; 110; 101; 114].   (* GetNameOwner *)
Definition s_ListQueuedOwners : str := [76; 105; 115; 116; 81; 117; 101; 117; 101; 100; 79; 119; 110; 101; 114; 115].   (* ListQueuedOwners *)
Definition s_AddMatch : str := [65; 100; 100; 77; 97; 116; 99; 104].   (* AddMatch *)
Definition s_NameOwnerChanged : str := [78; 97; 109; 101; 79; 119; 110; 101; 114; 67; 104; 97; 110; 103; 101; 100].   (* NameOwnerChanged *)
Definition sig_s : str := [115].   (* s *)
Definition sig_su : str := [115; 117].   (* su *)
Definition sig_sss : str := [115; 115; 115].   (* sss *)

(* ---- messages ------------------------------------------------------------------------ *)
Record bmsg := mkB {
  g_le : bool;                          (* little-endian *)
  g_type : N;                           (* 1 call, 2 return, 3 error, 4 signal *)
  g_flags : N;                          (* the header flags byte *)
  g_serial : N;
  g_path : option str;
  g_interface : option str;
  g_member : option str;
  g_error_name : option str;
  g_reply_serial : option N;
  g_destination : option str;
  g_sender : option str;                (* whatever the originator wrote there *)
  g_signature : option str;
  g_body : bytes;                       (* the raw body *)
  g_args : option (list Router.arg);    (* msg.body as match rules and bus methods see it; None: no body *)
  g_rs_signed : bool
}.

(* what Rule.match reads of a message *)
Definition view (m : bmsg) : Router.msg :=
  Router.mkMsg (g_type m) (g_path m) (g_interface m) (g_member m) (g_destination m) (g_sender m)
               (g_signature m) (g_args m).

(* message._mtype: the four message types *)
Definition valid_type (m : bmsg) : bool := (1 <=? g_type m) && (g_type m <=? 4).

(* `x == 'text'` on None-or-str; `if x:` on None-or-str *)
Definition opt_is (v : str) (o : option str) : bool :=
  match o with Some s => str_eqb s v | None => false end.
Definition truthy_s (o : option str) : bool :=
  match o with Some (_ :: _) => true | _ => false end.

(* ---- re-serialisation: msg.sender = uniqueName; msg._marshal(False, rawBody=msg.rawBody) --- *)
(* _marshal writes the header fields of the class table of the message's type that are not
   None; attributes outside the table are not written *)
Definition has (ty : N) (a : Message.attr) : bool := existsb (Message.attr_eqb a) (Message.hattrs ty).
Definition keep {A} (ty : N) (a : Message.attr) (v : option A) : option A := if has ty a then v else None.

(* msg.sender = self.uniqueName: the message object with its sender attribute overwritten *)
Definition with_sender (u : str) (m : bmsg) : bmsg :=
  mkB (g_le m) (g_type m) (g_flags m) (g_serial m) (g_path m) (g_interface m) (g_member m) (g_error_name m)
      (g_reply_serial m) (g_destination m) (Some u) (g_signature m) (g_body m) (g_args m) (g_rs_signed m).

(* what _marshal(False, rawBody=msg.rawBody) writes of a message object *)
Definition written (m : bmsg) : bmsg :=
  let t := g_type m in
  mkB (g_le m) t (g_flags m) (g_serial m)
      (keep t Message.APath (g_path m)) (keep t Message.AInterface (g_interface m))
      (keep t Message.AMember (g_member m)) (keep t Message.AErrorName (g_error_name m))
      (keep t Message.AReplySerial (g_reply_serial m)) (keep t Message.ADestination (g_destination m))
      (keep t Message.ASender (g_sender m)) (keep t Message.ASignature (g_signature m))
      (g_body m) (g_args m) (g_rs_signed m).

Definition remarshal (u : str) (m : bmsg) : res bmsg := Ok (written (with_sender u m)).

(* Before D25/D53: _marshal(False) encodes msg.body again from the decoded Python values
   (variant contents are typed by inference), always little-endian; only the two flag bits
   parseMessage reads survive; reply_serial, a plain int after parsing, is written as a
   variant of INT32 (struct.error above 2^31-1: the exception escapes dataReceived). *)
Definition reencode (sig : str) (le : bool) (raw : bytes) : res bytes :=
  do r <- m_unmarshal (fuel_for sig (2 * length raw + 260)%nat) sig raw 0 le None;
  let vals := PList (snd r) in
  do w <- m_marshal (length sig + 4 * pv_size vals + 48)%nat sig vals 0 true None;
  Ok (snd (fst w)).

Definition remarshal_legacy (u : str) (m : bmsg) : res bmsg :=
  let t := g_type m in
  do body <- (if truthy_s (g_signature m)
              then match g_signature m with Some sg => reencode sg (g_le m) (g_body m) | None => Ok [] end
              else Ok []);
  do rs <- match keep t Message.AReplySerial (g_reply_serial m) with
           | Some v => if 2147483647 <? v then Err EOther else Ok (Some v)
           | None => Ok None
           end;
  Ok (mkB true t (N.land (g_flags m) 3) (g_serial m)
          (keep t Message.APath (g_path m)) (keep t Message.AInterface (g_interface m))
          (keep t Message.AMember (g_member m)) (keep t Message.AErrorName (g_error_name m))
          rs (keep t Message.ADestination (g_destination m))
          (keep t Message.ASender (Some u)) (keep t Message.ASignature (g_signature m))
          body (g_args m) (match rs with Some _ => true | None => g_rs_signed m end)).

(* ---- the bus's own methods, as far as delivery depends on them --------------------------- *)
Inductive busop :=
| BHello
| BRequest (n : name) (flags : N)
| BRelease (n : name)
| BGetOwner (n : name)
| BListQueued (n : name)
| BAddMatch (text : str)
| BOther.                      (* anything else: answered (return or error), no effect on delivery *)

(* msig == esig with None read as '' *)
Definition sig_is (s : str) (o : option str) : bool :=
  str_eqb (match o with Some x => x | None => [] end) s.

(* objects.py handleMethodCallMessage on the bus's single exported object: the path must
   be the bus object's, the interface absent/empty (method found by name) or the bus
   interface, the signature the declared one *)
Definition bus_op_of (m : bmsg) : busop :=
  if negb (opt_is bus_path (g_path m)) then BOther
  else if truthy_s (g_interface m) && negb (opt_is bus_name (g_interface m)) then BOther
  else
    match g_member m with
    | None => BOther
    | Some mb =>
        if str_eqb mb s_Hello then (if sig_is [] (g_signature m) then BHello else BOther)
        else if str_eqb mb s_RequestName then
          match sig_is sig_su (g_signature m), g_args m with
          | true, Some [Router.AStr n; Router.AOther f] => BRequest n f
          | _, _ => BOther
          end
        else if str_eqb mb s_ReleaseName then
          match sig_is sig_s (g_signature m), g_args m with
          | true, Some [Router.AStr n] => BRelease n
          | _, _ => BOther
          end
        else if str_eqb mb s_GetNameOwner then
          match sig_is sig_s (g_signature m), g_args m with
          | true, Some [Router.AStr n] => BGetOwner n
          | _, _ => BOther
          end
        else if str_eqb mb s_ListQueuedOwners then
          match sig_is sig_s (g_signature m), g_args m with
          | true, Some [Router.AStr n] => BListQueued n
          | _, _ => BOther
          end
        else if str_eqb mb s_AddMatch then
          match sig_is sig_s (g_signature m), g_args m with
          | true, Some [Router.AStr t] => BAddMatch t
          | _, _ => BOther
          end
        else BOther
    end.

(* what the bus answers a call with *)
Inductive answer :=
| AName (r : reply)      (* the name table's answer (BusNames.reply) *)
| AOk                    (* a method return without values *)
| AErr                   (* an error reply *)
| AAny.                  (* one reply, method return or error (methods that are not modelled) *)

Inductive delivery :=
| DFwd (m : bmsg)                    (* a peer's message, as written to the receiver *)
| DReply (serial : N) (a : answer)   (* the bus's reply to the call with that serial *)
| DSignal (s : signal).              (* NameAcquired / NameLost / NameOwnerChanged from the bus *)

Record rout := mkROut {
  d_named : option client;                (* clientConnected ran: the number given *)
  d_deliv : list (client * delivery);     (* transport writes, in order *)
  d_close : bool                          (* transport.loseConnection() on the originating connection *)
}.

Definition quiet_out : rout := mkROut None [] false.

(* ---- state -------------------------------------------------------------------------------- *)
Record state := mkSt {
  r_bus : bus;                                         (* Bus.clients, busNames, next_id; BusProtocol.busNames *)
  r_hello : list client;                               (* BusProtocol._called_hello *)
  r_next_rule : nat;                                   (* MessageRouter._id *)
  r_rules : list (nat * (client * Router.rule))        (* MessageRouter._rules (insertion order): id -> rule whose
                                                          callback is that connection's sendMessage *)
}.

Definition init_state : state := mkSt BusNames.init [] 0 [].

(* MessageRouter.routeMessage: one callback call per rule that matches, in table order *)
Definition receivers (rules : list (nat * (client * Router.rule))) (v : Router.msg) : list client :=
  flat_map (fun e => if Router.matches (snd (snd e)) v then [fst (snd e)] else []) rules.

(* SignalMessage('/org/freedesktop/DBus', 'NameOwnerChanged', 'org.freedesktop.DBus', None, 'sss', [...]) *)
Definition noc_view (n old new : str) : Router.msg :=
  Router.mkMsg 4 (Some bus_path) (Some bus_name) (Some s_NameOwnerChanged) None None (Some sig_sss)
               (Some [Router.AStr n; Router.AStr old; Router.AStr new]).

(* sendSignal writes to the connection itself; broadcastSignal goes through the router *)
Definition deliver_signal (rules : list (nat * (client * Router.rule))) (s : signal) : list (client * delivery) :=
  match s with
  | NameAcquired to _ => [(to, DSignal s)]
  | NameLost to _ => [(to, DSignal s)]
  | NameOwnerChanged n old new => map (fun c => (c, DSignal s)) (receivers rules (noc_view n old new))
  end.

(* Bus.sendMessage: destination[0] == ':' -> self.clients.get(destination), else the head of
   self.busNames.get(destination) *)
Definition resolve (b : bus) (d : str) : option client :=
  match d with
  | [] => None
  | ch :: _ =>
      if ch =? c_colon then find (fun x => str_eqb (unique_name x) d) (b_clients b)
      else match nget (b_names b) d with Some (o :: _) => Some o | _ => None end
  end.

(* the reply goes to msg.sender, the caller's unique name, unless the call says NO_REPLY_EXPECTED *)
Definition reply_to (c : client) (m : bmsg) (a : answer) : list (client * delivery) :=
  if N.testbit (g_flags m) 0 then [] else [(c, DReply (g_serial m) a)].

Definition set_bus (s : state) (b : bus) : state := mkSt b (r_hello s) (r_next_rule s) (r_rules s).

(* a name operation: BusNames.step, its signals, then the reply *)
Definition name_call (s : state) (c : client) (m : bmsg) (o : op) : state * list (client * delivery) :=
  let (b', x) := BusNames.step (r_bus s) o in
  (set_bus s b', flat_map (deliver_signal (r_rules s)) (o_signals x) ++ reply_to c m (AName (o_reply x))).

Inductive event :=
| EFirst (m : bmsg)                 (* a new connection's first message *)
| ESend (c : client) (m : bmsg)     (* a further message of connection c *)
| EDisconnect (c : client).         (* connectionLost on c's transport *)

(* methodCallReceived for destination org.freedesktop.DBus: obj_handler.handleMethodCallMessage *)
Section Route.
  Variable remarshal_f : str -> bmsg -> res bmsg.
  Variable route_addressed : bool.    (* before D24: every message is also routed through the rules *)
  Variable keep_dead_rules : bool.    (* before D50: the ids are not recorded, the rules of a lost client stay *)

  Definition bus_call (s : state) (c : client) (m : bmsg) : state * list (client * delivery) :=
    match bus_op_of m with
    | BHello => (s, reply_to c m AErr)                 (* dbus_Hello raises: 'Already handled an Hello message' *)
    | BRequest n f => name_call s c m (Request c n f)
    | BRelease n => name_call s c m (Release c n)
    | BGetOwner n => name_call s c m (GetOwner c n)
    | BListQueued n => name_call s c m (ListQueued c n)
    | BAddMatch text =>
        match Router.parse_rule text with
        | Ok r =>
            match Router.compile r with
            | Ok _ =>
                (mkSt (r_bus s) (r_hello s) (S (r_next_rule s)) (r_rules s ++ [(r_next_rule s, (c, r))]),
                 reply_to c m AOk)
            | Err _ => (s, reply_to c m AErr)
            end
        | Err _ => (s, reply_to c m AErr)
        end
    | BOther => (s, reply_to c m AAny)
    end.

  (* Bus.messageReceived: mo is the message object (attributes as parsed, sender overwritten) that
     the decisions read; m is what its rawMessage now holds, i.e. what sendMessage writes *)
  Definition message_received (s : state) (c : client) (mo m : bmsg) : state * list (client * delivery) :=
    let dest := g_destination mo in
    let to_bus := opt_is bus_name dest in
    let '(s1, d1) := if (g_type mo =? 1) && to_bus then bus_call s c mo else (s, []) in
    let d2 := if truthy_s dest && negb to_bus
              then match dest with
                   | Some d => match resolve (r_bus s1) d with Some o => [(o, DFwd m)] | None => [] end
                   | None => []
                   end
              else [] in
    let d3 := if route_addressed || negb (truthy_s dest)
              then map (fun x => (x, DFwd m)) (receivers (r_rules s1) (view mo))
              else [] in
    (s1, d1 ++ d2 ++ d3).

  (* BusProtocol.rawDBusMessageReceived for a connection that has its unique name *)
  Definition recv (s : state) (c : client) (m : bmsg) : state * rout :=
    let pre := negb (mem c (r_hello s)) && (g_type m =? 1) in
    let to_bus := opt_is bus_name (g_destination m) in
    if pre && to_bus && opt_is s_Hello (g_member m) then
      (mkSt (r_bus s) (c :: r_hello s) (r_next_rule s) (r_rules s),
       mkROut None [(c, DReply (g_serial m) (AName (RHello (unique_name c))))] false)
    else
      let close := pre && negb to_bus in
      match remarshal_f (unique_name c) m with
      | Err _ => (s, mkROut None [] true)       (* the exception escapes dataReceived: Twisted drops the connection *)
      | Ok m' =>
          let (s', d) := message_received s c (with_sender (unique_name c) m) m' in
          (s', mkROut None d close)
      end.

  (* parseMessage comes first: a message of no known type raises before anything else happens
     (no unique name is given); the exception escapes dataReceived *)
  Definition step_with (s : state) (e : event) : state * rout :=
    match e with
    | EFirst m =>
        if negb (valid_type m) then (s, mkROut None [] true) else
        let c := b_next (r_bus s) in
        let s0 := set_bus s (fst (BusNames.step (r_bus s) Connect)) in
        let (s1, o) := recv s0 c m in
        (s1, mkROut (Some c) (d_deliv o) (d_close o))
    | ESend c m =>
        if mem c (b_clients (r_bus s)) then
          if negb (valid_type m) then (s, mkROut None [] true) else recv s c m
        else (s, quiet_out)
    | EDisconnect c =>
        if mem c (b_clients (r_bus s)) then
          let rules' := if keep_dead_rules then r_rules s
                        else filter (fun e => negb (N.eqb c (fst (snd e)))) (r_rules s) in
          let (b', x) := BusNames.step (r_bus s) (Disconnect c) in
          (mkSt b' (r_hello s) (r_next_rule s) rules',
           mkROut None (flat_map (deliver_signal rules') (o_signals x)) false)
        else (s, quiet_out)
    end.

  Fixpoint run_from_with (s : state) (h : list event) : state * list rout :=
    match h with
    | [] => (s, [])
    | e :: r =>
        let (s1, x) := step_with s e in
        let (s2, xs) := run_from_with s1 r in
        (s2, x :: xs)
    end.
End Route.

Definition step := step_with remarshal false false.
Definition step_legacy := step_with remarshal_legacy true true.
Definition run_from := run_from_with remarshal false false.
Definition run (h : list event) : state * list rout := run_from init_state h.
Definition run_legacy (h : list event) : state * list rout := run_from_with remarshal_legacy true true init_state h.

(* the forwarded peer messages among the writes of a step, in order *)
Definition fwds (o : rout) : list (client * bmsg) :=
  flat_map (fun x => match snd x with DFwd m => [(fst x, m)] | _ => [] end) (d_deliv o).

(* the bus's replies among the writes of a step: (to whom, the serial answered) *)
Definition replies (o : rout) : list (client * N) :=
  flat_map (fun x => match snd x with DReply n _ => [(fst x, n)] | _ => [] end) (d_deliv o).
