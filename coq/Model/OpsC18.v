(* Harness entry points for C18: (18 <string>) -> five (model legacy spec) triples. *)
From Tx Require Import Lib.Base Lib.Sexp Model.Validators Spec.Grammar.
Local Open Scope Z_scope.

Definition op (args : list sexp) : sexp :=
  match args with
  | [s] =>
      match as_str s with
      | None => bad
      | Some n =>
          let t (m l g : bool) := SList [sbool m; sbool l; sbool g] in
          SList [ t (validate_path n) (validate_path n) (g_path n);
                  t (validate_iface n) (validate_iface_legacy n) (g_interface n);
                  t (validate_error n) (validate_iface_legacy n) (g_error n);
                  t (validate_bus n) (validate_bus_legacy n) (g_bus n);
                  t (validate_member n) (validate_member n) (g_member n) ]
      end
  | _ => bad
  end.

