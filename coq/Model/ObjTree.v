(* Model of the exported-object table of txdbus/objects.py
   (DBusObjectHandler.exports / exportObject / unexportObject /
   getManagedObjects / the built-in branches of handleMethodCallMessage) and
   of the child-node computation of txdbus/introspection.py
   (generateIntrospectionXML), statement by statement.

   Object paths are Python strings (lists of code points).  `exports` is a
   Python dict: an association list with insertion order kept
   (Base.alist_set / alist_get / alist_del).

   An exported object is the data the handler obtains from it through the
   IDBusObject interface: getObjectPath(), and for every interface returned
   by getInterfaces() its name together with getAllProperties(name) (the
   readable properties; how that dictionary is computed is property C17).
   `P` is the type of such a property dictionary; `o_id` is an identity tag
   (which Python object this is), used to say where an ordinary call lands.

   Definitions suffixed _legacy are the code of the pinned commit, before
   the repairs D14 (getManagedObjects) and D29 (introspection at "/"). *)
From Tx Require Import Lib.Base.
From Tx Require Import Model.Validators.
Local Open Scope N_scope.

Section ObjTree.
  Variable P : Type.

  Record obj := mkObj {
    o_id : N;
    o_path : str;                      (* getObjectPath() *)
    o_ifaces : list (str * P)          (* [(i.name, getAllProperties(i.name)) for i in getInterfaces()] *)
  }.

  Definition exports := list (str * obj).      (* self.exports, a dict *)

  (* messages handed to conn.sendMessage by export / unexport *)
  Inductive signal :=
  | SigAdded (hdr_path : str) (body_path : str) (ifaces : list (str * P))
      (* SignalMessage(path, 'InterfacesAdded', 'org.freedesktop.DBus.ObjectManager',
                       'sa{sa{sv}}', [path, {iface: props}]) *)
  | SigRemoved (hdr_path : str) (body_path : str) (names : list str).
      (* SignalMessage(path, 'InterfacesRemoved', ..., 'sas', [path, [iface names]]) *)

  (* i = {}; for iface in o.getInterfaces(): i[iface.name] = o.getAllProperties(iface.name) *)
  Definition iface_dict (o : obj) : list (str * P) :=
    fold_left (fun d np => alist_set str_eqb (fst np) (snd np) d) (o_ifaces o) [].

  (* exportObject: the table is updated first; building the SignalMessage
     marshals its header, whose path field (type 'o') is validated, so an
     object with an ill-formed path stays in the table while
     MarshallingError escapes and nothing is sent. *)
  Definition export_object (o : obj) (s : exports) : exports * res signal :=
    let s' := alist_set str_eqb (o_path o) o s in
    (s', if validate_path (o_path o)
         then Ok (SigAdded (o_path o) (o_path o) (iface_dict o))
         else Err EMarshal).

  (* unexportObject: o = self.exports[objectPath] (KeyError); del; signal
     with o.getObjectPath() and the list of interface names. *)
  Definition unexport_object (p : str) (s : exports) : exports * res signal :=
    match alist_get str_eqb p s with
    | None => (s, Err EKey)
    | Some o =>
        (alist_del str_eqb p s,
         if validate_path (o_path o)
         then Ok (SigRemoved (o_path o) (o_path o) (map fst (o_ifaces o)))
         else Err EMarshal)
    end.

  (* sorted(self.exports.keys()): code-point lexicographic order *)
  Fixpoint str_leb (a b : str) : bool :=
    match a, b with
    | [], _ => true
    | _ :: _, [] => false
    | x :: a', y :: b' => if x =? y then str_leb a' b' else x <? y
    end.

  Fixpoint insert_sorted (x : str) (l : list str) : list str :=
    match l with
    | [] => [x]
    | y :: l' => if str_leb x y then x :: l else y :: insert_sorted x l'
    end.

  Definition sort_paths (l : list str) : list str := fold_right insert_sorted [] l.

  (* objectPath if objectPath.endswith('/') else objectPath + '/' *)
  Definition path_prefix (p : str) : str :=
    if ends_with_char c_slash p then p else p ++ [c_slash].

  (* getManagedObjects.  `d` is a fresh dict filled in the order of the
     sorted (hence distinct) keys, so every assignment d[p] = i appends. *)
  Definition managed_with (beneath : str -> bool) (objectPath : str) (s : exports)
    : list (str * list (str * P)) :=
    flat_map (fun p =>
                if negb (beneath p) || str_eqb p objectPath then []
                else match alist_get str_eqb p s with
                     | Some o => [(p, iface_dict o)]
                     | None => []          (* unreachable: p is a key *)
                     end)
             (sort_paths (map fst s)).

  (* current: p.startswith(prefix) with prefix ending in '/' *)
  Definition get_managed (objectPath : str) (s : exports) :=
    managed_with (starts_with (path_prefix objectPath)) objectPath s.

  (* pinned commit (D14): p.startswith(objectPath) *)
  Definition get_managed_legacy (objectPath : str) (s : exports) :=
    managed_with (starts_with objectPath) objectPath s.

  (* generateIntrospectionXML, child nodes:
       if not objectPath.endswith('/'): objectPath += '/'
       for path in exportedObjects.keys():
           if path.startswith(objectPath) [and path != objectPath]:
               path = path[len(objectPath):].partition('/')[0]
               if path not in matches: matches.append(path)            *)
  Definition intro_children_with (exclude_self : bool) (objectPath : str) (s : exports) : list str :=
    let op := path_prefix objectPath in
    fold_left (fun matches path =>
                 if starts_with op path && negb (exclude_self && str_eqb path op) then
                   let c := hd [] (split_on c_slash (skipn (length op) path)) in
                   if existsb (str_eqb c) matches then matches else matches ++ [c]
                 else matches)
              (map fst s) [].

  (* None = the function returns None; Some (has_obj, children): XML with the
     object's interfaces iff an object is exported at objectPath, and one
     <node name=c/> per child *)
  Definition introspect_with (exclude_self : bool) (objectPath : str) (s : exports)
    : option (bool * list str) :=
    let obj := alist_get str_eqb objectPath s in
    let m := intro_children_with exclude_self objectPath s in
    match obj, m with
    | None, [] => None
    | _, _ => Some (match obj with Some _ => true | None => false end, m)
    end.

  Definition introspect := introspect_with true.
  Definition introspect_legacy := introspect_with false.     (* pinned commit (D29) *)

  (* handleMethodCallMessage, as far as this property goes *)
  Inductive call :=
  | CPlain          (* any member that is not one of the built-ins *)
  | CIntrospect     (* org.freedesktop.DBus.Introspectable.Introspect *)
  | CManaged.       (* org.freedesktop.DBus.ObjectManager.GetManagedObjects *)

  Inductive reply :=
  | RUnknownObject                          (* ErrorMessage org.freedesktop.DBus.Error.UnknownObject *)
  | RDispatch (o : obj)                     (* method lookup and execution on o (property C10) *)
  | RIntrospect (has_obj : bool) (children : list str)   (* MethodReturn 's' with the XML *)
  | RManaged (d : list (str * list (str * P)))           (* MethodReturn 'a{oa{sa{sv}}}' *)
  | RRaise (e : err).                       (* an exception escapes handleMethodCallMessage *)

  Definition handle_with (legacy_intro legacy_managed : bool) (c : call) (path : str) (s : exports) : reply :=
    match (match c with
           | CIntrospect => introspect_with (negb legacy_intro) path s
           | _ => None
           end) with
    | Some (b, m) => RIntrospect b m
    | None =>
        match alist_get str_eqb path s with
        | None => RUnknownObject
        | Some o =>
            match c with
            | CManaged =>
                let d := if legacy_managed then get_managed_legacy (o_path o) s
                         else get_managed (o_path o) s in
                (* the reply body has keys of type 'o': marshalling validates them *)
                if forallb validate_path (map fst d) then RManaged d else RRaise EMarshal
            | _ => RDispatch o
            end
        end
    end.

  Definition handle := handle_with false false.
  Definition handle_legacy := handle_with true true.

  (* histories *)
  Inductive event :=
  | EExport (o : obj)
  | EUnexport (p : str).

  Definition step (s : exports) (e : event) : exports * res signal :=
    match e with
    | EExport o => export_object o s
    | EUnexport p => unexport_object p s
    end.

  Definition run_from (s : exports) (h : list event) : exports :=
    fold_left (fun s e => fst (step s e)) h s.

  Definition run (h : list event) : exports := run_from [] h.

End ObjTree.

Arguments mkObj {P}.
Arguments o_id {P}.
Arguments o_path {P}.
Arguments o_ifaces {P}.
Arguments SigAdded {P}.
Arguments SigRemoved {P}.
Arguments RUnknownObject {P}.
Arguments RDispatch {P}.
Arguments RIntrospect {P}.
Arguments RManaged {P}.
Arguments RRaise {P}.
Arguments EExport {P}.
Arguments EUnexport {P}.
Arguments iface_dict {P}.
Arguments export_object {P}.
Arguments unexport_object {P}.
Arguments managed_with {P}.
Arguments get_managed {P}.
Arguments get_managed_legacy {P}.
Arguments intro_children_with {P}.
Arguments introspect_with {P}.
Arguments introspect {P}.
Arguments introspect_legacy {P}.
Arguments handle_with {P}.
Arguments handle {P}.
Arguments handle_legacy {P}.
Arguments step {P}.
Arguments run_from {P}.
Arguments run {P}.
