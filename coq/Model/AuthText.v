(* Vocabulary shared by the authentication model (Model/AuthServer.v) and the
   specification (Spec/AuthSpec.v): the Python byte-string primitives the
   handshake is written with (bytes.split(), strip(), split(b' ', 1),
   split(b'\r\n'), binascii.hexlify / unhexlify), the protocol's command words,
   and the three outcomes a mechanism can report.  Definitions only. *)
From Tx Require Import Lib.Base Lib.Sexp.
Local Open Scope N_scope.

(* --- command words ---------------------------------------------------------- *)
Definition w_AUTH : bytes := [65; 85; 84; 72].
Definition w_DATA : bytes := [68; 65; 84; 65].
Definition w_BEGIN : bytes := [66; 69; 71; 73; 78].
Definition w_CANCEL : bytes := [67; 65; 78; 67; 69; 76].
Definition w_ERROR : bytes := [69; 82; 82; 79; 82].
Definition w_NEGOTIATE_UNIX_FD : bytes :=
  [78; 69; 71; 79; 84; 73; 65; 84; 69; 95; 85; 78; 73; 88; 95; 70; 68].
Definition w_REJECTED : bytes := [82; 69; 74; 69; 67; 84; 69; 68].
Definition w_OK : bytes := [79; 75].
Definition w_AGREE_UNIX_FD : bytes := [65; 71; 82; 69; 69; 95; 85; 78; 73; 88; 95; 70; 68].

Definition n_EXTERNAL : bytes := [69; 88; 84; 69; 82; 78; 65; 76].
Definition n_DBUS_COOKIE_SHA1 : bytes :=
  [68; 66; 85; 83; 95; 67; 79; 79; 75; 73; 69; 95; 83; 72; 65; 49].
Definition n_ANONYMOUS : bytes := [65; 78; 79; 78; 89; 77; 79; 85; 83].

(* --- what a mechanism's step() reports ------------------------------------- *)
(* ('OK', None) | ('CONTINUE', challenge) | anything else (= rejection).
   [is_str] records that the challenge object is a Python str rather than
   bytes (BusExternalAuthenticator returns ''); the specification ignores it. *)
Inductive verdict :=
| VOk
| VContinue (is_str : bool) (chal : bytes)
| VReject.

(* --- Python byte-string primitives ------------------------------------------ *)
(* bytes.isspace(): space, \t \n \v \f \r *)
Definition is_ws (c : N) : bool := (c =? 32) || ((9 <=? c) && (c <=? 13)).

(* s.split()  (no argument: runs of ASCII whitespace separate, none kept) *)
Fixpoint split_ws (s : bytes) : list bytes :=
  match s with
  | [] => []
  | c :: r =>
      if is_ws c then split_ws r
      else match r with
           | [] => [[c]]
           | d :: _ =>
               if is_ws d then [c] :: split_ws r
               else match split_ws r with
                    | t :: ts => (c :: t) :: ts
                    | [] => [[c]]          (* unreachable *)
                    end
           end
  end.

Fixpoint lstrip_ws (s : bytes) : bytes :=
  match s with
  | [] => []
  | c :: r => if is_ws c then lstrip_ws r else s
  end.

Fixpoint rstrip_ws (s : bytes) : bytes :=
  match s with
  | [] => []
  | c :: r =>
      match rstrip_ws r with
      | [] => if is_ws c then [] else [c]
      | r' => c :: r'
      end
  end.

(* s.strip() *)
Definition strip_ws (s : bytes) : bytes := rstrip_ws (lstrip_ws s).

(* "b' ' not in line -> (line, b'') else line.split(b' ', 1)";
   the second component is None when the line has no space *)
Fixpoint cut_space (s : bytes) : bytes * option bytes :=
  match s with
  | [] => ([], None)
  | c :: r =>
      if c =? 32 then ([], Some r)
      else let (a, b) := cut_space r in (c :: a, b)
  end.

(* s.split(b'\r\n'): always at least one field *)
Definition cons_head (c : N) (l : list bytes) : list bytes :=
  match l with
  | f :: fs => (c :: f) :: fs
  | [] => [[c]]                (* unreachable *)
  end.

Fixpoint split_crlf (s : bytes) : list bytes :=
  match s with
  | [] => [[]]
  | c :: r =>
      match r with
      | d :: r' =>
          if (c =? 13) && (d =? 10) then [] :: split_crlf r'
          else cons_head c (split_crlf r)
      | [] => [[c]]
      end
  end.

(* binascii.unhexlify: None stands for binascii.Error *)
Fixpoint unhex (s : bytes) : option bytes :=
  match s with
  | [] => Some []
  | [_] => None
  | a :: b :: r =>
      match hexval a, hexval b, unhex r with
      | Some x, Some y, Some t => Some (x * 16 + y :: t)
      | _, _, _ => None
      end
  end.

(* binascii.hexlify (lower case) *)
Definition hexlify (b : bytes) : bytes := hex_chars b.

Definition nonempty {A} (l : list A) : bool := match l with [] => false | _ => true end.

Definition all_ascii (s : bytes) : bool := forallb (fun c => c <? 128) s.

(* str(n).encode('ascii') *)
Definition decimal (n : N) : bytes := match n with 0 => [48] | _ => n_chars n end.

Definition sp (a b : bytes) : bytes := a ++ 32 :: b.
