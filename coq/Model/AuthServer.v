(* Faithful model of the bus side of the DBus handshake:

     txdbus/authentication.py  BusAuthenticator (handleAuthMessage, reject,
                               stepAuth, _auth_AUTH/_DATA/_BEGIN/_CANCEL/_ERROR/
                               _NEGOTIATE_UNIX_FD), BusExternalAuthenticator,
                               BusCookieAuthenticator, BusAnonymousAuthenticator
     txdbus/protocol.py        BasicDBusProtocol.dataReceived, line mode, server
                               side (_client = False): first byte, split on
                               \r\n, disconnecting, MAX_AUTH_LENGTH, exceptions

   Mechanisms enter through an interface [mech_if M] over an arbitrary world
   type M (what instantiating a mechanism, calling its step() and its cancel()
   do); two instances are given: scripts of verdicts (oracles) and the three
   concrete mechanisms with peer credentials, the user database, the cookie
   file and SHA-1 as parameters.

   Five repairs were made to the code (fixes/D09, D10a, D10b, D11 and C04's D32); the record
   [fixes] says which of them the modelled tree carries, so the same
   definitions give the current model ([current]) and the legacy one
   ([legacy]).  Definitions only. *)
From Tx Require Import Lib.Base Lib.Sexp Model.AuthText.
Local Open Scope N_scope.

Definition MAX_REJECTS : nat := 5.      (* BusAuthenticator.MAX_REJECTS_ALLOWED *)
Definition MAX_AUTH : N := 16384.       (* BasicDBusProtocol.MAX_AUTH_LENGTH *)
Definition bus_mechs : list bytes := [n_EXTERNAL; n_DBUS_COOKIE_SHA1; n_ANONYMOUS].

Record fixes := {
  fx09 : bool;    (* stepAuth: hexlify(challenge or b'') *)
  fx10a : bool;   (* stepAuth hands the decoded response to the mechanism as bytes;
                     BusCookieAuthenticator._step_one decodes the user name itself *)
  fx10b : bool;   (* _step_two forgets the cookie id once the cookie is deleted *)
  fx11 : bool;    (* stepAuth answers ERROR to a response that is not hex *)
  fx32 : bool     (* protocol.py: the unfinished remainder of a read may be MAX_AUTH_LENGTH + 1
                     bytes long (it may end with the '\r' of a line of the maximum length) *)
}.
Definition current : fixes := {| fx09 := true; fx10a := true; fx10b := true; fx11 := true; fx32 := true |}.
Definition legacy : fixes := {| fx09 := false; fx10a := false; fx10b := false; fx11 := false; fx32 := false |}.

(* What the authenticator needs from the mechanisms.  The world M holds
   whatever the mechanism objects and their environment consist of. *)
Record mech_if (M : Type) := {
  (* self.mechanisms[mech]() ; .init(protocol): a fresh instance becomes current *)
  m_start : bytes -> M -> M;
  (* current_mech.step(arg): arg is None, or the decoded response; the flag says
     that it is handed over as str (legacy) rather than bytes *)
  m_step : bool -> option bytes -> M -> verdict * M;
  (* current_mech.cancel(): true = an exception escaped *)
  m_cancel : M -> bool * M
}.
Arguments m_start {M}. Arguments m_step {M}. Arguments m_cancel {M}.

Inductive astate := WaitingForAuth | WaitingForData | WaitingForBegin.   (* self.state *)

Record auth (M : Type) := {
  a_state : astate;
  a_cur : option bytes;       (* name of self.current_mech, None when it is None *)
  a_rejects : nat;            (* self.reject_count *)
  a_authd : bool;             (* self.authenticated *)
  a_world : M
}.
Arguments a_state {M}. Arguments a_cur {M}. Arguments a_rejects {M}.
Arguments a_authd {M}. Arguments a_world {M}.

(* how handleAuthMessage ends *)
Inductive exit :=
| XNormal
| XFailed        (* DBusAuthenticationFailed: caught by the protocol, loseConnection *)
| XCrashed.      (* any other exception: escapes dataReceived *)

(* what it does on the way: lines handed to sendAuthMessage, and (ghost) the
   verdicts obtained from mechanisms *)
Inductive ev :=
| ELine (l : bytes)
| EMech (name : bytes) (v : verdict).

Definition l_ERROR : bytes := w_ERROR.
Definition l_ERROR_unknown : bytes :=
  [69; 82; 82; 79; 82; 32; 34; 85; 110; 107; 110; 111; 119; 110; 32; 99; 111; 109; 109; 97; 110; 100; 34].
Definition l_ERROR_hex : bytes :=
  [69; 82; 82; 79; 82; 32; 34; 73; 110; 118; 97; 108; 105; 100; 32; 104; 101; 120; 32; 101; 110;
   99; 111; 100; 105; 110; 103; 34].

(* "if response: response = binascii.unhexlify(response.strip())[.decode('ascii')]" *)
Inductive decoded :=
| DArg (as_str : bool) (arg : option bytes)
| DError
| DCrash.

Inductive mode :=
| Live
| Closed     (* transport.loseConnection() was called: transport.disconnecting *)
| Authd      (* setAuthenticationSucceeded(): binary mode, outside this model *)
| Dead.      (* an exception escaped dataReceived: the reactor drops the connection *)

Inductive out :=
| OLine (l : bytes)                  (* transport.writeSequence((l, b'\r\n')) *)
| OMech (name : bytes) (v : verdict) (* ghost: a mechanism's step() returned v *)
| OClose                             (* transport.loseConnection() *)
| OAuthd                             (* connectionAuthenticated() *)
| OCrash.                            (* exception out of dataReceived *)

Section Authenticator.
  Context {M : Type}.
  Variable F : fixes.
  Variable I : mech_if M.
  Variable mechs : list bytes.     (* BusAuthenticator.authenticators.keys(), in order *)
  Variable guid : bytes.           (* server_guid *)

  Definition result : Type := auth M * list ev * exit.

  Definition set_state (a : auth M) (s : astate) : auth M :=
    {| a_state := s; a_cur := a_cur a; a_rejects := a_rejects a; a_authd := a_authd a;
       a_world := a_world a |}.
  Definition set_world (a : auth M) (w : M) : auth M :=
    {| a_state := a_state a; a_cur := a_cur a; a_rejects := a_rejects a; a_authd := a_authd a;
       a_world := w |}.

  (* b'REJECTED ' + b' '.join(mechNames) *)
  Definition reject_msg : bytes := sp w_REJECTED (join_with 32 mechs).

  Definition reject (a : auth M) : result :=
    let '(crashed, w) :=
      match a_cur a with
      | Some _ => m_cancel I (a_world a)
      | None => (false, a_world a)
      end in
    if crashed then (set_world a w, [], XCrashed)
    else
      let n := S (a_rejects a) in
      let a1 := {| a_state := a_state a; a_cur := None; a_rejects := n; a_authd := a_authd a;
                   a_world := w |} in
      if Nat.ltb MAX_REJECTS n then (a1, [], XFailed)
      else (set_state a1 WaitingForAuth, [ELine reject_msg], XNormal).

  Definition send_error (a : auth M) : result := (a, [ELine l_ERROR], XNormal).

  Definition decode_response (response : option bytes) : decoded :=
    match response with
    | None => DArg false None
    | Some r =>
        if nonempty r then
          match unhex (strip_ws r) with
          | None => if fx11 F then DError else DCrash                  (* binascii.Error *)
          | Some b =>
              if fx10a F then DArg false (Some b)
              else if all_ascii b then DArg true (Some b) else DCrash  (* UnicodeDecodeError *)
          end
        else DArg false (Some [])
    end.

  Definition step_auth (a : auth M) (response : option bytes) : result :=
    match a_cur a with
    | None => reject a
    | Some name =>
        match decode_response response with
        | DCrash => (a, [], XCrashed)
        | DError => (a, [ELine l_ERROR_hex], XNormal)
        | DArg as_str arg =>
            let (v, w) := m_step I as_str arg (a_world a) in
            let a' := set_world a w in
            match v with
            | VOk => (set_state a' WaitingForBegin, [EMech name v; ELine (sp w_OK guid)], XNormal)
            | VContinue is_str chal =>
                (* binascii.hexlify(str) is a TypeError; '' or b'' is hexlify(b'') *)
                if is_str && (negb (fx09 F) || nonempty chal) then (a', [EMech name v], XCrashed)
                else (set_state a' WaitingForData,
                      [EMech name v; ELine (sp w_DATA (hexlify chal))], XNormal)
            | VReject =>
                let '(a2, evs, x) := reject a' in (a2, EMech name v :: evs, x)
            end
        end
    end.

  Definition auth_AUTH (a : auth M) (args : bytes) : result :=
    match a_state a with
    | WaitingForAuth =>
        match split_ws args with
        | [] => reject a
        | mech :: rest =>
            let initial := match rest with [] => None | r :: _ => Some r end in
            if existsb (str_eqb mech) mechs then
              step_auth {| a_state := a_state a; a_cur := Some mech; a_rejects := a_rejects a;
                           a_authd := a_authd a; a_world := m_start I mech (a_world a) |} initial
            else reject a
        end
    | _ => send_error a
    end.

  Definition auth_BEGIN (a : auth M) : result :=
    match a_state a with
    | WaitingForBegin =>
        ({| a_state := a_state a; a_cur := None; a_rejects := a_rejects a; a_authd := true;
            a_world := a_world a |}, [], XNormal)
    | _ => (a, [], XFailed)
    end.

  Definition auth_ERROR (a : auth M) : result := reject a.

  Definition auth_DATA (a : auth M) (args : bytes) : result :=
    match a_state a with
    | WaitingForData => step_auth a (Some args)
    | _ => send_error a
    end.

  Definition auth_CANCEL (a : auth M) : result :=
    match a_state a with
    | WaitingForData | WaitingForBegin => reject a
    | WaitingForAuth => send_error a
    end.

  Definition auth_NEGOTIATE (a : auth M) : result := send_error a.

  (* handleAuthMessage.  cmd.decode() fails on bytes that are not UTF-8; the
     model says "fails" for any byte >= 128 (valid multi-byte sequences, which
     would reach "Unknown command", are not represented). *)
  Definition handle (a : auth M) (line : bytes) : result :=
    let (cmd, rest) := cut_space line in
    let args := match rest with Some r => r | None => [] end in
    if negb (all_ascii cmd) then (a, [], XCrashed)
    else if str_eqb cmd w_AUTH then auth_AUTH a args
    else if str_eqb cmd w_DATA then auth_DATA a args
    else if str_eqb cmd w_BEGIN then auth_BEGIN a
    else if str_eqb cmd w_CANCEL then auth_CANCEL a
    else if str_eqb cmd w_ERROR then auth_ERROR a
    else if str_eqb cmd w_NEGOTIATE_UNIX_FD then auth_NEGOTIATE a
    else (a, [ELine l_ERROR_unknown], XNormal).

  (* ----- protocol.py: the server side of line mode --------------------------- *)
  Record conn := {
    c_mode : mode;
    c_first : bool;        (* _firstByte *)
    c_buf : bytes;         (* _buffer *)
    c_auth : auth M
  }.

  Definition ev_out (e : ev) : out :=
    match e with ELine l => OLine l | EMech n v => OMech n v end.

  Definition with_mode (c : conn) (m : mode) (a : auth M) : conn :=
    {| c_mode := m; c_first := c_first c; c_buf := c_buf c; c_auth := a |}.

  (* one complete line inside the for loop of dataReceived *)
  Definition feed (c : conn) (line : bytes) : conn * list out :=
    match c_mode c with
    | Live =>
        if MAX_AUTH <? N.of_nat (length line) then (with_mode c Closed (c_auth c), [OClose])
        else
          let '(a, evs, x) := handle (c_auth c) line in
          let outs := map ev_out evs in
          match x with
          | XCrashed => (with_mode c Dead a, outs ++ [OCrash])
          | XFailed => (with_mode c Closed a, outs ++ [OClose])
          | XNormal =>
              if a_authd a then (with_mode c Authd a, outs ++ [OAuthd])
              else (with_mode c Live a, outs)
          end
    | _ => (c, [])
    end.

  Fixpoint feed_all (c : conn) (lines : list bytes) : conn * list out :=
    match lines with
    | [] => (c, [])
    | l :: r =>
        let (c1, o1) := feed c l in
        let (c2, o2) := feed_all c1 r in
        (c2, o1 ++ o2)
    end.

  (* "if len(self._buffer) > self.MAX_AUTH_LENGTH [+ 1]" after the loop over the lines *)
  Definition buf_limit : N := if fx32 F then MAX_AUTH + 1 else MAX_AUTH.

  Definition process (c : conn) (data : bytes) : conn * list out :=
    let ls := split_crlf (c_buf c ++ data) in
    let c1 := {| c_mode := c_mode c; c_first := c_first c; c_buf := last ls []; c_auth := c_auth c |} in
    let (c2, outs) := feed_all c1 (removelast ls) in
    match c_mode c2 with
    | Live =>
        if buf_limit <? N.of_nat (length (c_buf c2))
        then (with_mode c2 Closed (c_auth c2), outs ++ [OClose])
        else (c2, outs)
    | _ => (c2, outs)
    end.

  (* dataReceived(data) while not authenticated *)
  Definition recv (c : conn) (data : bytes) : conn * list out :=
    match c_mode c with
    | Live =>
        if c_first c then
          match data with
          | [] => (with_mode c Dead (c_auth c), [OCrash])                (* data[0]: IndexError *)
          | b :: d =>
              if b =? 0 then
                process {| c_mode := Live; c_first := false; c_buf := c_buf c; c_auth := c_auth c |} d
              else (with_mode c Closed (c_auth c), [OClose])
          end
        else process c data
    | _ => (c, [])
    end.

  Fixpoint recv_all (c : conn) (reads : list bytes) : conn * list out :=
    match reads with
    | [] => (c, [])
    | d :: r =>
        let (c1, o1) := recv c d in
        let (c2, o2) := recv_all c1 r in
        (c2, o1 ++ o2)
    end.

  Definition init_auth (w : M) : auth M :=
    {| a_state := WaitingForAuth; a_cur := None; a_rejects := 0%nat; a_authd := false; a_world := w |}.

  (* connectionMade() *)
  Definition init_conn (w : M) : conn :=
    {| c_mode := Live; c_first := true; c_buf := []; c_auth := init_auth w |}.

  (* the connection just after the NUL byte: the starting point of the
     line-level statements *)
  Definition line_conn (w : M) : conn :=
    {| c_mode := Live; c_first := false; c_buf := []; c_auth := init_auth w |}.

  (* the same run, line by line: what each line produced *)
  Fixpoint line_trace (c : conn) (lines : list bytes) : list (bytes * list out) :=
    match lines with
    | [] => []
    | l :: r => let (c1, o1) := feed c l in (l, o1) :: line_trace c1 r
    end.

  (* the bus as a line server, for closed loops with a client: the lines written and
     whether the conversation is over (Some true: the peer is authenticated) *)
  Definition written (o : list out) : list bytes :=
    flat_map (fun x => match x with OLine l => [l] | _ => [] end) o.

  Definition serve (c : conn) (line : bytes) : conn * list bytes * option bool :=
    let (c', o) := feed c line in
    (c', written o,
     match c_mode c' with
     | Live => None
     | Authd => Some true
     | Closed | Dead => Some false
     end).

  Definition run_lines (w : M) (lines : list bytes) : list out := snd (feed_all (line_conn w) lines).
  Definition run_reads (w : M) (reads : list bytes) : list out := snd (recv_all (init_conn w) reads).
End Authenticator.


(* ----- mechanisms as oracles: a script of verdicts, one per step() call ------- *)
Notation script := (list verdict) (only parsing).

Definition oracle_if : mech_if script := {|
  m_start := fun _ s => s;
  m_step := fun _ _ s => match s with v :: r => (v, r) | [] => (VReject, []) end;
  m_cancel := fun s => (false, s)
|}.

(* ----- the three concrete mechanisms ---------------------------------------- *)
Record cenv := {
  e_creds : bool;                 (* protocol._unix_creds is set (SO_PEERCRED worked) *)
  e_user_ok : bytes -> bool;      (* the user name / uid resolves and its keyring directory is acceptable *)
  e_ctx : bytes;                  (* cookieContext *)
  e_chal : nat -> bytes;          (* challenge_str drawn at the n-th successful _step_one *)
  e_cookie : nat -> bytes         (* cookie drawn at the n-th _create_cookie *)
}.

Inductive minst :=
| INone
| IExt (ok : bool)
| ICookie (step_num : nat) (cid : option N) (chal cookie : bytes)
| IAnon.

Record cworld := {
  w_inst : minst;           (* the object behind current_mech *)
  w_store : list N;         (* ids in the cookie file (the file exists iff this is not empty) *)
  w_made : nat              (* cookies created so far *)
}.

Section Concrete.
  Variable F : fixes.
  Variable E : cenv.
  Variable sha1hex : bytes -> bytes.     (* binascii.hexlify(hashlib.sha1(x).digest()) *)

  Definition set_inst (w : cworld) (i : minst) : cworld :=
    {| w_inst := i; w_store := w_store w; w_made := w_made w |}.

  Definition c_start (name : bytes) (w : cworld) : cworld :=
    set_inst w (if str_eqb name n_EXTERNAL then IExt false
                else if str_eqb name n_DBUS_COOKIE_SHA1 then ICookie 0 None [] []
                else IAnon).

  (* _create_cookie: one more than the largest id in the file, 1 for an empty file *)
  Definition next_id (store : list N) : N :=
    fold_left (fun acc i => if acc <=? i then i + 1 else acc) store 1.

  Fixpoint remove_first (i : N) (l : list N) : list N :=
    match l with
    | [] => []
    | x :: r => if x =? i then r else x :: remove_first i r
    end.

  (* _delete_cookie: None = FileNotFoundError from os.unlink(self.cookie_file) *)
  Definition delete_cookie (store : list N) (i : N) : option (list N) :=
    match store with
    | [] => None
    | _ => Some (remove_first i store)
    end.

  Definition colon (a b : bytes) : bytes := a ++ 58 :: b.

  Definition cookie_step (as_str : bool) (arg : option bytes) (w : cworld)
             (s : nat) (cid : option N) (chal cookie : bytes) : verdict * cworld :=
    match arg with
    | None => (VReject, set_inst w (ICookie (S s) cid chal cookie))
    | Some a =>
        match s with
        | O =>
            (* _step_one *)
            let usable := (if fx10a F then true else as_str) && all_ascii a && e_user_ok E a in
            if usable then
              let i := next_id (w_store w) in
              let ch := e_chal E (w_made w) in
              let ck := e_cookie E (w_made w) in
              (VContinue false (sp (e_ctx E) (sp (decimal i) ch)),
               {| w_inst := ICookie 1 (Some i) ch ck; w_store := w_store w ++ [i];
                  w_made := S (w_made w) |})
            else (VReject, set_inst w (ICookie 1 cid chal cookie))
        | S O =>
            (* _step_two *)
            match cid with
            | None => (VReject, set_inst w (ICookie 2 cid chal cookie))     (* not reached *)
            | Some i =>
                match delete_cookie (w_store w) i with
                | None => (VReject, set_inst w (ICookie 2 cid chal cookie))
                | Some st =>
                    let cid' := if fx10b F then None else cid in
                    let w' := {| w_inst := ICookie 2 cid' chal cookie; w_store := st;
                                 w_made := w_made w |} in
                    match split_ws a with
                    | [cc; h] =>
                        if as_str then (VReject, w')          (* bytes + str: TypeError, swallowed *)
                        else if str_eqb (sha1hex (colon chal (colon cc cookie))) h then (VOk, w')
                        else (VReject, w')
                    | _ => (VReject, w')
                    end
                end
            end
        | S (S _) => (VReject, set_inst w (ICookie (S s) cid chal cookie))
        end
    end.

  Definition c_step (as_str : bool) (arg : option bytes) (w : cworld) : verdict * cworld :=
    match w_inst w with
    | INone => (VReject, w)
    | IExt ok =>
        if negb (e_creds E) then (VReject, w)
        else if ok then (VOk, w)
        else (VContinue true [], set_inst w (IExt true))
    | IAnon => (VOk, w)
    | ICookie s cid chal cookie => cookie_step as_str arg w s cid chal cookie
    end.

  Definition c_cancel (w : cworld) : bool * cworld :=
    match w_inst w with
    | ICookie _ (Some i) _ _ =>
        match delete_cookie (w_store w) i with
        | None => (true, w)
        | Some st => (false, {| w_inst := w_inst w; w_store := st; w_made := w_made w |})
        end
    | _ => (false, w)
    end.

  Definition concrete_if : mech_if cworld :=
    {| m_start := c_start; m_step := c_step; m_cancel := c_cancel |}.

  Definition init_world (store : list N) : cworld :=
    {| w_inst := INone; w_store := store; w_made := 0 |}.
End Concrete.
