(* Harness entry point for C09:
     (9 <legacy 0|1> (<akind 0 unix|1 tcp|2 nonce-tcp|3 other> ...) <serial0> (<event> ...))
   event ::= (0) endpoint fails | (1) endpoint connects | (2) authentication ok | (3) authentication refused
           | (4 <C08 event>)                           call / return / error / timer / lost (Model/OpsC08.v)
           | (5 <0 explicit | 1 introspected, parses | 2 introspected, does not parse> <key>)   getRemoteObject
           | (6 <owner> <cb>)  notifyOnDisconnect      | (7 <owner> <cb>)  cancelNotifyOnDisconnect
           | (8 <Deferred number>)                     the caller cancels the Deferred of a call: its completion
                                                       is reported as (<number> (6)); completions the call table
                                                       delivers later for it are not (nobody sees them)
   owner ::= () the connection | (q) the proxy of getRemoteObject request q
   optional 6th argument: ((<cb> (<action> ...)) ...)   what callbacks do when they run during the loss
   action ::= (0 <timeout: () | (n)>) call | (1 <owner> <cb>) register | (2 <owner> <cb>) cancel
            | (3 <key> <cb: () | (n)>) getRemoteObject with explicit interfaces, optionally a callback on the new proxy
   mode (2nd argument): 0 current tree | 1 before D12/D13 (callbacks passive) | 2 before D62/D63
   Answer: ((<step> ...) <spec connect outcome: () | (0) ready | (1) failed> <final phase code>
            <fired by connect() itself> (<completion when every armed timer is let run at the end> ...))
   step  ::= (<fired: 0 ready | 1 failed ...> (<completion of a user call> ...) (<pending serial> ...)
              (<timer serial> ...) ((<owner> <cb> <reason>) ...) ((<request> <0|1>) ...) <raised 0|1>
              <closing 0|1> <endpoint being tried: () | (index)> <loss spec>)
   loss spec ::= (0)                                   this event is not the loss of a ready connection
              | (1 (<completion> ...) ((<owner> <cb> <reason>) ...) ((<request> 0) ...))
                 <Deferreds issued before> <Deferreds issued after>)
                what Spec/ConnectSpec.v demands of this step: expected_failures (user calls / proxy
                requests apart) and expected_runs_reentrant, computed from the snapshot before the event
                and the one after the connection-level callbacks; every Deferred issued in between
                must have failed with the reason *)
From Tx Require Import Lib.Base Lib.Sexp Model.Calls Spec.CallSpec Model.OpsC08 Model.Connect Model.ConnectRe Model.ConnectCancel Spec.ConnectSpec.
Local Open Scope Z_scope.

Definition akind_of (s : sexp) : option akind :=
  match s with
  | SNum 0 => Some AUnix | SNum 1 => Some ATcp | SNum 2 => Some ANonceTcp | SNum 3 => Some AOther
  | _ => None
  end.

Definition owner_of (s : sexp) : option owner :=
  match s with
  | SList [] => Some OConn
  | SList [SNum q] => Some (OProxy (Z.to_nat q))
  | _ => None
  end.

Definition event_of (s : sexp) : option Connect.event :=
  match s with
  | SList [SNum 0] => Some EEpFail
  | SList [SNum 1] => Some EEpOk
  | SList [SNum 2] => Some EAuthOk
  | SList [SNum 3] => Some EAuthRefused
  | SList [SNum 4; e] => option_map ECalls (OpsC08.event_of e)
  | SList [SNum 5; SNum 0; SNum k] => Some (EGetObject PkExplicit (Z.to_N k))
  | SList [SNum 5; SNum 1; SNum k] => Some (EGetObject (PkIntro true) (Z.to_N k))
  | SList [SNum 5; SNum 2; SNum k] => Some (EGetObject (PkIntro false) (Z.to_N k))
  | SList [SNum 6; o; SNum cb] => option_map (fun o => EReg o (Z.to_N cb)) (owner_of o)
  | SList [SNum 7; o; SNum cb] => option_map (fun o => ECancel o (Z.to_N cb)) (owner_of o)
  | _ => None
  end.

Definition sowner (o : owner) : sexp :=
  match o with OConn => SList [] | OProxy q => SList [snat q] end.

Definition srun (x : owner * N * N) : sexp :=
  SList [sowner (fst (fst x)); sN (snd (fst x)); sN (snd x)].

Definition scres (r : cres) : sexp := match r with CReady => SNum 0 | CFailed _ => SNum 1 end.

Definition sobjdone (x : nat * bool) : sexp := SList [snat (fst x); sbool (snd x)].

Definition phase_code (p : phase) : Z :=
  match p with
  | Trying _ => 0 | Authenticating false => 1 | Authenticating true => 2 | HelloPending => 3
  | Ready => 4 | HelloFailed => 5 | Dead => 6
  end.

(* a Deferred handed to the user by callRemote: not Hello, not an Introspect call *)
Definition user_call (st : Connect.state) (id : nat) : bool :=
  match id with
  | O => false
  | S _ => match alist_get Nat.eqb id (st_intro st) with Some _ => false | None => true end
  end.

Definition loss_spec (acts : assignment) (canc : list nat) (st st' : Connect.state) (e : Connect.event) : sexp :=
  match e, st_phase st with
  | ECalls (ELost r), Ready =>
      let b := view canc (snap st) in
      let m := snap (conn_phase acts (set_open st false) r) in
      let fails := expected_failures r b in
      SList [SNum 1;
             SList (map scompletion (filter (fun x => user_call st (fst x)) fails));
             SList (map srun (expected_runs_reentrant r b m));
             SList (flat_map (fun x => match alist_get Nat.eqb (fst x) (st_intro st) with
                                       | Some (q, _, _) => [SList [snat q; SNum 0]]
                                       | None => []
                                       end) fails);
             snat (sn_issued b); snat (sn_issued (snap st'))]
  | _, _ => SList [SNum 0]
  end.

Definition action_of (s : sexp) : option action :=
  match s with
  | SList [SNum 0; t] => option_map ACall (as_opt as_N t)
  | SList [SNum 1; o; SNum cb] => option_map (fun o => AReg o (Z.to_N cb)) (owner_of o)
  | SList [SNum 2; o; SNum cb] => option_map (fun o => ACancel o (Z.to_N cb)) (owner_of o)
  | SList [SNum 3; SNum key; cb] => option_map (AMkProxy (Z.to_N key)) (as_opt as_N cb)
  | _ => None
  end.

Definition acts_entry_of (s : sexp) : option (N * list action) :=
  match s with
  | SList [SNum cb; SList l] => option_map (fun l => (Z.to_N cb, l)) (map_opt action_of l)
  | _ => None
  end.

Definition fuel_legacy : nat := 200.

Definition step_mode (mode : Z) (acts : assignment) (st : Connect.state) (e : Connect.event) : Connect.state :=
  match mode with
  | 1 => step_legacy st e
  | 2 => step_re_legacy fuel_legacy acts st e
  | _ => step_re acts st e
  end.

Definition total_eps (addr : list akind) : nat := endpoint_count addr.

Definition cevent_of (s : sexp) : option cevent :=
  match s with
  | SList [SNum 8; SNum i] => Some (CCancel (Z.to_nat i))
  | _ => option_map CEv (event_of s)
  end.

Definition step_c_mode (mode : Z) (acts : assignment) (cs : cstate) (e : cevent) : cstate :=
  match e with
  | CEv e => CState (step_mode mode acts (cs_core cs) e) (cs_cancelled cs)
  | CCancel _ => step_c acts cs e
  end.

Definition visible (canc : list nat) (st : Connect.state) (l : list (nat * outcome)) : list sexp :=
  map scompletion (filter (fun x => user_call st (fst x) && not_cancelled canc (fst x)) l).

Fixpoint steps (mode : Z) (acts : assignment) (total : nat) (cs : cstate) (evs : list cevent)
  : list sexp * cstate :=
  match evs with
  | [] => ([], cs)
  | ce :: r =>
      let cs' := step_c_mode mode acts cs ce in
      let st := cs_core cs in
      let st' := cs_core cs' in
      let newdone := skipn (length (st_done (st_calls st))) (st_done (st_calls st')) in
      let e := match ce with CEv e => e | CCancel _ => EReg OConn 0 (* no loss spec *) end in
      let obs := SList [ SList (map scres (skipn (length (st_fired st)) (st_fired st')));
                         SList (visible (cs_cancelled cs') st' newdone ++
                                map (fun i => SList [snat i; SList [SNum 6]])
                                    (skipn (length (cs_cancelled cs)) (cs_cancelled cs')));
                         SList (map sN (pending_serials (st_calls st')));
                         SList (map sN (timer_serials (st_calls st')));
                         SList (map srun (skipn (length (st_ran st)) (st_ran st')));
                         SList (map sobjdone (skipn (length (st_objdone st)) (st_objdone st')));
                         sbool (negb (Nat.eqb (st_raised st) (st_raised st')));
                         sbool (match st_phase st' with Authenticating true => true | _ => false end);
                         match st_phase st' with
                         | Trying rest => SList [snat (total - rest - 1)]
                         | _ => SList []
                         end;
                         match ce with
                         | CEv _ => loss_spec acts (cs_cancelled cs) st st' e
                         | CCancel _ => SList [SNum 0]
                         end ] in
      let (l, fin) := steps mode acts total cs' r in
      (obs :: l, fin)
  end.

(* the reactor runs every delayed call that is still armed *)
Definition late_completions (cs : cstate) : list sexp :=
  let st := cs_core cs in
  let st' := fold_left (fun s serial => Connect.step s (ECalls (ETimer serial)))
                       (timer_serials (st_calls st)) st in
  visible (cs_cancelled cs) st' (skipn (length (st_done (st_calls st))) (st_done (st_calls st'))).

Definition op_with (mode : Z) (addr evs acts : list sexp) (s0 : Z) : sexp :=
  match map_opt akind_of addr, map_opt cevent_of evs, map_opt acts_entry_of acts with
  | Some addr, Some evs, Some tbl =>
      let s0 := Z.to_N s0 in
      let (obs, fin) := steps mode (table_assignment tbl) (total_eps addr) (init_c addr s0) evs in
      SList [ SList obs;
              sopt scres (connect_outcome addr s0 (erase evs));
              SNum (phase_code (st_phase (cs_core fin)));
              SList (map scres (st_fired (Connect.init addr s0)));
              SList (late_completions fin) ]
  | _, _, _ => bad
  end.

Definition op (args : list sexp) : sexp :=
  match args with
  | [SNum mode; SList addr; SNum s0; SList evs] => op_with mode addr evs [] s0
  | [SNum mode; SList addr; SNum s0; SList evs; SList acts] => op_with mode addr evs acts s0
  | _ => bad
  end.
