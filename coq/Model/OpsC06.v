(* Harness entry points for C06.

     (6 0 <fixes> (<mech name> ...) <guid> (<verdict> ...) (<read> ...))
         scripted mechanisms: the model (Model/AuthServer.v, oracle instance) on the
         reads, and the specification (Spec/AuthSpec.v spec_stream) on their concatenation
         answer: ((<out> ...) (<sevent> ...))
     (6 1 <fixes> <guid> <creds 0|1> (<acceptable user name> ...) <cookie context>
          (<challenge> ...) (<cookie> ...) ((<sha1hex input> <sha1hex output>) ...)
          (<cookie id in the file> ...) (<read> ...))
         the three concrete mechanisms
         answer: ((<out> ...) (<cookie id left in the file> ...))

   read    ::= <bytes> | (<piece> ...)      piece ::= <bytes> | (<count> <bytes>)   (repeated)
   fixes   ::= (<D09 0|1> <D10a 0|1> <D10b 0|1> <D11 0|1> <D32 0|1>)     1 = the tree carries the repair
   verdict ::= (0) | (1 <is_str 0|1> <challenge>) | (2)
   out     ::= (0 <line>) | (1 <mechanism> <verdict>) | (2) close | (3) authenticated | (4) exception
   sevent  ::= (0 <reply>) | (1 <mechanism> <verdict>) | (2) disconnect | (3) authenticated | (4)
   reply   ::= (0 <mechanism list>) | (1 <guid>) | (2 <hex>) | (3) error | (4) agree | (5 <line>)   *)
From Tx Require Import Lib.Base Lib.Sexp Model.AuthText Model.AuthServer Spec.AuthSpec Model.CookieStore.
Local Open Scope Z_scope.

Definition fixes_of (s : sexp) : option fixes :=
  match s with
  | SList [a; b; c; d; e] =>
      match as_bool a, as_bool b, as_bool c, as_bool d, as_bool e with
      | Some a, Some b, Some c, Some d, Some e =>
          Some {| fx09 := a; fx10a := b; fx10b := c; fx11 := d; fx32 := e |}
      | _, _, _, _, _ => None
      end
  | _ => None
  end.

Definition verdict_of (s : sexp) : option verdict :=
  match s with
  | SList [SNum 0] => Some VOk
  | SList [SNum 1; f; SBytes c] => option_map (fun f => VContinue f c) (as_bool f)
  | SList [SNum 2] => Some VReject
  | _ => None
  end.

Definition sverdict (v : verdict) : sexp :=
  match v with
  | VOk => SList [SNum 0]
  | VContinue f c => SList [SNum 1; sbool f; SBytes c]
  | VReject => SList [SNum 2]
  end.

Definition sout (o : out) : sexp :=
  match o with
  | OLine l => SList [SNum 0; SBytes l]
  | OMech n v => SList [SNum 1; SBytes n; sverdict v]
  | OClose => SList [SNum 2]
  | OAuthd => SList [SNum 3]
  | OCrash => SList [SNum 4]
  end.

Definition sreply (r : reply) : sexp :=
  match r with
  | RRejected m => SList [SNum 0; SBytes m]
  | ROk g => SList [SNum 1; SBytes g]
  | RData h => SList [SNum 2; SBytes h]
  | RError => SList [SNum 3]
  | RAgreeUnixFd => SList [SNum 4]
  | ROther l => SList [SNum 5; SBytes l]
  end.

Definition ssevent (e : sevent) : sexp :=
  match e with
  | SReply r => SList [SNum 0; sreply r]
  | SMech n v => SList [SNum 1; SBytes n; sverdict v]
  | SDisconnect => SList [SNum 2]
  | SAuthenticatedNow => SList [SNum 3]
  | SFault => SList [SNum 4]
  end.

Definition pair_of (s : sexp) : option (bytes * bytes) :=
  match s with
  | SList [SBytes a; SBytes b] => Some (a, b)
  | _ => None
  end.

(* a read: "hex", or (<piece> ...) with piece ::= "hex" | (<count> "hex") = the bytes repeated
   (run-length form for the 16 KiB lines: the s-expression reader is slow on long atoms) *)
Definition piece_of (s : sexp) : option bytes :=
  match s with
  | SBytes b => Some b
  | SList [SNum n; SBytes b] => Some (concat (repeat_n b (Z.to_nat n)))
  | _ => None
  end.

Definition read_of (s : sexp) : option bytes :=
  match s with
  | SBytes b => Some b
  | SList ps => option_map (@concat N) (map_opt piece_of ps)
  | SNum _ => None
  end.

Definition table_fn (t : list (bytes * bytes)) (x : bytes) : bytes :=
  match alist_get str_eqb x t with Some y => y | None => [] end.

(* (6 2 <id rule: 0 = largest id + 1 (the code), 1 = number of lines + 1> (<cookie> ...) (<challenge> ...)
        ((<sha1hex input> <sha1hex output>) ...) ((<id> <cookie>) ...) (<event> ...))
     several connections sharing one keyring file (Model/CookieStore.v)
     event ::= (0 <conn>) start | (1 <conn> <response>) finish | (2 <conn>) cancel | (3 <conn>) drop
     answer: one ((<id in the file> ...) <verdict: () | (<verdict>)>) per event *)
Definition sev_of (s : sexp) : option sev :=
  match s with
  | SList [SNum 0; c] => option_map Start (as_nat c)
  | SList [SNum 1; c; SBytes r] => option_map (fun c => Finish c r) (as_nat c)
  | SList [SNum 2; c] => option_map Cancel (as_nat c)
  | SList [SNum 3; c] => option_map Drop (as_nat c)
  | _ => None
  end.

Definition entry_of (s : sexp) : option (N * bytes) :=
  match s with
  | SList [i; SBytes k] => option_map (fun i => (i, k)) (as_N i)
  | _ => None
  end.

Definition op_store (rule : sexp) (cookies chals sha st evs : list sexp) : sexp :=
  match as_bool rule, map_opt as_bytes cookies, map_opt as_bytes chals, map_opt pair_of sha,
        map_opt entry_of st, map_opt sev_of evs with
  | Some len_rule, Some cookies, Some chals, Some sha, Some st, Some evs =>
      SList (map (fun o => SList [SList (map sN (fst o)); sopt sverdict (snd o)])
                 (observe (if len_rule then alloc_len else alloc_max)
                          (fun n => nth n cookies []) (fun n => nth n chals []) (table_fn sha)
                          (sys0 st) evs))
  | _, _, _, _, _, _ => bad
  end.

Definition op (args : list sexp) : sexp :=
  match args with
  | [SNum 0; fx; SList ms; SBytes guid; SList vs; SList rs] =>
      match fixes_of fx, map_opt as_bytes ms, map_opt verdict_of vs, map_opt read_of rs with
      | Some F, Some ms, Some vs, Some rs =>
          SList [ SList (map sout (run_reads F oracle_if ms guid vs rs));
                  SList (map ssevent (spec_stream ms guid false 5%nat 16384%N vs (concat rs))) ]
      | _, _, _, _ => bad
      end
  | [SNum 1; fx; SBytes guid; creds; SList users; SBytes ctx; SList chals; SList cookies;
     SList sha; SList store; SList rs] =>
      match fixes_of fx, as_bool creds, map_opt as_bytes users, map_opt as_bytes chals,
            map_opt as_bytes cookies, map_opt pair_of sha, map_opt as_N store, map_opt read_of rs with
      | Some F, Some creds, Some users, Some chals, Some cookies, Some sha, Some store, Some rs =>
          let E := {| e_creds := creds;
                      e_user_ok := fun u => existsb (str_eqb u) users;
                      e_ctx := ctx;
                      e_chal := fun n => nth n chals [];
                      e_cookie := fun n => nth n cookies [] |} in
          let '(c, outs) := recv_all F (concrete_if F E (table_fn sha)) bus_mechs guid
                                     (init_conn (init_world store)) rs in
          SList [ SList (map sout outs);
                  SList (map sN (w_store (a_world (c_auth c)))) ]
      | _, _, _, _, _, _, _, _ => bad
      end
  | [SNum 2; rule; SList cookies; SList chals; SList sha; SList st; SList evs] =>
      op_store rule cookies chals sha st evs
  | _ => bad
  end.
