(* Model of the calling side of a remote-object proxy (txdbus/objects.py):

     RemoteDBusObject.callRemote(methodName, *args, **kwargs)
        keyword handling (expectReply, autoStart, timeout, interface; any other
        keyword is ignored), the loop over the proxy's interfaces, the argument
        count check, and the argument list of the DBusClientConnection.callRemote
        it ends in: path, member, interface=i.name, destination=busName,
        signature=m.sigIn, body=args, the three keywords, returnSignature=m.sigOut;
     DBusObjectHandler.getRemoteObject(busName, objectPath, interfaces,
        replaceKnownInterfaces): the explicit path (DBusInterface instances and
        names of known interfaces: a proxy at once) and the introspection path
        (None, or some name that is not known: Introspect is called and the
        proxy is built from the parsed XML, after the required-names check);
     DBusClientConnection.introspectRemoteObject: the Introspect call it makes.

   Interface objects are the [iface] values of Model/Introspect.v (the member
   dictionaries are duck typed: `methods` can hold an object of another member
   class, which callRemote then trips over); they live in the heap of
   Model/Introspect.v (identity = index), `known` is
   DBusInterface.knownInterfaces.  A proxy keeps the list of interface OBJECTS
   (indices), read when a call is made.

   What a call produces is a value of [creq] (the arguments of
   DBusClientConnection.callRemote) or the exception callRemote raises.
   Definitions only. *)
From Tx Require Import Lib.Base Model.PyVal Model.Introspect.
From Tx Require Model.Calls.
Local Open Scope N_scope.

(* --- keyword arguments of RemoteDBusObject.callRemote --------------------- *)
Record kwargs := mkKw {
  kw_expect : bool;            (* kwargs.get('expectReply', True): read for its truth value *)
  kw_auto : bool;              (* kwargs.get('autoStart', True) *)
  kw_timeout : option N;       (* kwargs.get('timeout', None) *)
  kw_iface : option str        (* kwargs.get('interface', None) *)
}.

Definition kw_default : kwargs := mkKw true true None None.

(* --- the arguments of DBusClientConnection.callRemote ------------------------ *)
Record creq := mkReq {
  q_path : str;
  q_member : str;
  q_iface : option str;
  q_dest : option str;
  q_sig : option str;
  q_args : list pyval;         (* body; a proxy passes the tuple of positional arguments *)
  q_expect : bool;
  q_auto : bool;
  q_timeout : option N;
  q_rs : Calls.retsig          (* returnSignature *)
}.

Inductive pc_result :=
| PcNoMethod                          (* AttributeError: not a member of any of the supported interfaces *)
| PcArgCount (iname : str) (n : Z)    (* TypeError: <iname>.<member> takes n arguments *)
| PcBadMember                         (* AttributeError: the object found in `methods` is not a Method *)
| PcCall (q : creq).

(* "if interface and not interface == i.name: continue" *)
Definition skipped (want : option str) (i : iface) : bool :=
  match want with
  | Some (c :: s) => negb (str_eqb (c :: s) (i_name i))
  | _ => false
  end.

(* for i in self.interfaces: ...; m = i.methods.get(methodName, None); if m: break
   (member objects are always true).  The pair found, or None when the loop
   runs out (m is then None: the last get that was made returned None). *)
Fixpoint find_method (want : option str) (mname : str) (l : list iface) : option (iface * member) :=
  match l with
  | [] => None
  | i :: r =>
      if skipped want i then find_method want mname r
      else match alist_get str_eqb mname (i_methods i) with
           | Some m => Some (i, m)
           | None => find_method want mname r
           end
  end.

Definition call_remote (ifs : list iface) (bus path mname : str) (args : list pyval) (kw : kwargs)
  : pc_result :=
  match find_method (kw_iface kw) mname ifs with
  | None => PcNoMethod
  | Some (i, MMeth m) =>
      if negb (Z.of_nat (length args) =? m_nargs m)%Z then PcArgCount (i_name i) (m_nargs m)
      else PcCall (mkReq path mname (Some (i_name i)) (Some bus) (Some (m_sigIn m)) args
                         (kw_expect kw) (kw_auto kw) (kw_timeout kw) (Calls.RsStr (m_sigOut m)))
  | Some (i, MSig s) =>
      (* a Signal has nargs but neither sigIn nor sigOut *)
      if negb (Z.of_nat (length args) =? s_nargs s)%Z then PcArgCount (i_name i) (s_nargs s)
      else PcBadMember
  | Some (_, MProp _) => PcBadMember          (* a Property has no nargs *)
  end.

(* --- getRemoteObject ---------------------------------------------------------- *)

Inductive ifspec :=
| IObj (id : nat)              (* a DBusInterface instance *)
| IName (n : str).             (* a str *)

Inductive ifarg :=
| ANone                        (* interfaces=None *)
| AOne (s : ifspec)            (* a single value: wrapped in a list *)
| AList (l : list ifspec).

Record proxy := mkProxy {
  px_bus : str;
  px_path : str;
  px_ifaces : list nat         (* self.interfaces: the interface objects *)
}.

Definition heap_name (heap : list iface) (id : nat) : str :=
  match nth_error heap id with Some i => i_name i | None => [] end.

(* the loop over `interfaces`: (ifl, required_interfaces, need_introspection) *)
Fixpoint scan (heap : list iface) (known : list (str * nat)) (l : list ifspec)
              (ifl : list nat) (req : list str) (need : bool) : list nat * list str * bool :=
  match l with
  | [] => (ifl, req, need)
  | IObj id :: r => scan heap known r (ifl ++ [id]) (req ++ [heap_name heap id]) need
  | IName n :: r =>
      match alist_get str_eqb n known with
      | Some id => scan heap known r (ifl ++ [id]) (req ++ [n]) need
      | None => scan heap known r ifl (req ++ [n]) true
      end
  end.

Inductive gro_result :=
| GProxy (p : proxy)                  (* defer.succeed(prox) *)
| GIntrospect (required : list str).  (* conn.introspectRemoteObject(...) with ok() chained *)

Definition get_remote_object (heap : list iface) (known : list (str * nat))
           (bus path : str) (a : ifarg) : gro_result :=
  match a with
  | ANone => GIntrospect []
  | AOne s =>
      let '(ifl, req, need) := scan heap known [s] [] [] false in
      if need then GIntrospect req else GProxy (mkProxy bus path ifl)
  | AList l =>
      let '(ifl, req, need) := scan heap known l [] [] false in
      if need then GIntrospect req else GProxy (mkProxy bus path ifl)
  end.

(* introspectRemoteObject: callRemote(objectPath, 'Introspect',
   interface='org.freedesktop.DBus.Introspectable', destination=busName) *)
Definition introspect_request (bus path : str) : creq :=
  mkReq path n_Introspect (Some n_introspectable) (Some bus) None [] true true None Calls.RsNoCheck.

(* ok(ifaces): missing = required_interfaces - {q.name for q in ifaces} *)
Definition missing (heap : list iface) (required : list str) (ids : list nat) : list str :=
  filter (fun n => negb (existsb (fun id => str_eqb n (heap_name heap id)) ids)) required.

Inductive intro_result :=
| IFailed (heap : list iface) (known : list (str * nat))
                                      (* IntrospectionFailed (missing interfaces), or the parser raised; a
                                         parser exception leaves what it had registered so far - not modelled
                                         (the world is given back unchanged): documents generated by txdbus
                                         always parse, C15 *)
| IProxy (p : proxy) (heap : list iface) (known : list (str * nat)).

(* the callbacks on the Introspect reply: getInterfacesFromXML(xml, replace)
   on the element events of the text, then ok() *)
Definition introspected (replace : bool) (heap : list iface) (known : list (str * nat))
           (required : list str) (bus path : str) (evs : list event) : intro_result :=
  match parse replace heap known evs with
  | Err _ => IFailed heap known
  | Ok (ids, heap', known') =>
      match missing heap' required ids with
      | [] => IProxy (mkProxy bus path ids) heap' known'
      | _ :: _ => IFailed heap' known'
      end
  end.
