(* Harness entry points for C20 (Model/FdFraming.v, Spec/FdSpec.v).

   input  ::= (0 pyval)  fileDescriptorReceived      | (1 "bytes")  dataReceived
   msg    ::= (le type flags serial ((code ty wval) ...) (ty ...) (wval ...) (pyval ...))
              a wire message (Spec/MsgSpec.v smsg) and the descriptors accompanying it

   (20 1 (input ...))        -> (current legacy)    the model's run_fd on an authenticated client
                                                    connection, with and without the repair D60
        result ::= ((out ...) (pyval ...) residual)
        out    ::= (1 type serial er au ((code pyval) ...) (body?)) | (0) dropped | (2) other
        residual ::= () | ("bytes")
   (20 2 (msg ...) (input ...)) -> (ok ((seen ...) (pyval ...) "bytes"))
                                                    SPEC: stream_order decided, and [expected]
        seen   ::= (type serial er au ((code pyval) ...) (body?))
   (20 3 (msg ...))          -> ("wire" ...)        the specification encoding of each message
   (20 4 er au ((code pyval) ...) body next)
                             -> (1 (tcall ...) next') | (0 err next')     call_remote
        tcall  ::= (0 pyval) sendFileDescriptor | (1 "bytes") write
   (20 5 msg)                -> (tcall ...)         SPEC: send_spec for the message with UNIX_FDS
                                                    appended when it has descriptors
   (20 6 client maxl auth (input ...)) -> (current legacy)
                                                    run_start: the connection from connectionMade on, with a
                                                    scripted authenticator (auth as in OpsC04.v);
                                                    out (2 event) = what framing reports besides messages
                                                    (event coded as in OpsC04.v)
   (20 7 client maxl auth "hs" (msg ...) (input ...)) -> (ok ((seen ...) (pyval ...)) (event ...))
                                                    SPEC: stream_order_hs decided, expected_hs, and the
                                                    non-message events of C04's stream semantics [sem] *)
From Tx Require Import Lib.Base Lib.Sexp Model.PyVal Model.Marshal Model.Message Model.Framing
  Model.FdFraming Model.OpsC01 Model.OpsSpec Model.OpsC03 Model.OpsC04 Spec.FramingSpec
  Spec.WireSpec Spec.Readback Spec.MsgSpec Spec.FdSpec.
Local Open Scope Z_scope.

Definition input_of (s : sexp) : option input :=
  match s with
  | SList [SNum 0; v] => option_map Fd (pv_of_sexp v)
  | SList [SNum 1; SBytes b] => Some (Read b)
  | _ => None
  end.

Definition field_of (f : sexp) : option (Z * ty * wval) :=
  match f with
  | SList [SNum c; t; w] =>
      match ty_of_sexp t, wv_of_sexp w with
      | Some t', Some w' => Some (c, t', w')
      | _, _ => None
      end
  | _ => None
  end.

Definition sent_of (s : sexp) : option sent :=
  match s with
  | SList [le; SNum mt; SNum flags; SNum serial; SList fields; SList ts; SList ws; SList fds] =>
      match as_bool le, map_opt field_of fields, map_opt ty_of_sexp ts, map_opt wv_of_sexp ws,
            map_opt pv_of_sexp fds with
      | Some le', Some fields', Some ts', Some ws', Some fds' =>
          Some (mkSent {| s_le := le'; s_type := mt; s_flags := flags; s_serial := serial;
                          s_fields := fields'; s_body_ts := ts'; s_body := ws' |} fds')
      | _, _, _, _, _ => None
      end
  | _ => None
  end.

Definition sseen (x : seen) : sexp :=
  let '(mt, serial, er, au, fields, body) := x in
  SList [SNum mt; SNum serial; sbool er; sbool au;
         SList (map (fun cv => SList [SNum (fst cv); pv_to_sexp (snd cv)]) fields);
         sopt (fun l => SList (map pv_to_sexp l)) body].

Definition sout (o : out) : sexp :=
  match o with
  | Deliver p => match sseen (view p) with SList l => SList (SNum 1 :: l) | x => x end
  | Dropped => SList [SNum 0]
  | Other e => SList [SNum 2; OpsC04.sevent e]
  end.

Definition sresult (r : list out * list pyval * option bytes) : sexp :=
  let '(o, q, resid) := r in
  SList [SList (map sout o); SList (map pv_to_sexp q); sopt SBytes resid].

Definition no_auth (a : unit) (l : bytes) : unit * ares := (tt, AContinue).

Definition total_len (ins : list input) : nat :=
  fold_right (fun i n => match i with Read b => (length b + n)%nat | Fd _ => n end) 0%nat ins.

Definition run_model (legacy : bool) (ins : list input) : list out * list pyval * option bytes :=
  run_fd no_auth 16384 legacy (fuel_for header_format (2 * total_len ins + 260)) true tt ins.

Definition stcall (c : tcall) : sexp :=
  match c with
  | SendFd v => SList [SNum 0; pv_to_sexp v]
  | Write b => SList [SNum 1; SBytes b]
  end.

Definition op (args : list sexp) : sexp :=
  match args with
  | [SNum 1; SList ins] =>
      match map_opt input_of ins with
      | Some ins' => SList [sresult (run_model false ins'); sresult (run_model true ins')]
      | None => bad
      end
  | [SNum 2; SList msgs; SList ins] =>
      match map_opt sent_of msgs, map_opt input_of ins with
      | Some msgs', Some ins' =>
          let '(ss, q, resid) := expected msgs' ins' in
          SList [sbool (stream_order_b msgs' ins');
                 SList [SList (map sseen ss); SList (map pv_to_sexp q); SBytes resid]]
      | _, _ => bad
      end
  | [SNum 3; SList msgs] =>
      match map_opt sent_of msgs with
      | Some msgs' => SList (map (fun x => SBytes (wire x)) msgs')
      | None => bad
      end
  | [SNum 4; er; au; SList attrs; body; SNum next] =>
      match as_bool er, as_bool au, map_opt attr_pair_of_sexp attrs, pv_of_sexp body with
      | Some er', Some au', Some attrs', Some body' =>
          let fuel := (marshal_fuel header_format body' + 40)%nat in
          match call_remote fuel er' au' attrs' body' next with
          | (Ok calls, next') => SList [SNum 1; SList (map stcall calls); SNum next']
          | (Err e, next') => SList [SNum 0; SNum (err_code e); SNum next']
          end
      | _, _, _, _ => bad
      end
  | [SNum 5; msg] =>
      match sent_of msg with
      | Some x =>
          let s := sn_msg x in
          let s' := {| s_le := s_le s; s_type := s_type s; s_flags := s_flags s; s_serial := s_serial s;
                       s_fields := s_fields s ++ match sn_fds x with
                                                 | [] => []
                                                 | _ => [(9, TUInt32, WInt (Z.of_nat (length (sn_fds x))))]
                                                 end;
                       s_body_ts := s_body_ts s; s_body := s_body s |} in
          SList (map stcall (send_spec (sn_fds x) (msg_enc s')))
      | None => bad
      end
  | [SNum 6; client; SNum maxl; auth; SList ins] =>
      match as_bool client, map_opt input_of ins with
      | Some c, Some ins' =>
          let fuel := fuel_for header_format (2 * total_len ins' + 260) in
          OpsC04.with_auth auth (fun A astep a0 =>
            SList [sresult (run_start astep (Z.to_N maxl) false fuel c a0 ins');
                   sresult (run_start astep (Z.to_N maxl) true fuel c a0 ins')])
      | _, _ => bad
      end
  | [SNum 7; client; SNum maxl; auth; SBytes hs; SList msgs; SList ins] =>
      match as_bool client, map_opt sent_of msgs, map_opt input_of ins with
      | Some c, Some msgs', Some ins' =>
          let '(ss, q) := expected_hs hs msgs' ins' in
          OpsC04.with_auth auth (fun A astep a0 =>
            SList [sbool (stream_order_hs_b hs msgs' ins');
                   SList [SList (map sseen ss); SList (map pv_to_sexp q)];
                   SList (map OpsC04.sevent
                            (filter (fun e => match e with Msg _ => false | _ => true end)
                                    (fst (sem astep (Z.to_N maxl) c a0 (bytes_of ins')))))])
      | _, _, _ => bad
      end
  | _ => bad
  end.
