(* Harness entry point for C17.

   (17 hier history)
     hier    = (class ...)                 MRO order, most derived first
     class   = ((iface ...) (dprop ...))
     iface   = (name (pdecl ...))
     pdecl   = (name sig readable writeable emits)      emits: 0 False, 1 True, 2 'invalidates'
     dprop   = (attr pname () | (iface))
     history = (op ...)
     op      = (0 attr val) | (1 c) | (2 c i n) | (3 c i n val) | (4 c i) | (5 c)     c: connection; 5 = unexport
                                                                  val: Model/PyVal.v coding

   -> (wf compiled steps)
     wf       = 0/1      the declarations satisfy Spec.PropsSpec.wf (decided here)
     compiled = 0/1      every DBusProperty resolved
     steps    = one entry per operation: (current legacy spec)
       current, legacy = (reply (signal ...))
         reply  = (0) completed | (1) raised | (2 sig val) | (3 ((name sig val) ...)) | (4) | (5) error reply
         signal = (0 c iface name sig val) | (1 c ((iface ((name sig val) ...)) ...)) | (2 c (iface ...))
       spec = (exported clear reply (changed-signal ...) write entries (exported-on-1 exported-on-2) handler)
         exported = on the connection the call arrives on; handler = () | (c) connection of the latest export
         reply   = the specified Get reply, () for other operations
         write   = () | (iface name presentable notifies)   the property the operation assigns
         entries = GetAll: ((name (1 sig val) | (0)) ...) for the readable properties of the interface *)
From Tx Require Import Lib.Base Lib.Sexp Model.PyVal Model.PropsModel Spec.PropsSpec.
Local Open Scope Z_scope.

Definition dec_pdecl (s : sexp) : option pdecl :=
  match s with
  | SList [n; sg; r; w; SNum e] =>
      match as_str n, as_str sg, as_bool r, as_bool w with
      | Some n', Some sg', Some r', Some w' =>
          Some (mkP n' sg' (norm_access r' w') (if e =? 1 then EmTrue else if e =? 2 then EmInval else EmFalse))
      | _, _, _, _ => None
      end
  | _ => None
  end.

Definition dec_iface (s : sexp) : option iface :=
  match s with
  | SList [n; SList ps] =>
      match as_str n, map_opt dec_pdecl ps with
      | Some n', Some ps' => Some (mkI n' ps')
      | _, _ => None
      end
  | _ => None
  end.

Definition dec_dprop (s : sexp) : option dprop :=
  match s with
  | SList [a; p; i] =>
      match as_str a, as_str p, as_opt as_str i with
      | Some a', Some p', Some i' => Some (mkD a' p' i')
      | _, _, _ => None
      end
  | _ => None
  end.

Definition dec_class (s : sexp) : option class :=
  match s with
  | SList [SList is; SList ds] =>
      match map_opt dec_iface is, map_opt dec_dprop ds with
      | Some is', Some ds' => Some (mkC is' ds')
      | _, _ => None
      end
  | _ => None
  end.

Definition dec_op (s : sexp) : option op :=
  match s with
  | SList [SNum 0; a; v] =>
      match as_str a, pv_of_sexp v with Some a', Some v' => Some (OAssign a' v') | _, _ => None end
  | SList [SNum 1; SNum c] => Some (OExport (Z.to_nat c))
  | SList [SNum 5; SNum c] => Some (OUnexport (Z.to_nat c))
  | SList [SNum 2; SNum c; i; n] =>
      match as_str i, as_str n with Some i', Some n' => Some (OGet (Z.to_nat c) i' n') | _, _ => None end
  | SList [SNum 3; SNum c; i; n; v] =>
      match as_str i, as_str n, pv_of_sexp v with
      | Some i', Some n', Some v' => Some (OSet (Z.to_nat c) i' n' v')
      | _, _, _ => None
      end
  | SList [SNum 4; SNum c; i] => option_map (OGetAll (Z.to_nat c)) (as_str i)
  | _ => None
  end.

Definition enc_var (x : str * pyval) : list sexp := [sstr (fst x); pv_to_sexp (snd x)].

Definition enc_dict (d : list (str * (str * pyval))) : sexp :=
  SList (map (fun e => SList (sstr (fst e) :: enc_var (snd e))) d).

Definition enc_reply (r : reply) : sexp :=
  match r with
  | RNone => SList [SNum 0]
  | RRaise => SList [SNum 1]
  | RVal sg v => SList (SNum 2 :: enc_var (sg, v))
  | RDict d => SList [SNum 3; enc_dict d]
  | ROk => SList [SNum 4]
  | RErr => SList [SNum 5]
  end.

Definition enc_signal (s : signal) : sexp :=
  match s with
  | SigChanged c i n sg v => SList (SNum 0 :: snat c :: sstr i :: sstr n :: enc_var (sg, v))
  | SigAdded c d => SList [SNum 1; snat c; SList (map (fun e => SList [sstr (fst e); enc_dict (snd e)]) d)]
  | SigRemoved c l => SList [SNum 2; snat c; SList (map sstr l)]
  end.

Definition enc_out (o : reply * list signal) : sexp :=
  SList [enc_reply (fst o); SList (map enc_signal (snd o))].

Definition enc_pres (r : res (str * pyval)) : sexp :=
  match r with
  | Ok x => SList (SNum 1 :: enc_var x)
  | Err _ => SList [SNum 0]
  end.

Definition enc_spec (h : hier) (hist : list op) (o : op) : sexp :=
  let ex := exported_on hist (arrives o) in
  let clr := match o with OGet _ i n | OSet _ i n _ => clear_b h i n | _ => true end in
  let rp := match o with OGet c i n => SList [enc_reply (s_get present h hist c i n)] | _ => SList [] end in
  let ch := SList (map enc_signal (s_changed present h hist o)) in
  let wr := match write_of h ex o with
            | Some (d, v) => SList [sstr (dc_iface d); sstr (dc_name d);
                                    sbool (is_ok (present (p_sig (dc_prop d)) v)); sbool (notifies (dc_prop d))]
            | None => SList []
            end in
  let en := match o with
            | OGetAll _ i =>
                SList (map (fun n => SList [sstr n; match s_entry present h hist i n with
                                                      | Some r => enc_pres r
                                                      | None => SList [SNum 0]
                                                      end])
                           (fold_left (fun acc d => if str_eqb (dc_iface d) i && readable (dc_prop d)
                                                       && negb (existsb (str_eqb (dc_name d)) acc)
                                                    then acc ++ [dc_name d] else acc) (declared h) []))
            | _ => SList []
            end in
  SList [sbool ex; sbool clr; rp; ch; wr; en;
         SList [sbool (exported_on hist 1); sbool (exported_on hist 2)]; sopt snat (handler_of hist)].

Fixpoint go (h : hier) (bs : list (list bind)) (stc stl : state) (done : list op) (todo : list op) : list sexp :=
  match todo with
  | [] => []
  | o :: r =>
      let '(stc', rc, sc) := step current (iface_names h) bs stc o in
      let '(stl', rl, sl) := step legacy (iface_names h) bs stl o in
      SList [enc_out (rc, sc); enc_out (rl, sl); enc_spec h done o]
        :: go h bs stc' stl' (done ++ [o]) r
  end.

Definition op (args : list sexp) : sexp :=
  match args with
  | [SList cs; SList os] =>
      match map_opt dec_class cs, map_opt dec_op os with
      | Some h, Some hist =>
          match compile h with
          | Ok bs => SList [sbool (wf_b h); SNum 1; SList (go h bs init init [] hist)]
          | Err _ => SList [sbool (wf_b h); SNum 0; SList []]
          end
      | _, _ => bad
      end
  | _ => bad
  end.
