(* Harness entry point for C08:
     (8 <serial0> (<event> ...))
   event ::= (0 <kind 0|1|2> <timeout: () | (n)> <retsig: () | (0) | (1 "sig")>)   call
           | (1 <reply_serial> <msg>)                                              method return
           | (2 <reply_serial> "error name" <msg>)                                 error reply
           | (3 <serial>)                                                          timer for serial fires
           | (4 <reason>)                                                          connection lost
   msg   ::= (<signature: () | ("sig")> (<val> ...))
   val   ::= number | "string" | (<val> ...)
   Answer: ((<step> ...) <spec> <fault>)
   step  ::= ((<completion> ...) (<pending serial> ...) (<timer serial> ...))   after each event
   spec  ::= ((<completion> ...) (<open serial> ...) (<open serial with deadline> ...)
              ((<call id> <outcome option>) ...))
   completion ::= (<call id> <outcome>)
   outcome ::= (0 (<val>)?) | (1 "name" "message" (<val> ...)) | (2) | (3) | (4 reason) | (5)   *)
From Tx Require Import Lib.Base Lib.Sexp Model.Calls Spec.CallSpec.
Local Open Scope Z_scope.

Fixpoint val_of (s : sexp) : val :=
  match s with
  | SNum z => VInt z
  | SBytes b => VStr b
  | SList l => VSeq (map val_of l)
  end.

Fixpoint sval (v : val) : sexp :=
  match v with
  | VInt z => SNum z
  | VStr s => SBytes s
  | VSeq l => SList (map sval l)
  end.

Definition msg_of (s : sexp) : option msg :=
  match s with
  | SList [so; SList vs] =>
      match as_opt as_str so with
      | Some o => Some (Msg o (map val_of vs))
      | None => None
      end
  | _ => None
  end.

Definition retsig_of (s : sexp) : option retsig :=
  match s with
  | SList [] => Some RsNoCheck
  | SList [SNum 0] => Some RsNone
  | SList [SNum 1; x] => option_map RsStr (as_str x)
  | _ => None
  end.

Definition kind_of (z : Z) : option ckind :=
  match z with 0 => Some CkNormal | 1 => Some CkNoReply | 2 => Some CkInvalid | _ => None end.

Definition event_of (s : sexp) : option event :=
  match s with
  | SList [SNum 0; SNum k; t; rs] =>
      match kind_of k, as_opt as_N t, retsig_of rs with
      | Some k, Some t, Some rs => Some (ECall k t rs)
      | _, _, _ => None
      end
  | SList [SNum 1; SNum s; m] => option_map (EReturn (Z.to_N s)) (msg_of m)
  | SList [SNum 2; SNum s; n; m] =>
      match as_str n, msg_of m with
      | Some n, Some m => Some (EError (Z.to_N s) n m)
      | _, _ => None
      end
  | SList [SNum 3; SNum s] => Some (ETimer (Z.to_N s))
  | SList [SNum 4; SNum r] => Some (ELost (Z.to_N r))
  | _ => None
  end.

Definition soutcome (o : outcome) : sexp :=
  match o with
  | OValue v => SList [SNum 0; sopt sval v]
  | ORemote n m vs => SList [SNum 1; SBytes n; SBytes m; SList (map sval vs)]
  | OSigMismatch => SList [SNum 2]
  | OTimeOut => SList [SNum 3]
  | OLost r => SList [SNum 4; sN r]
  | OFailed => SList [SNum 5]
  end.

Definition scompletion (c : nat * outcome) : sexp := SList [snat (fst c); soutcome (snd c)].

(* run the model event by event, emitting the observation after each event *)
Fixpoint steps (st : state) (evs : list event) : list sexp * state :=
  match evs with
  | [] => ([], st)
  | e :: r =>
      let st' := step st e in
      let new := skipn (length (completions st)) (completions st') in
      let obs := SList [SList (map scompletion new);
                        SList (map sN (pending_serials st'));
                        SList (map sN (timer_serials st'))] in
      let (l, fin) := steps st' r in
      (obs :: l, fin)
  end.

Definition op (args : list sexp) : sexp :=
  match args with
  | [SNum s0; SList evs] =>
      match map_opt event_of evs with
      | None => bad
      | Some evs =>
          let s0 := Z.to_N s0 in
          let (obs, fin) := steps (init s0) evs in
          SList [ SList obs;
                  SList [ SList (map scompletion (spec_completions s0 evs));
                          SList (map sN (open_serials s0 evs));
                          SList (map sN (open_deadline_serials s0 evs));
                          SList (map (fun c => SList [snat (c_id c); sopt soutcome (outcome_of c)])
                                     (calls_of evs 0 s0)) ];
                  sbool (st_fault fin) ]
      end
  | _ => bad
  end.
