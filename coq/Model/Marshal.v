(* Faithful model of txdbus/marshal.py: pad, genCompleteTypes, sigFromPy, the
   17 marshallers / unmarshallers and the marshal / unmarshal drivers.

   Representation: bytes and signatures are list N; offsets and counts nat;
   a Python str is carried as its UTF-8 encoding (codecs.encode(.,'utf-8') is
   then the identity and codecs.decode(.,'utf-8') is the validity check
   [utf8_valid], transcribed from CPython's strict decoder; a str that cannot
   be encoded - lone surrogates - is outside the model).  Python exceptions
   are [err] values; only Ok/Err is compared with the implementation.
   Nesting recursion takes fuel (EFuel when exhausted; excluded by theorems). *)
From Tx Require Import Lib.Base Model.PyVal Model.Validators.
Local Open Scope N_scope.

(* ---------------------------------------------------------------------------
   type table (marshal.dbus_types) and padding (genpad)                        *)

Definition align_tab : list (N * N) :=
  [(121, 1); (98, 4); (110, 2); (113, 2); (105, 4); (117, 4); (120, 8); (116, 8);
   (100, 8); (115, 4); (111, 4); (103, 1); (97, 4); (40, 8); (118, 1); (123, 8); (104, 4)].

Fixpoint assoc (k : N) (l : list (N * N)) : option N :=
  match l with
  | [] => None
  | (k', v) :: r => if k =? k' then Some v else assoc k r
  end.

Definition align_of (code : N) : option N := assoc code align_tab.

(* genpad(align)(x): x % align and (align - x % align) or 0 *)
Definition pad_len (align : N) (off : N) : N :=
  let m := off mod align in
  if m =? 0 then 0 else align - m.

Definition zeros (n : N) : bytes := repeat_n 0 (N.to_nat n).

Definition len (b : bytes) : N := N.of_nat (length b).

(* pad[tcode](off): KeyError for an unknown code *)
Definition pad_for (code : N) (off : N) : res N :=
  match align_of code with
  | Some a => Ok (pad_len a off)
  | None => Err EKey
  end.

(* ---------------------------------------------------------------------------
   genCompleteTypes, one step at a time                                        *)

(* find_end(idx, b, e): position (relative to s) of the bracket closing depth 1 *)
Fixpoint find_end (s : str) (b e : N) (depth : nat) : option nat :=
  match s with
  | [] => None
  | c :: r =>
      if c =? b then option_map S (find_end r b e (S depth))
      else if c =? e then
             match depth with
             | 1%nat => Some 0%nat
             | _ => option_map S (find_end r b e (pred depth))
             end
           else option_map S (find_end r b e depth)
  end.

(* first complete type and the remainder; None when the signature is exhausted *)
Fixpoint gct_next (sig : str) : res (option (str * str)) :=
  match sig with
  | [] => Ok None
  | c :: r =>
      if c =? 40 then                                  (* '(' *)
        match find_end r 40 41 1 with
        | Some x => Ok (Some (c :: firstn (S x) r, skipn (S x) r))
        | None => Err EType                            (* None + 1 *)
        end
      else if c =? 123 then                            (* '{' *)
        match find_end r 123 125 1 with
        | Some x => Ok (Some (c :: firstn (S x) r, skipn (S x) r))
        | None => Err EType
        end
      else if c =? 97 then                             (* 'a' *)
        match gct_next r with
        | Err e => Err e
        | Ok None => Err EStop                         (* next() on an exhausted generator *)
        | Ok (Some (ct, rest)) => Ok (Some (c :: ct, rest))
        end
      else Ok (Some ([c], r))
  end.

(* list(genCompleteTypes(sig)); fuel = S (length sig) always suffices *)
Fixpoint gct_all_fuel (n : nat) (sig : str) : res (list str) :=
  match n with
  | O => Err EFuel
  | S n' =>
      match gct_next sig with
      | Err e => Err e
      | Ok None => Ok []
      | Ok (Some (ct, rest)) =>
          match gct_all_fuel n' rest with
          | Ok l => Ok (ct :: l)
          | Err e => Err e
          end
      end
  end.

Definition gen_complete_types (sig : str) : res (list str) :=
  gct_all_fuel (S (length sig)) sig.

(* ct[1:-1] *)
Definition strip_ends (ct : str) : str := removelast (tl ct).

(* ---------------------------------------------------------------------------
   fixed-width integers                                                         *)

Fixpoint le_bytes (n : nat) (v : N) : bytes :=
  match n with
  | O => []
  | S k => (v mod 256) :: le_bytes k (v / 256)
  end.

Definition enc_uint (n : nat) (le : bool) (v : N) : bytes :=
  if le then le_bytes n v else rev (le_bytes n v).

Fixpoint le_value (b : bytes) : N :=
  match b with
  | [] => 0
  | x :: r => x + 256 * le_value r
  end.

Definition dec_uint (le : bool) (b : bytes) : N :=
  if le then le_value b else le_value (rev b).

Definition pow256 (n : nat) : Z := Z.pow 256 (Z.of_nat n).

(* struct.pack of an integer format: range check, two's complement *)
Definition pack_int (n : nat) (signed : bool) (le : bool) (z : Z) : res bytes :=
  let lo := if signed then (- (pow256 n / 2))%Z else 0%Z in
  let hi := if signed then (pow256 n / 2)%Z else pow256 n in
  if (Z.leb lo z && Z.ltb z hi)%bool
  then Ok (enc_uint n le (Z.to_N (z mod pow256 n)))
  else Err EStruct.

Definition unpack_int (signed : bool) (le : bool) (b : bytes) : Z :=
  let v := Z.of_N (dec_uint le b) in
  if signed && Z.leb (pow256 (length b) / 2) v then (v - pow256 (length b))%Z else v.

(* struct.unpack_from(fmt, data, offset): n bytes at offset or struct.error *)
Definition take_at (n : nat) (data : bytes) (off : N) : res bytes :=
  if off + N.of_nat n <=? len data
  then Ok (firstn n (skipn (N.to_nat off) data))
  else Err EStruct.

(* data[a : a+n] - a Python slice never fails *)
Definition slice (data : bytes) (a n : N) : bytes :=
  let L := len data in
  firstn (N.to_nat (N.min n L)) (skipn (N.to_nat (N.min a L)) data).

(* the integer a Python value packs as, if struct accepts it (int, bool, int subclasses) *)
Definition as_int (v : pyval) : res Z :=
  match unwrap v with
  | PInt z => Ok z
  | PBool b => Ok (if b then 1 else 0)%Z
  | PFloat _ | PStr _ | PBytes _ | PList _ | PTuple _ | PDict _ | PNone => Err EStruct
  | PObj _ | PWrap _ _ => Err EUnmodelled
  end.

(* ---------------------------------------------------------------------------
   UTF-8 validity (CPython strict decoder)                                      *)

Definition in_range (lo hi x : N) : bool := (lo <=? x) && (x <=? hi).
Definition cont (x : N) : bool := in_range 128 191 x.

Fixpoint utf8_valid (b : bytes) : bool :=
  match b with
  | [] => true
  | x :: r =>
      if x <? 128 then utf8_valid r
      else if in_range 194 223 x then
             match r with c1 :: r' => cont c1 && utf8_valid r' | _ => false end
      else if x =? 224 then
             match r with c1 :: c2 :: r' => in_range 160 191 c1 && cont c2 && utf8_valid r' | _ => false end
      else if in_range 225 236 x || in_range 238 239 x then
             match r with c1 :: c2 :: r' => cont c1 && cont c2 && utf8_valid r' | _ => false end
      else if x =? 237 then
             match r with c1 :: c2 :: r' => in_range 128 159 c1 && cont c2 && utf8_valid r' | _ => false end
      else if x =? 240 then
             match r with c1 :: c2 :: c3 :: r' => in_range 144 191 c1 && cont c2 && cont c3 && utf8_valid r' | _ => false end
      else if in_range 241 243 x then
             match r with c1 :: c2 :: c3 :: r' => cont c1 && cont c2 && cont c3 && utf8_valid r' | _ => false end
      else if x =? 244 then
             match r with c1 :: c2 :: c3 :: r' => in_range 128 143 c1 && cont c2 && cont c3 && utf8_valid r' | _ => false end
      else false
  end.

Definition is_ascii (b : bytes) : bool := forallb (fun x => x <? 128) b.

(* ---------------------------------------------------------------------------
   sigFromPy                                                                     *)

Definition c_a : N := 97.
Definition sig_av : str := [97; 118].
Definition sig_asv : str := [97; 123; 115; 118; 125].

Fixpoint last_pair {A} (l : list A) (d : A) : A :=
  match l with [] => d | [x] => x | _ :: r => last_pair r d end.

Fixpoint sig_from_py (v : pyval) : res str :=
  match v with
  | PWrap code _ => Ok [code]                       (* the wrapper's dbusSignature *)
  | PBool _ => Ok [98]
  | PInt _ => Ok [105]
  | PFloat _ => Ok [100]
  | PStr _ => Ok [115]
  | PBytes _ => Ok [97; 121]
  | PList [] => Ok sig_av
  | PList (x :: r) =>
      if forallb (fun y => subclass (class_of y) (class_of x)) r
      then match sig_from_py x with Ok s => Ok (c_a :: s) | Err e => Err e end
      else Ok sig_av
  | PTuple l =>
      match (fix go (l : list pyval) : res str :=
               match l with
               | [] => Ok []
               | x :: r => match sig_from_py x, go r with
                           | Ok a, Ok b => Ok (a ++ b)
                           | Err e, _ => Err e
                           | _, Err e => Err e
                           end
               end) l with
      | Ok s => Ok (40 :: s ++ [41])
      | Err e => Err e
      end
  | PDict [] => Ok sig_asv
  | PDict ((k0, v0) :: r) =>
      (* vtype = type of the first value, and (since D61) its signature; k leaks
         from the loop: the key of the LAST pair *)
      let same := forallb (fun kv => subclass (class_of (snd kv)) (class_of v0)) r in
      let sv := sig_from_py v0 in
      (fix last (sk : res str) (r : list (pyval * pyval)) : res str :=
         match r with
         | [] =>
             match sk with
             | Err e => Err e
             | Ok ks =>
                 if same then match sv with Ok vs => Ok (97 :: 123 :: ks ++ vs ++ [125]) | Err e => Err e end
                 else Ok (97 :: 123 :: ks ++ [118; 125])
             end
         | (k', _) :: r' => last (sig_from_py k') r'
         end) (sig_from_py k0) r
  | PObj _ | PNone => Err EMarshal
  end.

(* sigFromPy before the repair of D61: the value type of a dict came from the LAST pair *)
Fixpoint sig_from_py_legacy (v : pyval) : res str :=
  match v with
  | PWrap code _ => Ok [code]                       (* the wrapper's dbusSignature *)
  | PBool _ => Ok [98]
  | PInt _ => Ok [105]
  | PFloat _ => Ok [100]
  | PStr _ => Ok [115]
  | PBytes _ => Ok [97; 121]
  | PList [] => Ok sig_av
  | PList (x :: r) =>
      if forallb (fun y => subclass (class_of y) (class_of x)) r
      then match sig_from_py_legacy x with Ok s => Ok (c_a :: s) | Err e => Err e end
      else Ok sig_av
  | PTuple l =>
      match (fix go (l : list pyval) : res str :=
               match l with
               | [] => Ok []
               | x :: r => match sig_from_py_legacy x, go r with
                           | Ok a, Ok b => Ok (a ++ b)
                           | Err e, _ => Err e
                           | _, Err e => Err e
                           end
               end) l with
      | Ok s => Ok (40 :: s ++ [41])
      | Err e => Err e
      end
  | PDict [] => Ok sig_asv
  | PDict ((k0, v0) :: r) =>
      (* vtype = type of the first value; k, v leak from the loop: the LAST pair *)
      let same := forallb (fun kv => subclass (class_of (snd kv)) (class_of v0)) r in
      (fix last (k v : pyval) (sk sv : res str) (r : list (pyval * pyval)) : res str :=
         match r with
         | [] =>
             match sk with
             | Err e => Err e
             | Ok ks =>
                 if same then match sv with Ok vs => Ok (97 :: 123 :: ks ++ vs ++ [125]) | Err e => Err e end
                 else Ok (97 :: 123 :: ks ++ [118; 125])
             end
         | (k', v') :: r' => last k' v' (sig_from_py_legacy k') (sig_from_py_legacy v') r'
         end) k0 v0 (sig_from_py_legacy k0) (sig_from_py_legacy v0) r
  | PObj _ | PNone => Err EMarshal
  end.

(* ---------------------------------------------------------------------------
   marshalling                                                                   *)

(* oobFDs: None, or the list the caller supplied (descriptors appended so far) *)
Definition fdst := option (list pyval).

Definition mres := res (N * bytes * fdst).      (* (nbytes, joined chunks, oobFDs) *)

Definition m_int (n : nat) (signed : bool) (v : pyval) (le : bool) (fds : fdst) : mres :=
  do z <- as_int v;
  do b <- pack_int n signed le z;
  Ok (N.of_nat n, b, fds).

Definition str_of (v : pyval) : option bytes :=
  match unwrap v with PStr s => Some s | _ => None end.

Definition m_string (v : pyval) (le : bool) (fds : fdst) : mres :=
  match str_of v with
  | None => Err EMarshal                            (* not isinstance(var, str) *)
  | Some s =>
      if existsb (N.eqb 0) s then Err EMarshal      (* embedded NUL *)
      else
        do lenb <- pack_int 4 false le (Z.of_N (len s));
        Ok (4 + len s + 1, lenb ++ s ++ [0], fds)
  end.

Definition m_object_path (v : pyval) (le : bool) (fds : fdst) : mres :=
  match str_of v with
  | None => Err EType                               (* no str.startswith *)
  | Some s => if validate_path s then m_string v le fds else Err EMarshal
  end.

Definition m_signature (v : pyval) (le : bool) (fds : fdst) : mres :=
  match str_of v with
  | None => Err EType                               (* codecs.encode on a non-str *)
  | Some s =>
      if negb (is_ascii s) then Err EUnicode
      else
        do lenb <- pack_int 1 false le (Z.of_N (len s));
        Ok (2 + len s, lenb ++ s ++ [0], fds)
  end.

Definition m_double (v : pyval) (le : bool) (fds : fdst) : mres :=
  match unwrap v with
  | PFloat bits => Ok (8, enc_uint 8 le bits, fds)
  | PInt _ | PBool _ => Err EUnmodelled             (* struct converts an int to a double *)
  | PObj _ | PWrap _ _ => Err EUnmodelled
  | _ => Err EStruct
  end.

Definition m_unix_fd (v : pyval) (le : bool) (fds : fdst) : mres :=
  match fds with
  | None => Err EType                               (* len(None) *)
  | Some l =>
      do b <- pack_int 4 false le (Z.of_nat (length l));
      Ok (4, b, Some (l ++ [v]))
  end.

(* the list marshal() zips the signature against *)
Definition seq_items (v : pyval) : res (list pyval) :=
  match v with
  | PObj l => Ok l                                  (* hasattr(variableList, 'dbusOrder') *)
  | PList l | PTuple l => Ok l
  | PBytes b => Ok (map (fun x => PInt (Z.of_N x)) b)
  | PDict l => Ok (map fst l)
  | PStr _ => Err EUnmodelled                       (* iterates characters *)
  | PWrap c x => if wrap_is_str c then Err EUnmodelled else Err EType
  | PInt _ | PBool _ | PFloat _ | PNone => Err EType        (* not iterable *)
  end.

(* the items marshal_array iterates over *)
Definition array_items (v : pyval) : res (list pyval) :=
  match v with
  | PList l | PTuple l => Ok l
  | PBytes b => Ok (map (fun x => PInt (Z.of_N x)) b)
  | PDict l => Ok (map (fun kv => PTuple [fst kv; snd kv]) l)
  | _ => Err EMarshal
  end.

Section MarshalLoops.
  (* marshallers[ct[0]](ct, var, start, lendian, oobFDs) at the next nesting level *)
  Variable one : str -> pyval -> N -> bool -> fdst -> mres.

  (* for ct, var in zip(genCompleteTypes(sig), vals): ... ; returns (offset, bytes, fds) *)
  Fixpoint seq_loop (sig : str) (vals : list pyval) (off : N) (le : bool) (fds : fdst) {struct vals}
    : res (N * bytes * fdst) :=
    match gct_next sig with                         (* zip pulls the generator first *)
    | Err e => Err e
    | Ok None => Ok (off, [], fds)
    | Ok (Some (ct, rest)) =>
        match vals with
        | [] => Ok (off, [], fds)
        | v :: vs =>
            match ct with
            | [] => Err EOther                      (* unreachable *)
            | tcode :: _ =>
                do p <- pad_for tcode off;
                do r <- one ct v (off + p) le fds;
                let '(n, b, fds1) := r in
                do r2 <- seq_loop rest vs (off + p + n) le fds1;
                let '(off2, b2, fds2) := r2 in
                Ok (off2, zeros p ++ b ++ b2, fds2)
            end
        end
    end.

  (* the element loop of marshal_array; returns (offset, data_len, bytes, fds) *)
  Fixpoint arr_loop (tsig : str) (tcode : N) (items : list pyval) (off : N) (dlen : N)
           (le : bool) (fds : fdst) : res (N * N * bytes * fdst) :=
    match items with
    | [] => Ok (off, dlen, [], fds)
    | v :: vs =>
        do p <- pad_for tcode off;
        do r <- one tsig v (off + p) le fds;
        let '(n, b, fds1) := r in
        do r2 <- arr_loop tsig tcode vs (off + p + n) (dlen + p + n) le fds1;
        let '(off2, dlen2, b2, fds2) := r2 in
        Ok (off2, dlen2, zeros p ++ b ++ b2, fds2)
    end.
End MarshalLoops.

(* marshal(sig, vals, startByte, lendian, oobFDs) given the per-type marshaller *)
Definition marshal_with (one : str -> pyval -> N -> bool -> fdst -> mres)
           (sig : str) (vals : pyval) (off : N) (le : bool) (fds : fdst) : mres :=
  do items <- seq_items vals;
  do r <- seq_loop one sig items off le fds;
  let '(off2, b, fds2) := r in
  Ok (off2 - off, b, fds2).

Fixpoint m_one (fuel : nat) (ct : str) (v : pyval) (off : N) (le : bool) (fds : fdst) : mres :=
  match fuel with
  | O => Err EFuel
  | S f =>
      match ct with
      | [] => Err EOther
      | tcode :: tsig =>
          if tcode =? 121 then m_int 1 false v le fds                       (* y *)
          else if tcode =? 98 then                                          (* b *)
            do b <- pack_int 4 false le (if truthy v then 1 else 0)%Z; Ok (4, b, fds)
          else if tcode =? 110 then m_int 2 true v le fds                   (* n *)
          else if tcode =? 113 then m_int 2 false v le fds                  (* q *)
          else if tcode =? 105 then m_int 4 true v le fds                   (* i *)
          else if tcode =? 117 then m_int 4 false v le fds                  (* u *)
          else if tcode =? 120 then m_int 8 true v le fds                   (* x *)
          else if tcode =? 116 then m_int 8 false v le fds                  (* t *)
          else if tcode =? 100 then m_double v le fds                       (* d *)
          else if tcode =? 115 then m_string v le fds                       (* s *)
          else if tcode =? 111 then m_object_path v le fds                  (* o *)
          else if tcode =? 103 then m_signature v le fds                    (* g *)
          else if tcode =? 104 then m_unix_fd v le fds                      (* h *)
          else if tcode =? 97 then                                          (* a: marshal_array *)
            match tsig with
            | [] => Err EIndex                                              (* tsig[0] *)
            | ecode :: _ =>
                let off1 := off + 4 in
                do ip <- pad_for ecode off1;
                do items <- array_items v;
                do r <- arr_loop (m_one f) tsig ecode items (off1 + ip) 0 le fds;
                let '(_, dlen, b, fds1) := r in
                do lenb <- pack_int 4 false le (Z.of_N dlen);
                Ok (4 + ip + dlen, lenb ++ zeros ip ++ b, fds1)
            end
          else if (tcode =? 40) || (tcode =? 123) then                      (* ( { : marshal_struct *)
            marshal_with (m_one f) (strip_ends ct) v off le fds
          else if tcode =? 118 then                                         (* v: marshal_variant *)
            do vsig <- sig_from_py v;
            do r1 <- m_signature (PStr vsig) le fds;
            let '(n1, b1, _) := r1 in
            match vsig with
            | [] => Err EIndex
            | vcode :: _ =>
                do p <- pad_for vcode (off + n1);
                do r2 <- marshal_with (m_one f) vsig (PList [v]) (off + n1 + p) le None;
                let '(n2, b2, _) := r2 in
                Ok (n1 + p + n2, b1 ++ zeros p ++ b2, fds)
            end
          else Err EKey
      end
  end.

Definition m_marshal (fuel : nat) (sig : str) (vals : pyval) (off : N) (le : bool) (fds : fdst) : mres :=
  marshal_with (m_one fuel) sig vals off le fds.

(* marshal() before the repair of D61: marshal_variant infers with the legacy sigFromPy *)
Fixpoint m_one_legacy (fuel : nat) (ct : str) (v : pyval) (off : N) (le : bool) (fds : fdst) : mres :=
  match fuel with
  | O => Err EFuel
  | S f =>
      match ct with
      | [] => Err EOther
      | tcode :: tsig =>
          if tcode =? 121 then m_int 1 false v le fds                       (* y *)
          else if tcode =? 98 then                                          (* b *)
            do b <- pack_int 4 false le (if truthy v then 1 else 0)%Z; Ok (4, b, fds)
          else if tcode =? 110 then m_int 2 true v le fds                   (* n *)
          else if tcode =? 113 then m_int 2 false v le fds                  (* q *)
          else if tcode =? 105 then m_int 4 true v le fds                   (* i *)
          else if tcode =? 117 then m_int 4 false v le fds                  (* u *)
          else if tcode =? 120 then m_int 8 true v le fds                   (* x *)
          else if tcode =? 116 then m_int 8 false v le fds                  (* t *)
          else if tcode =? 100 then m_double v le fds                       (* d *)
          else if tcode =? 115 then m_string v le fds                       (* s *)
          else if tcode =? 111 then m_object_path v le fds                  (* o *)
          else if tcode =? 103 then m_signature v le fds                    (* g *)
          else if tcode =? 104 then m_unix_fd v le fds                      (* h *)
          else if tcode =? 97 then                                          (* a: marshal_array *)
            match tsig with
            | [] => Err EIndex                                              (* tsig[0] *)
            | ecode :: _ =>
                let off1 := off + 4 in
                do ip <- pad_for ecode off1;
                do items <- array_items v;
                do r <- arr_loop (m_one_legacy f) tsig ecode items (off1 + ip) 0 le fds;
                let '(_, dlen, b, fds1) := r in
                do lenb <- pack_int 4 false le (Z.of_N dlen);
                Ok (4 + ip + dlen, lenb ++ zeros ip ++ b, fds1)
            end
          else if (tcode =? 40) || (tcode =? 123) then                      (* ( { : marshal_struct *)
            marshal_with (m_one_legacy f) (strip_ends ct) v off le fds
          else if tcode =? 118 then                                         (* v: marshal_variant *)
            do vsig <- sig_from_py_legacy v;
            do r1 <- m_signature (PStr vsig) le fds;
            let '(n1, b1, _) := r1 in
            match vsig with
            | [] => Err EIndex
            | vcode :: _ =>
                do p <- pad_for vcode (off + n1);
                do r2 <- marshal_with (m_one_legacy f) vsig (PList [v]) (off + n1 + p) le None;
                let '(n2, b2, _) := r2 in
                Ok (n1 + p + n2, b1 ++ zeros p ++ b2, fds)
            end
          else Err EKey
      end
  end.

Definition m_marshal_legacy (fuel : nat) (sig : str) (vals : pyval) (off : N) (le : bool) (fds : fdst) : mres :=
  marshal_with (m_one_legacy fuel) sig vals off le fds.

(* ---------------------------------------------------------------------------
   unmarshalling                                                                 *)

Definition ures := res (N * pyval).              (* (nbytes, value) *)

Definition u_int (n : nat) (signed : bool) (data : bytes) (off : N) (le : bool) : ures :=
  do b <- take_at n data off;
  Ok (N.of_nat n, PInt (unpack_int signed le b)).

Definition u_string (data : bytes) (off : N) (le : bool) : ures :=
  do b <- take_at 4 data off;
  let slen := dec_uint le b in
  let s := slice data (off + 4) slen in
  if utf8_valid s then Ok (4 + slen + 1, PStr s) else Err EUnicode.

Definition u_signature (data : bytes) (off : N) (le : bool) : res (N * str) :=
  do b <- take_at 1 data off;
  let slen := dec_uint le b in
  let s := slice data (off + 1) slen in
  if is_ascii s then Ok (1 + slen + 1, s) else Err EUnicode.

Definition py_eqb_key (a b : pyval) : option bool :=
  (* equality of two decoded dict keys; None = unhashable *)
  match a, b with
  | PInt x, PInt y => Some (Z.eqb x y)
  | PBool x, PBool y => Some (Bool.eqb x y)
  | PInt x, PBool y | PBool y, PInt x => Some (Z.eqb x (if y then 1 else 0))
  | PStr x, PStr y => Some (str_eqb x y)
  | PNone, PNone => Some true
  | PFloat x, PFloat y =>
      (* 0.0 == -0.0; NaN (distinct objects) never equal; otherwise bitwise *)
      let zero t := (t =? 0) || (t =? 9223372036854775808) in
      let nan t := (9218868437227405312 <? t mod 9223372036854775808) in
      Some (if nan x || nan y then false else if zero x && zero y then true else x =? y)
  | PList _, _ | _, PList _ | PDict _, _ | _, PDict _ => None
  | _, _ => Some false
  end.

Fixpoint dict_set (k v : pyval) (l : list (pyval * pyval)) : res (list (pyval * pyval)) :=
  match l with
  | [] => match py_eqb_key k k with None => Err EType | Some _ => Ok [(k, v)] end
  | (k', v') :: r =>
      match py_eqb_key k k' with
      | None => Err EType
      | Some true => Ok ((k', v) :: r)
      | Some false => do r' <- dict_set k v r; Ok ((k', v') :: r')
      end
  end.

(* d = {}; for item in values: d[item[0]] = item[1] *)
Fixpoint build_dict (items : list pyval) (acc : list (pyval * pyval)) : res (list (pyval * pyval)) :=
  match items with
  | [] => Ok acc
  | PList (k :: v :: _) :: r => do acc' <- dict_set k v acc; build_dict r acc'
  | _ => Err EIndex
  end.

Section UnmarshalLoops.
  Variable one : str -> bytes -> N -> bool -> fdst -> ures.

  (* for ct in genCompleteTypes(sig): ... ; n bounds the number of complete types *)
  Fixpoint useq_loop (n : nat) (sig : str) (data : bytes) (off : N) (le : bool) (fds : fdst)
    : res (N * list pyval) :=
    match n with
    | O => Err EFuel
    | S n' =>
        match gct_next sig with
        | Err e => Err e
        | Ok None => Ok (off, [])
        | Ok (Some (ct, rest)) =>
            match ct with
            | [] => Err EOther
            | tcode :: _ =>
                do p <- pad_for tcode off;
                do r <- one ct data (off + p) le fds;
                let '(nb, v) := r in
                do r2 <- useq_loop n' rest data (off + p + nb) le fds;
                let '(off2, vs) := r2 in
                Ok (off2, v :: vs)
            end
        end
    end.

  (* while offset < end_offset: ... ; n bounds the number of iterations *)
  Fixpoint uarr_loop (n : nat) (tsig : str) (tcode : N) (data : bytes) (off end_off : N)
           (le : bool) (fds : fdst) : res (N * list pyval) :=
    if off <? end_off then
      match n with
      | O => Err EFuel
      | S n' =>
          do p <- pad_for tcode off;
          do r <- one tsig data (off + p) le fds;
          let '(nb, v) := r in
          if nb =? 0 then Err EMarshal else         (* an element that consumed nothing *)
          do r2 <- uarr_loop n' tsig tcode data (off + p + nb) end_off le fds;
          let '(off2, vs) := r2 in
          Ok (off2, v :: vs)
      end
    else Ok (off, []).
End UnmarshalLoops.

Definition unmarshal_with (one : str -> bytes -> N -> bool -> fdst -> ures)
           (sig : str) (data : bytes) (off : N) (le : bool) (fds : fdst) : res (N * list pyval) :=
  do r <- useq_loop one (S (length sig)) sig data off le fds;
  let '(off2, vs) := r in
  Ok (off2 - off, vs).

Fixpoint u_one (fuel : nat) (ct : str) (data : bytes) (off : N) (le : bool) (fds : fdst) : ures :=
  match fuel with
  | O => Err EFuel
  | S f =>
      match ct with
      | [] => Err EOther
      | tcode :: tsig =>
          if tcode =? 121 then u_int 1 false data off le
          else if tcode =? 98 then
            do b <- take_at 4 data off; Ok (4, PBool (negb (dec_uint le b =? 0)))
          else if tcode =? 110 then u_int 2 true data off le
          else if tcode =? 113 then u_int 2 false data off le
          else if tcode =? 105 then u_int 4 true data off le
          else if tcode =? 117 then u_int 4 false data off le
          else if tcode =? 120 then u_int 8 true data off le
          else if tcode =? 116 then u_int 8 false data off le
          else if tcode =? 100 then
            do b <- take_at 8 data off; Ok (8, PFloat (dec_uint le b))
          else if (tcode =? 115) || (tcode =? 111) then u_string data off le
          else if tcode =? 103 then
            do r <- u_signature data off le; let '(n, s) := r in Ok (n, PStr s)
          else if tcode =? 104 then
            do b <- take_at 4 data off;
            match fds with
            | None => Err EType
            | Some l =>
                let idx := dec_uint le b in
                Ok (4, if idx <? N.of_nat (length l) then nth (N.to_nat idx) l PNone else PNone)
            end
          else if tcode =? 97 then
            do lb <- take_at 4 data off;
            let dlen := dec_uint le lb in
            match tsig with
            | [] => Err EIndex
            | ecode :: _ =>
                do ip <- pad_for ecode (off + 4);
                let start := off + 4 + ip in
                let end_off := start + dlen in
                do r <- uarr_loop (u_one f) (S (length data)) tsig ecode data start end_off le fds;
                let '(off2, vs) := r in
                if negb (off2 =? end_off) then Err EMarshal
                else if ecode =? 123 then
                       do d <- build_dict vs []; Ok (off2 - off, PDict d)
                     else Ok (off2 - off, PList vs)
            end
          else if (tcode =? 40) || (tcode =? 123) then
            do r <- unmarshal_with (u_one f) (strip_ends ct) data off le fds;
            let '(n, vs) := r in Ok (n, PList vs)
          else if tcode =? 118 then
            do r <- u_signature data off le;
            let '(nsig, vsig) := r in
            match vsig with
            | [] => Err EIndex
            | vcode :: _ =>
                do p <- pad_for vcode (off + nsig);
                do r2 <- unmarshal_with (u_one f) vsig data (off + nsig + p) le fds;
                let '(nvar, vs) := r2 in
                match vs with
                | [] => Err EIndex
                | v0 :: _ => Ok (nsig + p + nvar, v0)
                end
            end
          else Err EKey
      end
  end.

Definition m_unmarshal (fuel : nat) (sig : str) (data : bytes) (off : N) (le : bool) (fds : fdst)
  : res (N * list pyval) :=
  unmarshal_with (u_one fuel) sig data off le fds.

(* fuel that always suffices: nesting depth is bounded by the signature length
   plus (for variants) the data length *)
Definition fuel_for (sig : str) (extra : nat) : nat := S (S (length sig + extra)).
