(* Model of the incoming-call dispatcher of txdbus/objects.py:
   DBusObjectHandler.handleMethodCallMessage (built-ins, object / interface /
   member lookup, signature check, _send_err, send_reply, send_error),
   DBusObject.getInterfaces / executeMethod / _getDecoratedMethod /
   _searchCache / _iterIFaceCaches / _cacheInterfaces / _set_method_flags,
   and the reply constructors of txdbus/message.py as far as a reply is
   observed (type, reply_serial, destination, error name, signature, body).
   Statement by statement; definitions only.

   Representation
   - A Python class is what the dispatcher reads of it: whether its __dict__
     has 'dbusInterfaces' (and then that list), and the functions of its
     __dict__ in dict order, each under its attribute name.  A function is an
     identity tag, the (interface, member) pair put on it by @dbusMethod (if
     any), and whether its last positional parameter is called 'dbusCaller'
     (what _set_method_flags computes once and stores on the function).
   - An exported object is the MRO of its class, `object` left out (the last
     entry is therefore txdbus.objects.DBusObject itself, whose three
     decorated org.freedesktop.DBus.Properties methods are ordinary bound
     implementations as far as the dispatcher is concerned: property C17).
   - `exports` is the handler's dict path -> object (association list).
   - Python values are Model.PyVal.pyval; "encode" is Model.Marshal.m_marshal
     (the function C01/C02 are about).  Strings are UTF-8 byte lists; names
     are ASCII in every accepted case, so validators run on them unchanged.
   - What user code does is NOT modelled: it is the parameter
     `beh : invocation -> outcome` of `handle` (and the `later` argument of
     `fire`), universally quantified in every theorem.

   Definitions with suffix _legacy / the `legacy_text` flag are the pinned
   commit before the repair D30 (error text that is not a DBus string).      *)
From Tx Require Import Lib.Base.
From Tx Require Import Model.PyVal Model.Validators Model.Marshal.
From Tx Require Model.ObjTree.
Local Open Scope N_scope.

(* --- declarations (txdbus/interface.py) ---------------------------------- *)

Record meth := mkMeth {
  m_name : str;
  m_in : str;            (* Method.sigIn *)
  m_out : str            (* Method.sigOut *)
}.

(* addMethod: m.nret = len(list(genCompleteTypes(m.sigOut))); an interface
   whose signature makes genCompleteTypes raise cannot be constructed *)
Definition m_nret (m : meth) : nat :=
  match gen_complete_types (m_out m) with Ok l => length l | Err _ => 0%nat end.

Record iface := mkIface {
  i_name : str;
  i_methods : list meth  (* DBusInterface.methods.values(): a dict, names distinct *)
}.

Fixpoint find_meth (member : str) (l : list meth) : option meth :=   (* methods.get(member) *)
  match l with
  | [] => None
  | m :: r => if str_eqb (m_name m) member then Some m else find_meth member r
  end.

(* --- classes and objects -------------------------------------------------- *)

Record func := mkFunc {
  f_id : N;                          (* which Python function this is *)
  f_deco : option (str * str);       (* (_dbusInterface, _dbusMethod) *)
  f_caller : bool                    (* getfullargspec(f).args[-1] == 'dbusCaller' *)
}.

Record class := mkClass {
  c_ifaces : option (list iface);    (* base.__dict__['dbusInterfaces'], if present *)
  c_attrs : list (str * func)        (* the functions of base.__dict__, in dict order *)
}.

Definition object := list class.     (* self.__class__.__mro__ without `object` *)
Definition exports := list (str * object).

(* getInterfaces(): for base in mro: if 'dbusInterfaces' in base.__dict__: yield from it *)
Definition interfaces (o : object) : list iface :=
  flat_map (fun c => match c_ifaces c with Some l => l | None => [] end) o.

Fixpoint attr_get (n : str) (l : list (str * func)) : option func :=
  match l with
  | [] => None
  | (k, f) :: r => if str_eqb k n then Some f else attr_get n r
  end.

(* getattr(self, n, None) for a function attribute: first class of the MRO that has it *)
Fixpoint resolve (o : object) (n : str) : option func :=
  match o with
  | [] => None
  | c :: r => match attr_get n (c_attrs c) with Some f => Some f | None => resolve r n end
  end.

(* _cacheInterfaces over base.__dict__.items(): cache[iface].methods[member] =
   getattr(cls, obj.__name__); a later item with the same key replaces an
   earlier one.  Only the function's __name__ (= its attribute name) is used
   afterwards, so the cache maps (iface, member) to that name. *)
Definition deco_is (iname member : str) (f : func) : bool :=
  match f_deco f with
  | Some (i, m) => str_eqb i iname && str_eqb m member
  | None => false
  end.

Fixpoint cache_name (iname member : str) (l : list (str * func)) : option str :=
  match l with
  | [] => None
  | (n, f) :: r =>
      match cache_name iname member r with
      | Some n' => Some n'                                  (* later entries win *)
      | None => if deco_is iname member f then Some n else None
      end
  end.

(* _searchCache(interfaceName, 'methods', member) with a non-empty interface
   name: first class of the MRO whose cache has the key *)
Fixpoint search_cache (o : object) (iname member : str) : option str :=
  match o with
  | [] => None
  | c :: r => match cache_name iname member (c_attrs c) with
              | Some n => Some n
              | None => search_cache r iname member
              end
  end.

(* The lookup runs over the whole MRO of the instance (self), not over the
   tail being searched: f = _searchCache(...); return getattr(self, f.__name__) *)
Definition get_decorated (o : object) (iname member : str) : option func :=
  match search_cache o iname member with
  | Some n => resolve o n
  | None => None
  end.

Definition dbus_prefix : str := [100; 98; 117; 115; 95].     (* "dbus_" *)

(* executeMethod up to the call: which function runs; None = NotImplementedError *)
Definition exec_lookup (o : object) (iname member : str) : option func :=
  match resolve o (dbus_prefix ++ member) with
  | None => get_decorated o iname member
  | Some f =>
      match f_deco f with
      | Some (i, _) => if str_eqb i iname then Some f else get_decorated o iname member
      | None => Some f
      end
  end.

(* --- calls, user behaviour, replies ---------------------------------------- *)

Record call := mkCall {
  c_path : str;
  c_iface : option str;        (* msg.interface *)
  c_member : str;
  c_sig : option str;          (* msg.signature *)
  c_args : list pyval;         (* msg.body, [] when None *)
  c_sender : option str;       (* msg.sender *)
  c_serial : Z;
  c_expect : bool              (* msg.expectReply *)
}.

Record invocation := mkInv {
  v_func : func;
  v_args : list pyval;             (* positional arguments *)
  v_caller : option (option str)   (* Some s: called with dbusCaller=s *)
}.

Record exn := mkExn {
  x_class : str;               (* e.__class__.__name__ *)
  x_dbus_name : option str;    (* e.dbusErrorName when present and not None *)
  x_text : bytes               (* str(e), UTF-8 *)
}.

Inductive outcome :=
| OValue (v : pyval)           (* returns v, or a Deferred that has already fired with v *)
| ORaise (e : exn)             (* raises e, or returns a Deferred that has already failed with e *)
| ODeferred.                   (* returns a Deferred that has not fired yet *)

Inductive later :=
| LValue (v : pyval)           (* d.callback(v) *)
| LFail (e : exn).             (* d.errback(e) *)

Inductive rkind :=
| KReturn                      (* MethodReturnMessage *)
| KError (name : str)          (* ErrorMessage(name, ...) *)
| KEncodeError.                (* ErrorMessage named after the exception the marshaller raised
                                  (org.txdbus.PythonException.<its class>); name and text not modelled *)

Inductive body :=
| BBytes (b : bytes)           (* rawBody: the values encoded under r_sig *)
| BText (t : bytes)            (* body [t] under signature 's' *)
| BOther.                      (* not modelled here: texts of dispatcher errors, XML, managed objects *)

Record reply := mkReply {
  r_kind : rkind;
  r_serial : Z;                (* reply_serial *)
  r_dest : option str;         (* destination *)
  r_sig : str;                 (* signature ('' when absent) *)
  r_body : body
}.

Definition s_sig : str := [115].    (* "s" *)

Definition dest_ok (d : option str) : bool :=
  match d with None => true | Some n => validate_bus n end.

(* message.ErrorMessage(name, serial, body=[text], signature='s', destination=sender):
   validateBusName(destination), validateInterfaceName(name), then _marshal *)
Definition mk_error (name : str) (c : call) (b : body) : res reply :=
  if negb (dest_ok (c_sender c)) then Err EMarshal
  else if negb (validate_iface name) then Err EMarshal
  else Ok (mkReply (KError name) (c_serial c) (c_sender c) s_sig b).

Definition encode_out (sig : str) (vals : pyval) : res bytes :=
  match sig with
  | [] => Ok []                                   (* if self.signature: *)
  | _ => match m_marshal (length sig + 4 * pv_size vals + 8) sig vals 0 true None with
         | Ok (_, b, _) => Ok b
         | Err e => Err e
         end
  end.

(* message.MethodReturnMessage(serial, body=vals, destination=sender, signature=sig) *)
Definition mk_return (c : call) (sig : str) (vals : pyval) : res reply :=
  if negb (dest_ok (c_sender c)) then Err EMarshal
  else match encode_out sig vals with
       | Ok b => Ok (mkReply KReturn (c_serial c) (c_sender c) sig (BBytes b))
       | Err e => Err e
       end.

(* the names and the one text the property mentions *)
Definition n_unknown_object : str :=
  [111;114;103;46;102;114;101;101;100;101;115;107;116;111;112;46;68;66;117;115;46;69;114;114;111;114;46;
   85;110;107;110;111;119;110;79;98;106;101;99;116].
Definition n_unknown_method : str :=
  [111;114;103;46;102;114;101;101;100;101;115;107;116;111;112;46;68;66;117;115;46;69;114;114;111;114;46;
   85;110;107;110;111;119;110;77;101;116;104;111;100].
Definition n_invalid_args : str :=
  [111;114;103;46;102;114;101;101;100;101;115;107;116;111;112;46;68;66;117;115;46;69;114;114;111;114;46;
   73;110;118;97;108;105;100;65;114;103;115].
Definition n_python_exception : str :=     (* "org.txdbus.PythonException." *)
  [111;114;103;46;116;120;100;98;117;115;46;80;121;116;104;111;110;69;120;99;101;112;116;105;111;110;46].
Definition n_invalid_error_name : str :=   (* "org.txdbus.InvalidErrorName" *)
  [111;114;103;46;116;120;100;98;117;115;46;73;110;118;97;108;105;100;69;114;114;111;114;78;97;109;101].
Definition n_not_implemented : str :=      (* "NotImplementedError" *)
  [78;111;116;73;109;112;108;101;109;101;110;116;101;100;69;114;114;111;114].
Definition t_invalid_pre : bytes :=        (* !!(Invalid error name, then a double quote *)
  [33;33;40;73;110;118;97;108;105;100;32;101;114;114;111;114;32;110;97;109;101;32;34].
Definition t_invalid_post : bytes := [34;41;33;33;32].    (* double quote, then )!! and a blank *)

Definition n_peer : str :=
  [111;114;103;46;102;114;101;101;100;101;115;107;116;111;112;46;68;66;117;115;46;80;101;101;114].
Definition n_ping : str := [80;105;110;103].
Definition n_introspectable : str :=
  [111;114;103;46;102;114;101;101;100;101;115;107;116;111;112;46;68;66;117;115;46;
   73;110;116;114;111;115;112;101;99;116;97;98;108;101].
Definition n_introspect : str := [73;110;116;114;111;115;112;101;99;116].
Definition n_object_manager : str :=
  [111;114;103;46;102;114;101;101;100;101;115;107;116;111;112;46;68;66;117;115;46;
   79;98;106;101;99;116;77;97;110;97;103;101;114].
Definition n_get_managed : str := [71;101;116;77;97;110;97;103;101;100;79;98;106;101;99;116;115].
Definition sig_managed : str :=            (* "a{oa{sa{sv}}}" *)
  [97;123;111;97;123;115;97;123;115;118;125;125;125].

(* _send_err: the text is built from the call's path / member / signature *)
Definition send_err (c : call) (name : str) : res reply := mk_error name c BOther.

(* the text handed to ErrorMessage by send_error.
   current (D30 repaired): every NUL of the text is written out as the two
   characters backslash, '0' (a DBus string cannot hold a NUL);
   legacy: the text as it is *)
Definition sanitize (t : bytes) : bytes :=
  flat_map (fun b => if b =? 0 then [92; 48] else [b]) t.

(* marshal_string on the text: MarshallingError on an embedded NUL *)
Definition text_ok (t : bytes) : bool := negb (existsb (N.eqb 0) t).

(* send_error(err): the reply, or the exception that escapes the errback
   (and is then dropped by the Deferred: nothing is sent) *)
Definition send_error (legacy_text : bool) (c : call) (e : exn) : res reply :=
  let name0 := match x_dbus_name e with
               | Some n => n
               | None => n_python_exception ++ x_class e
               end in
  let '(name, text) :=
    if validate_error name0 then (name0, x_text e)
    else (n_invalid_error_name, t_invalid_pre ++ name0 ++ t_invalid_post ++ x_text e) in
  let text' := if legacy_text then text else sanitize text in
  if negb (text_ok text') then Err EMarshal
  else mk_error name c (BText text').

(* send_reply(return_values) followed, when it raises, by send_error with
   that exception (d.addCallback(send_reply); d.addErrback(send_error)) *)
Definition wrap_result (nret : nat) (v : pyval) : pyval :=
  match v with
  | PList _ | PTuple _ => if Nat.eqb nret 1 then PList [v] else v
  | _ => PList [v]
  end.

Definition send_reply (c : call) (m : meth) (v : pyval) : list reply :=
  match mk_return c (m_out m) (wrap_result (m_nret m) v) with
  | Ok r => [r]
  | Err _ =>
      (* the exception of the constructor / marshaller goes to send_error;
         its class name is a valid error name element, its text is not modelled *)
      if negb (dest_ok (c_sender c)) then []
      else [mkReply KEncodeError (c_serial c) (c_sender c) s_sig BOther]
  end.

Definition send_failure (legacy_text : bool) (c : call) (e : exn) : list reply :=
  match send_error legacy_text c e with
  | Ok r => [r]
  | Err _ => []
  end.

(* --- the handler ------------------------------------------------------------ *)

Definition to_tree (ex : exports) : ObjTree.exports unit :=
  map (fun po => (fst po, ObjTree.mkObj 0 (fst po) [])) ex.

Definition opt_is (o : option str) (s : str) : bool :=
  match o with Some x => str_eqb x s | None => false end.

Definition truthy_str (o : option str) : option str :=     (* if msg.interface: *)
  match o with Some [] => None | x => x end.

(* for x in o.getInterfaces(): ... break *)
Fixpoint pick_iface (ci : option str) (member : str) (l : list iface) : option iface :=
  match l with
  | [] => None
  | x :: r =>
      match ci with
      | Some n => if str_eqb (i_name x) n then Some x else pick_iface ci member r
      | None => match find_meth member (i_methods x) with
                | Some _ => Some x
                | None => pick_iface ci member r
                end
      end
  end.

Definition sig_or_empty (s : option str) : str := match s with Some x => x | None => [] end.

(* what handleMethodCallMessage leaves behind when the method returned an
   unfired Deferred and a reply is expected: the two callbacks *)
Record pend := mkPend { p_call : call; p_meth : meth }.

Inductive hres :=
| HRaise (e : err)                                    (* an exception escapes handleMethodCallMessage *)
| HDone (replies : list reply) (invs : list invocation) (p : option pend).

Definition one (r : res reply) : hres :=
  match r with Ok x => HDone [x] [] None | Err e => HRaise e end.

Definition handle_with (legacy_text : bool) (ex : exports) (beh : invocation -> outcome) (c : call) : hres :=
  if opt_is (c_iface c) n_peer && str_eqb (c_member c) n_ping then
    one (mk_return c [] (PList []))          (* MethodReturnMessage(serial, destination=sender): no signature *)
  else
    match (if opt_is (c_iface c) n_introspectable && str_eqb (c_member c) n_introspect
           then ObjTree.introspect (c_path c) (to_tree ex) else None) with
    | Some _ =>
        if dest_ok (c_sender c)
        then HDone [mkReply KReturn (c_serial c) (c_sender c) s_sig BOther] [] None
        else HRaise EMarshal
    | None =>
        match alist_get str_eqb (c_path c) ex with
        | None => one (send_err c n_unknown_object)
        | Some o =>
            if opt_is (c_iface c) n_object_manager && str_eqb (c_member c) n_get_managed then
              if dest_ok (c_sender c)
              then HDone [mkReply KReturn (c_serial c) (c_sender c) sig_managed BOther] [] None
              else HRaise EMarshal
            else
              match (match pick_iface (truthy_str (c_iface c)) (c_member c) (interfaces o) with
                     | Some i => match find_meth (c_member c) (i_methods i) with
                                 | Some m => Some (i, m)
                                 | None => None
                                 end
                     | None => None
                     end) with
              | None => one (send_err c n_unknown_method)
              | Some (i, m) =>
                  if negb (str_eqb (m_in m) (sig_or_empty (c_sig c))) then one (send_err c n_invalid_args)
                  else
                    (* d = defer.maybeDeferred(o.executeMethod, i, member, body, sender) *)
                    match exec_lookup o (i_name i) (c_member c) with
                    | None =>
                        HDone (if c_expect c
                               then send_failure legacy_text c (mkExn n_not_implemented None [])
                               else []) [] None
                    | Some f =>
                        let inv := mkInv f (c_args c)
                                     (if f_caller f then Some (c_sender c) else None) in
                        match beh inv with
                        | OValue v => HDone (if c_expect c then send_reply c m v else []) [inv] None
                        | ORaise e => HDone (if c_expect c then send_failure legacy_text c e else []) [inv] None
                        | ODeferred => HDone [] [inv] (if c_expect c then Some (mkPend c m) else None)
                        end
                    end
              end
        end
    end.

(* the Deferred returned by the method fires later *)
Definition fire_with (legacy_text : bool) (p : pend) (l : later) : list reply :=
  match l with
  | LValue v => send_reply (p_call p) (p_meth p) v
  | LFail e => send_failure legacy_text (p_call p) e
  end.

Definition handle := handle_with false.
Definition fire := fire_with false.
Definition handle_legacy := handle_with true.      (* pinned commit (D30) *)
Definition fire_legacy := fire_with true.

(* everything sent for one call: at once, and when the Deferred (if any) fires with l *)
Definition all_replies (h : hres) (l : later) : list reply :=
  match h with
  | HRaise _ => []
  | HDone rs _ None => rs
  | HDone rs _ (Some p) => rs ++ fire p l
  end.

Definition invocations (h : hres) : list invocation :=
  match h with HRaise _ => [] | HDone _ invs _ => invs end.

(* A handler serving several calls one after the other.  handleMethodCallMessage
   neither changes self.exports nor keeps anything a later call can observe:
   what the library memoises between calls (_dbusIfaceCache on the class,
   _dbusCaller on the function) is a function of the class.  Each call comes
   with the behaviour of the user code at that moment. *)
Fixpoint handle_all (ex : exports) (cs : list (call * (invocation -> outcome))) : list hres :=
  match cs with
  | [] => []
  | (c, beh) :: r => handle ex beh c :: handle_all ex r
  end.
