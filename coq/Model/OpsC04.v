(* Harness entry points for C04 (Model/Framing.v, Spec/FramingSpec.v).

   auth  ::= (0 (("line" res) ...))      scripted by content  (astep_rules)
           | (1 (res ...))               scripted by position (astep_script)
   res   ::= 0 continue | 1 done | 2 fail | 3 crash

   (4 1 client maxl depth auth ("chunk" ...))
        -> (model legacy spec)           model: run, legacy: run_legacy depth,
                                         spec: sem on the concatenation
   (4 2 client maxl auth "stream" ((cut ...) ...))
        -> (spec ((count result) ...))   the model's [run] for every partition given
                                         by ascending cut positions, run-length encoded
   (4 3 client maxl auth ("chunk" ...))
        -> result                        run_raw: reads delivered even after Close

   "chunk"/"stream" may also be given in pieces: ("hex" "hex" ...)
   result ::= ((event ...) residual)
   event  ::= (0 "line") | (1) AuthOk | (2 "raw") Msg | (3) Close | (4) Crash | (5) Fuel
   residual ::= () closed | ("bytes") *)
From Tx Require Import Lib.Base Lib.Sexp Model.Framing Spec.FramingSpec.
Local Open Scope Z_scope.

Definition ares_of (s : sexp) : option ares :=
  match s with
  | SNum 0 => Some AContinue
  | SNum 1 => Some ADone
  | SNum 2 => Some AFail
  | SNum 3 => Some ACrash
  | _ => None
  end.

Definition rule_of (s : sexp) : option (bytes * ares) :=
  match s with
  | SList [SBytes l; r] => option_map (fun r' => (l, r')) (ares_of r)
  | _ => None
  end.

(* a byte string, possibly given in pieces: "hex" | ("hex" ...)  (the reader is
   slow on very long atoms) *)
Definition as_big (s : sexp) : option bytes :=
  match s with
  | SBytes b => Some b
  | SList l => option_map (@concat N) (map_opt as_bytes l)
  | SNum _ => None
  end.

Definition sevent (e : event) : sexp :=
  match e with
  | Line l => SList [SNum 0; SBytes l]
  | AuthOk => SList [SNum 1]
  | Msg raw => SList [SNum 2; SBytes raw]
  | Close => SList [SNum 3]
  | Crash => SList [SNum 4]
  | Fuel => SList [SNum 5]
  end.

Definition sresult (r : list event * option bytes) : sexp :=
  SList [SList (map sevent (fst r)); sopt SBytes (snd r)].

Definition event_eqb (a b : event) : bool :=
  match a, b with
  | Line x, Line y => str_eqb x y
  | AuthOk, AuthOk => true
  | Msg x, Msg y => str_eqb x y
  | Close, Close => true
  | Crash, Crash => true
  | Fuel, Fuel => true
  | _, _ => false
  end.

Definition result_eqb (a b : list event * option bytes) : bool :=
  list_eqb event_eqb (fst a) (fst b) &&
  match snd a, snd b with
  | None, None => true
  | Some x, Some y => str_eqb x y
  | _, _ => false
  end.

(* ascending cut positions -> chunks *)
Fixpoint cut_at (s : bytes) (pos : nat) (cuts : list nat) : list bytes :=
  match cuts with
  | [] => [s]
  | c :: cs => firstn (c - pos) s :: cut_at (skipn (c - pos) s) c cs
  end.

(* run-length encoding of consecutive equal results *)
Fixpoint rle (cur : list event * option bytes) (n : nat) (l : list (list event * option bytes)) : list sexp :=
  match l with
  | [] => [SList [snat n; sresult cur]]
  | x :: r => if result_eqb cur x then rle cur (S n) r
              else SList [snat n; sresult cur] :: rle x 1 r
  end.

Section WithAuth.
  Context {A : Type} (astep : A -> bytes -> A * ares) (a0 : A).

  Definition op_run (client : bool) (maxl : N) (depth : nat) (chunks : list bytes) : sexp :=
    SList [ sresult (run astep maxl client a0 chunks);
            sresult (run_legacy astep maxl depth client a0 chunks);
            sresult (sem astep maxl client a0 (concat chunks)) ].

  Definition op_cuts (client : bool) (maxl : N) (stream : bytes) (cutss : list (list nat)) : sexp :=
    let results := map (fun cuts => run astep maxl client a0 (cut_at stream 0 cuts)) cutss in
    SList [ sresult (sem astep maxl client a0 stream);
            SList (match results with [] => [] | x :: r => rle x 1 r end) ].

  Definition op_raw (client : bool) (maxl : N) (chunks : list bytes) : sexp :=
    let '(s, evs) := run_raw astep maxl (init client a0) chunks in
    sresult (evs, residual s).
End WithAuth.

Definition with_auth (auth : sexp)
  (k : forall A : Type, (A -> bytes -> A * ares) -> A -> sexp) : sexp :=
  match auth with
  | SList [SNum 0; SList rules] =>
      match map_opt rule_of rules with
      | Some rs => k unit (astep_rules rs) tt
      | None => bad
      end
  | SList [SNum 1; SList script] =>
      match map_opt ares_of script with
      | Some sc => k (list ares) astep_script sc
      | None => bad
      end
  | _ => bad
  end.

Definition op (args : list sexp) : sexp :=
  match args with
  | [SNum 1; client; SNum maxl; SNum depth; auth; SList chunks] =>
      match as_bool client, map_opt as_big chunks with
      | Some c, Some chs =>
          with_auth auth (fun A astep a0 => op_run astep a0 c (Z.to_N maxl) (Z.to_nat depth) chs)
      | _, _ => bad
      end
  | [SNum 2; client; SNum maxl; auth; stream; SList cutss] =>
      match as_bool client, as_big stream,
            map_opt (fun s => match s with SList l => map_opt as_nat l | _ => None end) cutss with
      | Some c, Some stream, Some cs =>
          with_auth auth (fun A astep a0 => op_cuts astep a0 c (Z.to_N maxl) stream cs)
      | _, _, _ => bad
      end
  | [SNum 3; client; SNum maxl; auth; SList chunks] =>
      match as_bool client, map_opt as_big chunks with
      | Some c, Some chs =>
          with_auth auth (fun A astep a0 => op_raw astep a0 c (Z.to_N maxl) chs)
      | _, _ => bad
      end
  | _ => bad
  end.
