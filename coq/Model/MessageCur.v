(* One model of the CURRENT txdbus/message.py: DBusMessage._marshal(newSerial,
   oobFDs, rawBody) and parseMessage(rawMessage, oobFDs) with every repair made
   to them:

     D04  parseMessage reads the no-reply / no-auto-start flag bits
     D27  constructors validate an empty interface / destination (Message.validate_args false)
     D35  parseMessage raises MarshallingError unless a truthy SIGNATURE field is a
          str of at most 255 characters
     D53  the other flag bits are kept by parseMessage (_otherFlags) and written
          again by _marshal
     D60  the body decoder is given oobFDs[:getattr(m, 'unix_fds', 0)]
     D25  _marshal(..., rawBody): an already encoded body is used as is;
          reply_serial is wrapped in marshal.UInt32 like unix_fds; the header is
          written in the byte order self.endian says (the bus sets msg.endian to
          byte 0 of the message it re-marshals)

   Model/Message.v (marshal_msg, parse_message) is the code as it was before
   D35, D53, D60 and D25; Model/FdFraming.v, Model/MarshalCost.v and
   Model/BusRoute.v each describe the part of the current code their property
   needs.  Proofs/MessageCurProofs.v proves that all of them agree with this file
   where they overlap.  Definitions only. *)
From Tx Require Import Lib.Base Model.PyVal Model.Validators Model.Marshal Model.Message.
Local Open Scope N_scope.

(* ---------------------------------------------------------------------------
   DBusMessage._marshal                                                         *)

(* marshal.UInt32(hval): int.__new__ - an int, a bool or an instance of one of
   the integer wrapper classes gives the UInt32 of the same value; a str or a
   float is converted by int() (not modelled); anything else raises TypeError *)
Definition to_uint32 (v : pyval) : res pyval :=
  match v with
  | PInt z => Ok (PWrap 117 (PInt z))
  | PBool b => Ok (PWrap 117 (PInt (if b then 1 else 0)))
  | PWrap c (PInt z) => if wrap_is_str c then Err EUnmodelled else Ok (PWrap 117 (PInt z))
  | PFloat _ | PStr _ | PBytes _ | PWrap _ _ => Err EUnmodelled
  | PList _ | PTuple _ | PDict _ | PObj _ | PNone => Err EType
  end.

(* marshal.ObjectPath(hval) / marshal.Signature(hval): str.__new__ - a str (or
   an instance of a str subclass) gives the wrapper of the same text; any other
   object is converted with str() (its repr; not modelled) *)
Definition to_str_wrapper (code : N) (v : pyval) : res pyval :=
  match str_of v with
  | Some s => Ok (PWrap code (PStr s))
  | None => Err EUnmodelled
  end.

(* the value appended to self.headers for an attribute:
     path -> ObjectPath(hval), signature -> Signature(hval),
     unix_fds / reply_serial -> UInt32(hval) *)
Definition header_value_cur (a : attr) (v : pyval) : res pyval :=
  match a with
  | APath => to_str_wrapper 111 v
  | ASignature => to_str_wrapper 103 v
  | AUnixFds | AReplySerial => to_uint32 v
  | _ => Ok v
  end.

(* flags = self._otherFlags; |= 0x1 if not expectReply; |= 0x2 if not autoStart *)
Definition flags_cur (other_flags : Z) (expect_reply auto_start : bool) : Z :=
  Z.lor (Z.lor other_flags (if expect_reply then 0 else 1)) (if auto_start then 0 else 2).

(* the body: rawBody if given; else marshal(self.signature, self.body, oobFDs=oobFDs)
   (always little-endian) if self.signature; else b''.  Also says whether the
   unix_fds header is added ("if oobFDs:" inside the elif branch). *)
Definition marshal_body_cur (fuel : nat) (attrs : list (attr * pyval)) (body : pyval) (fds : fdst)
           (raw_body : option bytes) : res (bytes * fdst * bool) :=
  match raw_body with
  | Some rb => Ok (rb, fds, false)
  | None =>
      if sig_truthy (get_attr ASignature attrs) then
        match get_attr ASignature attrs with
        | Some sv =>
            match str_of sv with
            | Some sig =>
                do r <- m_marshal fuel sig body 0 true fds;
                let '(_, b, fds') := r in
                Ok (b, fds', match fds' with Some (_ :: _) => true | _ => false end)
            | None => Err EType
            end
        | None => Ok ([], fds, false)
        end
      else Ok ([], fds, false)
  end.

Fixpoint header_items_cur (attrs : list (attr * pyval)) (order : list attr) : res (list pyval) :=
  match order with
  | [] => Ok []
  | a :: r =>
      match get_attr a attrs with
      | Some PNone | None => header_items_cur attrs r
      | Some v =>
          do hv <- header_value_cur a v;
          do rest <- header_items_cur attrs r;
          Ok (PList [PInt (Z.of_N (attr_code a)); hv] :: rest)
      end
  end.

(* self.headers *)
Definition header_list_cur (mtype : N) (attrs : list (attr * pyval)) (fds' : fdst) (with_fds : bool)
  : res (list pyval) :=
  let attrs' := if with_fds
                then attrs ++ [(AUnixFds, PInt (Z.of_nat (match fds' with Some l => length l | None => 0%nat end)))]
                else attrs in
  let order := if with_fds then hattrs mtype ++ [AUnixFds] else hattrs mtype in
  header_items_cur attrs' order.

(* the header in the byte order of self.endian, padding, size limit *)
Definition marshal_header_cur (fuel : nat) (mtype : N) (endian : Z) (flags : Z) (headers : list pyval)
           (bin_body : bytes) (serial : Z) (fds' : fdst) : res (bytes * bytes * bytes * fdst) :=
  do hr <- m_marshal fuel header_format
             (PList [PInt endian; PInt (Z.of_N mtype); PInt flags; PInt 1;
                     PInt (Z.of_N (len bin_body)); PInt serial; PList headers]) 0 (endian =? 108)%Z None;
  let '(_, bin_header, _) := hr in
  let hp := zeros (pad_len 8 (len bin_header)) in
  if max_msg_len <? len bin_header + len hp + len bin_body then Err EMarshal
  else Ok (bin_header, hp, bin_body, fds').

(* _marshal with the serial to write given ([serial] is DBusMessage._nextSerial
   when newSerial, self.serial otherwise) *)
Definition marshal_msg_cur (fuel : nat) (mtype : N) (endian : Z) (other_flags : Z)
           (expect_reply auto_start : bool) (attrs : list (attr * pyval)) (body : pyval)
           (serial : Z) (fds : fdst) (raw_body : option bytes)
  : res (bytes * bytes * bytes * fdst) :=       (* (rawHeader, rawPadding, rawBody, oobFDs) *)
  do br <- marshal_body_cur fuel attrs body fds raw_body;
  let '(bin_body, fds', with_fds) := br in
  do headers <- header_list_cur mtype attrs fds' with_fds;
  marshal_header_cur fuel mtype endian (flags_cur other_flags expect_reply auto_start) headers bin_body serial fds'.

(* _marshal(newSerial, oobFDs, rawBody) with the counter DBusMessage._nextSerial:
   the serial is allocated after the body and the header list were built *)
Definition marshal_msg_cur_st (fuel : nat) (mtype : N) (endian : Z) (other_flags : Z)
           (expect_reply auto_start : bool) (attrs : list (attr * pyval)) (body : pyval)
           (new_serial : bool) (self_serial : Z) (next : Z) (fds : fdst) (raw_body : option bytes)
  : res (bytes * bytes * bytes * fdst) * Z :=
  match marshal_body_cur fuel attrs body fds raw_body with
  | Err e => (Err e, next)
  | Ok (bin_body, fds', with_fds) =>
      match header_list_cur mtype attrs fds' with_fds with
      | Err e => (Err e, next)
      | Ok headers =>
          let serial := if new_serial then next else self_serial in
          (marshal_header_cur fuel mtype endian (flags_cur other_flags expect_reply auto_start)
                              headers bin_body serial fds',
           if new_serial then (next + 1)%Z else next)
      end
  end.

(* the four constructors of the current code: validation (D27 repaired), then
   _marshal() with the class defaults endian = 'l', _otherFlags = 0 *)
Definition construct_cur_st (fuel : nat) (mtype : N) (expect_reply auto_start : bool)
           (attrs : list (attr * pyval)) (body : pyval) (next : Z) (fds : fdst)
  : res (bytes * bytes * bytes * fdst) * Z :=
  match validate_args false mtype attrs with
  | Err e => (Err e, next)
  | Ok _ => marshal_msg_cur_st fuel mtype 108 0 expect_reply auto_start attrs body true 0 next fds None
  end.

(* ---------------------------------------------------------------------------
   parseMessage                                                                  *)

(* what parseMessage returns, as far as any caller reads it: the message
   (Message.parsed), m._otherFlags and m.rawBody *)
Definition parsed_cur := (parsed * Z * bytes)%type.

(* len(s) of a Python str carried as its UTF-8 encoding: the bytes that are not
   continuation bytes *)
Definition str_len (s : bytes) : nat := length (filter (fun x => negb (cont x)) s).

(* "if m.signature:" and the D35 check
     if not isinstance(m.signature, str) or len(m.signature) > 255: raise MarshallingError
   -> the signature to decode the body with.  A PStr is the UTF-8 encoding of a
   str (at most 4 bytes per character), so the byte bound 1020 is implied by
   the character bound for every str the decoder can produce; it is spelled out
   so that the bound on bytes is available without that invariant. *)
Definition sig_check (attrs : list (attr * pyval)) : res (option str) :=
  match get_attr ASignature attrs with
  | Some sv =>
      if truthy sv then
        match sv with
        | PStr sig => if ((255 <? str_len sig) || (1020 <? length sig))%nat then Err EMarshal else Ok (Some sig)
        | _ => Err EMarshal
        end
      else Ok None
  | None => Ok None
  end.

(* a value used as the bound of a slice: None, an int, a bool; anything else
   raises TypeError *)
Definition slice_bound (v : pyval) : res (option Z) :=
  match v with
  | PNone => Ok None
  | PInt z => Ok (Some z)
  | PBool b => Ok (Some (if b then 1 else 0)%Z)
  | PWrap _ (PInt z) => Ok (Some z)
  | _ => Err EType
  end.

(* l[:z]: a negative bound counts from the end, out-of-range bounds are clipped *)
Definition take_upto (l : list pyval) (b : option Z) : list pyval :=
  match b with
  | None => l
  | Some z =>
      let n := Z.of_nat (length l) in
      firstn (Z.to_nat (Z.max 0 (Z.min n (if (z <? 0)%Z then n + z else z)%Z))) l
  end.

(* D60: if oobFDs is not None: oobFDs = oobFDs[:getattr(m, 'unix_fds', 0)] *)
Definition own_fds (attrs : list (attr * pyval)) (fds : fdst) : res fdst :=
  match fds with
  | None => Ok None
  | Some l =>
      match get_attr AUnixFds attrs with
      | None => Ok (Some [])
      | Some v => do b <- slice_bound v; Ok (Some (take_upto l b))
      end
  end.

(* rawMessage[nheader + npad:] *)
Definition raw_body_of (nheader : N) (raw : bytes) : bytes :=
  skipn (N.to_nat (N.min (nheader + pad_len 8 nheader) (len raw))) raw.

(* parseMessage; the two unmarshal calls get fuel [fh] and [fb sig body] *)
Definition parse_cur_gen (fh : nat) (fb : str -> bytes -> nat) (raw : bytes) (fds : fdst) : res parsed_cur :=
  match raw with
  | [] => Err EIndex                                                    (* rawMessage[0] *)
  | b0 :: _ =>
      let le := b0 =? 108 in
      do r <- m_unmarshal fh header_format raw 0 le fds;
      let '(nheader, hval) := r in
      match hval with
      | [_; PInt mt; PInt flags; _; _; PInt serial; PList fields] =>
          if negb ((1 <=? mt) && (mt <=? 4))%Z then Err EMarshal       (* messageType not in _mtype *)
          else
            let raw_body := raw_body_of nheader raw in
            let er := Z.even flags in                                   (* not (hval[2] & 0x1) *)
            let au := Z.even (flags / 2) in                             (* not (hval[2] & 0x2) *)
            let other := Z.land flags (Z.lnot 3) in                     (* hval[2] & ~0x3 *)
            do attrs <- set_fields fields [];
            do os <- sig_check attrs;
            match os with
            | None => Ok ((Z.to_N mt, serial, er, au, attrs, None), other, raw_body)
            | Some sig =>
                do bf <- own_fds attrs fds;
                do rb <- m_unmarshal (fb sig raw_body) sig raw_body 0 le bf;
                let '(_, body) := rb in
                Ok ((Z.to_N mt, serial, er, au, attrs, Some body), other, raw_body)
            end
      | _ => Err EOther
      end
  end.

(* with one fuel for both calls, like Message.parse_message *)
Definition parse_message_cur (fuel : nat) (raw : bytes) (fds : fdst) : res parsed_cur :=
  parse_cur_gen fuel (fun _ _ => fuel) raw fds.

(* ---------------------------------------------------------------------------
   bus.py BusProtocol.rawDBusMessageReceived, the forwarding step:
     msg = parseMessage(raw_msg, oobFDs); msg.sender = uniqueName;
     msg.endian = raw_msg[0]; msg._marshal(False, rawBody=msg.rawBody)           *)
Definition set_sender (u : str) (attrs : list (attr * pyval)) : list (attr * pyval) :=
  attrs ++ [(ASender, PStr u)].                     (* setattr: get_attr reads the last entry *)

Definition remarshal_cur (fuel : nat) (raw : bytes) (u : str) (m : parsed_cur)
  : res (bytes * bytes * bytes * fdst) :=
  let '((mt, serial, er, au, attrs, _), other, raw_body) := m in
  marshal_msg_cur fuel mt (Z.of_N (hd 0 raw)) other er au (set_sender u attrs) PNone serial None (Some raw_body).
