(* Harness entry point for C13:
     (13 (<op> ...))
   op ::= (0)                      a new connection says Hello
        | (1 <c> "name" <flags>)   RequestName from connection number c
        | (2 <c> "name")           ReleaseName
        | (3 <c> "name")           GetNameOwner
        | (4 <c> "name")           ListQueuedOwners
        | (5 <c>)                  connection c is lost
   Answer: ((<out> ...) (<out> ...) (<out> ...) <table>)    model, pre-repair model, specification,
                                                             the specification's final table
   table  ::= ((<live client> ...) (("name" ((<client> <allows 0|1>) ...)) ...))
   out    ::= (<reply> (<signal> ...))
   reply  ::= (0) | (1 "unique") | (2 <code>) | (3 <err 1|2|3>) | (4 "unique") | (5 ("unique" ...))
   signal ::= (1 <to> "name") NameAcquired | (2 <to> "name") NameLost | (3 "name" "old" "new") NameOwnerChanged *)
From Tx Require Import Lib.Base Lib.Sexp Model.BusNames Spec.NameSpec.
Local Open Scope Z_scope.

Definition op_of (s : sexp) : option op :=
  match s with
  | SList [SNum 0] => Some Connect
  | SList [SNum 1; SNum c; n; SNum f] => option_map (fun n => Request (Z.to_N c) n (Z.to_N f)) (as_str n)
  | SList [SNum 2; SNum c; n] => option_map (Release (Z.to_N c)) (as_str n)
  | SList [SNum 3; SNum c; n] => option_map (GetOwner (Z.to_N c)) (as_str n)
  | SList [SNum 4; SNum c; n] => option_map (ListQueued (Z.to_N c)) (as_str n)
  | SList [SNum 5; SNum c] => Some (Disconnect (Z.to_N c))
  | _ => None
  end.

Definition serr (e : errname) : sexp :=
  SNum (match e with InvalidArgs => 1 | NameHasNoOwner => 2 | PyException => 3 end).

Definition sreply (r : reply) : sexp :=
  match r with
  | RNone => SList [SNum 0]
  | RHello u => SList [SNum 1; sstr u]
  | RCode k => SList [SNum 2; sN k]
  | RError e => SList [SNum 3; serr e]
  | ROwner u => SList [SNum 4; sstr u]
  | RQueue l => SList [SNum 5; SList (map sstr l)]
  end.

Definition ssignal (s : signal) : sexp :=
  match s with
  | NameAcquired to n => SList [SNum 1; sN to; sstr n]
  | NameLost to n => SList [SNum 2; sN to; sstr n]
  | NameOwnerChanged n old new => SList [SNum 3; sstr n; sstr old; sstr new]
  end.

Definition sout (o : out) : sexp := SList [sreply (o_reply o); SList (map ssignal (o_signals o))].

Definition stable (t : table) : sexp :=
  SList [ SList (map sN (t_live t));
          SList (map (fun p => SList [sstr (fst p);
                                      SList (map (fun e => SList [sN (fst e); sbool (snd e)]) (snd p))])
                     (t_queues t)) ].

Definition op (args : list sexp) : sexp :=
  match args with
  | [SList ops] =>
      match map_opt op_of ops with
      | None => bad
      | Some h =>
          let sr := spec_run h in
          SList [ SList (map sout (snd (run h)));
                  SList (map sout (snd (run_legacy h)));
                  SList (map sout (snd sr));
                  stable (fst sr) ]
      end
  | _ => bad
  end.
