(* Faithful model of how a txdbus client connection comes up and goes down:
     txdbus/client.py    connect() (endpoint list walk, final ConnectError),
                         DBusClientFactory (_ok/_failed on its Deferred),
                         DBusClientConnection.connectionAuthenticated -> Hello -> _cbGotHello,
                         connectionLost, notifyOnDisconnect / cancelNotifyOnDisconnect
     txdbus/objects.py   DBusObjectHandler.getRemoteObject (proxy registry), .connectionLost,
                         RemoteDBusObject.notifyOnDisconnect / cancelNotifyOnDisconnect / connectionLost
     txdbus/endpoints.py getDBusEndpoints, as far as which entries of the address list yield an endpoint.
   The pending-call table (callRemote, replies, timers, the loop over _pendingCalls in connectionLost)
   is Model/Calls.v, embedded here unchanged: Hello is simply the first call (Deferred number 0) of the
   connection, an introspecting getRemoteObject is a call whose Deferred has one more callback.
   Definitions only.

   What enters from outside (universally quantified in the theorems):
   - whether each endpoint.connect(factory) succeeds (events EEpOk / EEpFail);
   - the verdict of the authentication exchange (EAuthOk: the authenticator reports success and
     BEGIN is sent; EAuthRefused: DBusAuthenticationFailed is raised, the protocol calls
     transport.loseConnection()); the exchange itself is C07;
   - messages from the bus, timer expiry, transport loss (the events of Model/Calls.v);
   - for an introspecting getRemoteObject, whether the XML that will come back parses and contains the
     required interfaces ([parses], fixed when the request is made; the XML parser is C15);
   - Twisted: a transport delivers connectionLost once and no data afterwards; a protocol that is not
     connected receives nothing.  [st_open] records whether the transport is connected.
   - the user can only act on the connection once the Deferred of connect() has handed it over.

   step_gen takes two flags selecting the behaviour before the repairs
     legacy12: connectionLost returns early while busName is None                     (D12)
     legacy13: only introspected proxies are registered, in a dictionary keyed by
               (bus name, path, interfaces), so a later one with the same key evicts   (D13)
   step = step_gen false false is the current tree (with the D12 and D13 repairs of fixes/). *)
From Tx Require Import Lib.Base Model.Calls.
Local Open Scope N_scope.

(* ------------------------------------------------------------------------ *)
(* getDBusEndpoints: one endpoint per entry of a supported transport          *)

Inductive akind :=
| AUnix                     (* unix:path= / abstract= / tmpdir= *)
| ATcp                      (* tcp:host=,port= *)
| ANonceTcp                 (* nonce-tcp:host=,port=,noncefile= : same endpoint class as tcp *)
| AOther.                   (* launchd:, unknown transports, empty entries: skipped *)

Definition makes_endpoint (a : akind) : bool :=
  match a with AOther => false | _ => true end.

Definition endpoint_count (addr : list akind) : nat := length (filter makes_endpoint addr).

(* ------------------------------------------------------------------------ *)
(* Vocabulary shared with Spec/ConnectSpec.v                                  *)

Inductive owner :=
| OConn                     (* DBusClientConnection.notifyOnDisconnect *)
| OProxy (q : nat).         (* RemoteDBusObject.notifyOnDisconnect on the proxy of request q *)

Inductive pkind :=
| PkExplicit                (* interfaces given as DBusInterface instances / known names: no introspection *)
| PkIntro (parses : bool).  (* interfaces=None or unknown names: Introspect is called *)

Inductive event :=
| EEpFail                   (* the outstanding endpoint.connect(factory) errbacks *)
| EEpOk                     (* ... succeeds: buildProtocol, makeConnection, connectionMade *)
| EAuthOk
| EAuthRefused
| ECalls (e : Calls.event)  (* ECall: the user calls callRemote; EReturn/EError: from the bus;
                               ETimer: the reactor; ELost: the transport reports connectionLost *)
| EGetObject (k : pkind) (key : N)     (* getRemoteObject; key stands for (busName, objectPath, interfaces) *)
| EReg (o : owner) (cb : N)            (* notifyOnDisconnect(cb) *)
| ECancel (o : owner) (cb : N).        (* cancelNotifyOnDisconnect(cb) *)

Inductive cause :=
| CNoAddress                (* ConnectError: no endpoint could be connected *)
| CLost (reason : N)        (* the transport closed; the loss reason is passed on *)
| CHello.                   (* the Hello call failed (error reply, or it could not be sent) *)

(* what the Deferred returned by connect() was fired with *)
Inductive cres :=
| CReady                    (* callback(connection) *)
| CFailed (c : cause).      (* errback *)

Inductive phase :=
| Trying (rest : nat)       (* an endpoint.connect(f) is outstanding; rest = len(eplist) *)
| Authenticating (closing : bool)   (* connected; closing: loseConnection() was called *)
| HelloPending              (* _authenticated; Hello sent, its Deferred has not fired *)
| Ready                     (* _cbGotHello ran: factory._ok(self) *)
| HelloFailed               (* the Hello errback ran: factory._failed(err); the transport stays open *)
| Dead.                     (* no transport: every endpoint failed, or connectionLost ran *)

(* a RemoteDBusObject the user holds *)
Record pobj := PObj {
  po_req : nat;             (* the getRemoteObject request that produced it *)
  po_key : N;
  po_reg : bool;            (* reachable from DBusObjectHandler._weakProxies *)
  po_cbs : list N           (* _disconnectCBs (None and [] behave alike) *)
}.

Record state := State {
  st_phase : phase;
  st_open : bool;                        (* the protocol has a connected transport *)
  st_bus : bool;                         (* busName is not None *)
  st_calls : Calls.state;                (* _pendingCalls, reactor timers, Deferreds of callRemote *)
  st_fired : list cres;                  (* results delivered to the Deferred of connect() *)
  st_dcbs : list N;                      (* _dcCallbacks *)
  st_objs : list pobj;                   (* proxies handed to the user, in order of creation *)
  st_nreq : nat;                         (* getRemoteObject requests so far *)
  st_intro : list (nat * (nat * N * bool));   (* Deferred number of an Introspect call -> (request, key, parses) *)
  st_objdone : list (nat * bool);        (* getRemoteObject Deferreds fired: (request, with a proxy?) *)
  st_ran : list (owner * N * N);         (* disconnect callbacks run: (owner, callback, reason) *)
  st_raised : nat                        (* ValueError raised to the user by cancelNotifyOnDisconnect *)
}.

Definition set_phase (st : state) (p : phase) : state :=
  State p (st_open st) (st_bus st) (st_calls st) (st_fired st) (st_dcbs st) (st_objs st) (st_nreq st)
        (st_intro st) (st_objdone st) (st_ran st) (st_raised st).
Definition set_open (st : state) (b : bool) : state :=
  State (st_phase st) b (st_bus st) (st_calls st) (st_fired st) (st_dcbs st) (st_objs st) (st_nreq st)
        (st_intro st) (st_objdone st) (st_ran st) (st_raised st).
Definition set_bus (st : state) (b : bool) : state :=
  State (st_phase st) (st_open st) b (st_calls st) (st_fired st) (st_dcbs st) (st_objs st) (st_nreq st)
        (st_intro st) (st_objdone st) (st_ran st) (st_raised st).
Definition set_calls (st : state) (c : Calls.state) : state :=
  State (st_phase st) (st_open st) (st_bus st) c (st_fired st) (st_dcbs st) (st_objs st) (st_nreq st)
        (st_intro st) (st_objdone st) (st_ran st) (st_raised st).
Definition set_fired (st : state) (l : list cres) : state :=
  State (st_phase st) (st_open st) (st_bus st) (st_calls st) l (st_dcbs st) (st_objs st) (st_nreq st)
        (st_intro st) (st_objdone st) (st_ran st) (st_raised st).
Definition set_dcbs (st : state) (l : list N) : state :=
  State (st_phase st) (st_open st) (st_bus st) (st_calls st) (st_fired st) l (st_objs st) (st_nreq st)
        (st_intro st) (st_objdone st) (st_ran st) (st_raised st).
Definition set_objs (st : state) (l : list pobj) : state :=
  State (st_phase st) (st_open st) (st_bus st) (st_calls st) (st_fired st) (st_dcbs st) l (st_nreq st)
        (st_intro st) (st_objdone st) (st_ran st) (st_raised st).
Definition set_nreq (st : state) (n : nat) : state :=
  State (st_phase st) (st_open st) (st_bus st) (st_calls st) (st_fired st) (st_dcbs st) (st_objs st) n
        (st_intro st) (st_objdone st) (st_ran st) (st_raised st).
Definition set_intro (st : state) (l : list (nat * (nat * N * bool))) : state :=
  State (st_phase st) (st_open st) (st_bus st) (st_calls st) (st_fired st) (st_dcbs st) (st_objs st) (st_nreq st)
        l (st_objdone st) (st_ran st) (st_raised st).
Definition set_objdone (st : state) (l : list (nat * bool)) : state :=
  State (st_phase st) (st_open st) (st_bus st) (st_calls st) (st_fired st) (st_dcbs st) (st_objs st) (st_nreq st)
        (st_intro st) l (st_ran st) (st_raised st).
Definition set_ran (st : state) (l : list (owner * N * N)) : state :=
  State (st_phase st) (st_open st) (st_bus st) (st_calls st) (st_fired st) (st_dcbs st) (st_objs st) (st_nreq st)
        (st_intro st) (st_objdone st) l (st_raised st).
Definition set_raised (st : state) (n : nat) : state :=
  State (st_phase st) (st_open st) (st_bus st) (st_calls st) (st_fired st) (st_dcbs st) (st_objs st) (st_nreq st)
        (st_intro st) (st_objdone st) (st_ran st) n.

(* connect(): f = DBusClientFactory(); eplist = getDBusEndpoints(...); try_next_ep / immediate errback *)
Definition init (addr : list akind) (serial0 : N) : state :=
  match endpoint_count addr with
  | O => State Dead false false (Calls.init serial0) [CFailed CNoAddress] [] [] 0 [] [] [] 0
  | S k => State (Trying k) false false (Calls.init serial0) [] [] [] 0 [] [] [] 0
  end.

(* DBusClientFactory._ok / _failed: self.d.callback / self.d.errback *)
Definition fire (st : state) (r : cres) : state := set_fired st (st_fired st ++ [r]).

(* the user holds the connection: the Deferred of connect() called back with it *)
Definition handle (st : state) : bool :=
  match st_fired st with CReady :: _ => true | _ => false end.

Definition authed (p : phase) : bool :=
  match p with HelloPending | Ready | HelloFailed => true | _ => false end.

(* ------------------------------------------------------------------------ *)
(* callbacks attached by the library to the Deferreds callRemote returns      *)

(* d.addCallbacks(self._cbGotHello, lambda err: self.factory._failed(err)) on the Hello Deferred.
   A Deferred runs its callbacks once: nothing happens unless Hello is still pending. *)
Definition hello_done (st : state) (o : outcome) : state :=
  match st_phase st with
  | HelloPending =>
      match o with
      | OValue v =>       (* self.busName = busName; self.factory._ok(self) *)
          fire (set_bus (set_phase st Ready) (match v with Some _ => true | None => false end)) CReady
      | OLost r => fire (set_phase st HelloFailed) (CFailed (CLost r))
      | _ => fire (set_phase st HelloFailed) (CFailed CHello)
      end
  | _ => st
  end.

(* legacy: self._weakProxies[weak_id] = prox replaces the entry of an earlier proxy with the same key *)
Definition evict (key : N) (l : list pobj) : list pobj :=
  map (fun p => if po_key p =? key then PObj (po_req p) (po_key p) false (po_cbs p) else p) l.

(* introspectRemoteObject's ok/err and getRemoteObject's ok on the Deferred of the Introspect call *)
Definition intro_done (legacy13 : bool) (st : state) (rq : nat * N * bool) (o : outcome) : state :=
  let '(q, key, parses) := rq in
  match o with
  | OValue (Some (VStr _)) =>
      if parses then
        let objs := if legacy13 then evict key (st_objs st) else st_objs st in
        set_objdone (set_objs st (objs ++ [PObj q key true []])) (st_objdone st ++ [(q, true)])
      else set_objdone st (st_objdone st ++ [(q, false)])      (* IntrospectionFailed *)
  | _ => set_objdone st (st_objdone st ++ [(q, false)])
  end.

Definition on_completion (legacy13 : bool) (st : state) (x : nat * outcome) : state :=
  match fst x with
  | O => hello_done st (snd x)
  | S _ =>
      match alist_get Nat.eqb (fst x) (st_intro st) with
      | Some rq => intro_done legacy13 st rq (snd x)
      | None => st                  (* a Deferred handed to the user *)
      end
  end.

(* the call table moves from [st_calls st] to [c]; the completions it delivered meanwhile run the
   library's callbacks, in order *)
Definition deliver (legacy13 : bool) (st : state) (c : Calls.state) : state :=
  fold_left (on_completion legacy13)
            (skipn (length (st_done (st_calls st))) (st_done c))
            (set_calls st c).

Definition calls_step (legacy13 : bool) (st : state) (e : Calls.event) : state :=
  deliver legacy13 st (Calls.step (st_calls st) e).

(* connectionAuthenticated: fresh tables, then callRemote('/Hello', 'Hello', ...) *)
Definition connection_authenticated (legacy13 : bool) (st : state) : state :=
  calls_step legacy13 (set_phase st HelloPending) (ECall CkNormal None RsNoCheck).

(* ------------------------------------------------------------------------ *)
(* connectionLost(reason)                                                     *)

Definition runs (o : owner) (cbs : list N) (r : N) : list (owner * N * N) :=
  map (fun cb => (o, cb, r)) cbs.

(* DBusObjectHandler.connectionLost: every proxy still in _weakProxies *)
Definition proxy_runs (objs : list pobj) (r : N) : list (owner * N * N) :=
  flat_map (fun p => if po_reg p then runs (OProxy (po_req p)) (po_cbs p) r else []) objs.

Definition established_lost (legacy13 : bool) (st : state) (r : N) : state :=
  let st := set_ran st (st_ran st ++ runs OConn (st_dcbs st) r) in          (* for cb in self._dcCallbacks *)
  let st := deliver legacy13 st (Calls.connection_lost (st_calls st) r) in   (* for d, timeout in _pendingCalls.values() *)
  let st := set_ran st (st_ran st ++ proxy_runs (st_objs st) r) in           (* self.objHandler.connectionLost(reason) *)
  set_phase st Dead.

Definition connection_lost (legacy12 legacy13 : bool) (st : state) (r : N) : state :=
  let st := set_open st false in
  if legacy12 then
    if st_bus st then established_lost legacy13 st r       (* if self.busName is None: return *)
    else set_phase st Dead
  else
    match st_phase st with
    | Authenticating _ => fire (set_phase st Dead) (CFailed (CLost r))   (* if not self._authenticated: factory._failed(reason) *)
    | _ => established_lost legacy13 st r
    end.

(* ------------------------------------------------------------------------ *)
(* user operations                                                            *)

Definition get_object (legacy13 : bool) (st : state) (k : pkind) (key : N) : state :=
  let q := st_nreq st in
  let st := set_nreq st (S q) in
  match k with
  | PkExplicit =>       (* defer.succeed(RemoteDBusObject(...)) *)
      set_objdone (set_objs st (st_objs st ++ [PObj q key (negb legacy13) []])) (st_objdone st ++ [(q, true)])
  | PkIntro parses =>   (* self.conn.introspectRemoteObject(...) -> callRemote(path, 'Introspect', ...) *)
      let id := st_next_id (st_calls st) in
      calls_step legacy13 (set_intro st (st_intro st ++ [(id, (q, key, parses))]))
                 (ECall CkNormal None RsNoCheck)
  end.

Fixpoint remove_first (x : N) (l : list N) : list N :=
  match l with
  | [] => []
  | y :: r => if x =? y then r else y :: remove_first x r
  end.

Definition mem (x : N) (l : list N) : bool := existsb (N.eqb x) l.

Definition find_obj (q : nat) (l : list pobj) : option pobj :=
  find (fun p => Nat.eqb (po_req p) q) l.

Definition upd_cbs (q : nat) (f : list N -> list N) (l : list pobj) : list pobj :=
  map (fun p => if Nat.eqb (po_req p) q then PObj (po_req p) (po_key p) (po_reg p) (f (po_cbs p)) else p) l.

Definition register (st : state) (o : owner) (cb : N) : state :=
  match o with
  | OConn => set_dcbs st (st_dcbs st ++ [cb])
  | OProxy q => set_objs st (upd_cbs q (fun l => l ++ [cb]) (st_objs st))   (* no such proxy: nothing to call *)
  end.

Definition cancel (st : state) (o : owner) (cb : N) : state :=
  match o with
  | OConn =>            (* self._dcCallbacks.remove(callback) *)
      if mem cb (st_dcbs st) then set_dcbs st (remove_first cb (st_dcbs st))
      else set_raised st (S (st_raised st))
  | OProxy q =>         (* if self._disconnectCBs: self._disconnectCBs.remove(callback) *)
      match find_obj q (st_objs st) with
      | None => st
      | Some p =>
          match po_cbs p with
          | [] => st
          | _ => if mem cb (po_cbs p) then set_objs st (upd_cbs q (remove_first cb) (st_objs st))
                 else set_raised st (S (st_raised st))
          end
      end
  end.

(* ------------------------------------------------------------------------ *)

Definition step_gen (legacy12 legacy13 : bool) (st : state) (e : event) : state :=
  match e with
  | EEpFail =>          (* .addErrback(try_next_ep) *)
      match st_phase st with
      | Trying O => fire (set_phase st Dead) (CFailed CNoAddress)
      | Trying (S k) => set_phase st (Trying k)
      | _ => st
      end
  | EEpOk =>
      match st_phase st with
      | Trying _ => set_open (set_phase st (Authenticating false)) true
      | _ => st
      end
  | EAuthOk =>
      match st_phase st with
      | Authenticating false => connection_authenticated legacy13 st
      | _ => st         (* dataReceived: if self.transport.disconnecting: return *)
      end
  | EAuthRefused =>
      match st_phase st with
      | Authenticating false => set_phase st (Authenticating true)
      | _ => st
      end
  | ECalls (ELost r) => if st_open st then connection_lost legacy12 legacy13 st r else st
  | ECalls (ECall k t rs) => if handle st then calls_step legacy13 st (ECall k t rs) else st
  | ECalls (ETimer s) => calls_step legacy13 st (ETimer s)
  | ECalls e => if st_open st && authed (st_phase st) then calls_step legacy13 st e else st
  | EGetObject k key => if handle st then get_object legacy13 st k key else st
  | EReg o cb => if handle st then register st o cb else st
  | ECancel o cb => if handle st then cancel st o cb else st
  end.

Definition step : state -> event -> state := step_gen false false.
Definition step_legacy : state -> event -> state := step_gen true true.

Definition run (addr : list akind) (serial0 : N) (evs : list event) : state :=
  fold_left step evs (init addr serial0).
Definition run_legacy (addr : list akind) (serial0 : N) (evs : list event) : state :=
  fold_left step_legacy evs (init addr serial0).

(* the phases in which connecting has concluded *)
Definition terminal (p : phase) : bool :=
  match p with Ready | HelloFailed | Dead => true | _ => false end.
