(* The client and proxy layers of C12 with the daemon answering LATER: the
   AddMatch / RemoveMatch calls written by DBusClientConnection.addMatch /
   delMatch wait in a queue; an "answer" event lets the reference daemon
   (Spec/DaemonSpec.v) take the oldest one and delivers its reply, which runs
   the ok() closure of addMatch / delMatch.  On top of the client:
   RemoteDBusObject.notifyOnSignal / cancelSignalNotification with the
   proxy's set `_signalRules`.  Definitions only.

   conn.delMatch(id):  rule = self.match_rules[id]  (KeyError); RemoveMatch written; NO guard against a
                       second call for the same id before the reply: it writes a second RemoveMatch, and
                       when that one is answered ok() raises KeyError (the Deferred fails)
   ro.notifyOnSignal:  d = conn.addMatch(callback_caller, mtype='signal', path, member, interface);
                       on_ok(rule_id): self._signalRules.add(rule_id)
   ro.cancelSignalNotification(id):
                       if self._signalRules and id in self._signalRules:
                           conn.delMatch(id); self._signalRules.remove(id)        -- forgotten at once       *)
From Tx Require Import Lib.Base Model.Router Spec.MatchSpec Spec.DaemonSpec Model.ClientMatch.
Local Open Scope N_scope.

Inductive pcall :=
| PAdd (r : rule) (k : cbk) (text : str) (proxy : bool)     (* proxy: issued by notifyOnSignal *)
| PDel (id : nat) (text : str).

Record astate := mkA {
  a_client : client;
  a_pending : list pcall;            (* calls written and not yet answered, oldest first *)
  a_daemon : daemon;
  a_subs : list nat;                 (* RemoteDBusObject._signalRules (a set) *)
  a_proxy_ids : list nat             (* rule ids whose router callback is a proxy's callback_caller *)
}.

Definition ainit : astate := mkA cinit [] [] [] [].

Inductive aevent :=
| XAdd (r : rule) (k : cbk)          (* conn.addMatch(cb, rule) *)
| XDel (id : nat)                    (* conn.delMatch(id) *)
| XNotify (k : cbk)                  (* ro.notifyOnSignal(name, cb) *)
| XCancel (id : nat)                 (* ro.cancelSignalNotification(id) *)
| XAnswer                            (* the daemon takes the oldest pending call and its reply arrives *)
| XSignal (m : msg).                 (* a broadcast signal on the bus *)

Inductive aobs :=
| OWrote (w : list wire) (e : res unit)          (* calls written; exception raised by the API call *)
| OAnsAdd (r : res nat)                          (* what the Deferred of the answered addMatch gave *)
| OAnsDel (r : res unit)
| OAnsNone                                       (* nothing was pending *)
| OASignal (forwarded : bool) (called : list (nat * N)).

Definition mem (i : nat) (l : list nat) : bool := existsb (Nat.eqb i) l.
Definition set_add (i : nat) (l : list nat) : list nat := if mem i l then l else l ++ [i].
Definition set_remove (i : nat) (l : list nat) : list nat := filter (fun j => negb (Nat.eqb i j)) l.

Section Proxy.
  Variable prule : rule.               (* proxy_rule objectPath signalName iface.name *)
  Variable declared : option str.      (* signal.sig *)

  Definition issue_del (id : nat) (s : astate) : option (astate * str) :=
    match client_del_text id (a_client s) with
    | None => None
    | Some t => Some (mkA (a_client s) (a_pending s ++ [PDel id t]) (a_daemon s) (a_subs s) (a_proxy_ids s), t)
    end.

  Definition astep (s : astate) (e : aevent) : astate * aobs :=
    match e with
    | XAdd r k =>
        let t := rule_string r in
        (mkA (a_client s) (a_pending s ++ [PAdd r k t false]) (a_daemon s) (a_subs s) (a_proxy_ids s),
         OWrote [WAdd t] (Ok tt))
    | XNotify k =>
        let t := rule_string prule in
        (mkA (a_client s) (a_pending s ++ [PAdd prule k t true]) (a_daemon s) (a_subs s) (a_proxy_ids s),
         OWrote [WAdd t] (Ok tt))
    | XDel id =>
        match issue_del id s with
        | None => (s, OWrote [] (Err EKey))
        | Some (s', t) => (s', OWrote [WRemove t] (Ok tt))
        end
    | XCancel id =>
        if mem id (a_subs s) then
          match issue_del id s with
          | None => (s, OWrote [] (Err EKey))
          | Some (s', t) =>
              (mkA (a_client s') (a_pending s') (a_daemon s') (set_remove id (a_subs s')) (a_proxy_ids s'),
               OWrote [WRemove t] (Ok tt))
          end
        else (s, OWrote [] (Ok tt))
    | XAnswer =>
        match a_pending s with
        | [] => (s, OAnsNone)
        | PAdd r k t px :: rest =>
            match d_add t (a_daemon s) with
            | Some d' =>
                let '(c', x) := client_add_ok r k t (a_client s) in
                match x with
                | Ok id => (mkA c' rest d' (if px then set_add id (a_subs s) else a_subs s)
                                (if px then id :: a_proxy_ids s else a_proxy_ids s), OAnsAdd x)
                | Err _ => (mkA c' rest d' (a_subs s) (a_proxy_ids s), OAnsAdd x)
                end
            | None => (mkA (a_client s) rest (a_daemon s) (a_subs s) (a_proxy_ids s), OAnsAdd (Err EOther))
            end
        | PDel id t :: rest =>
            match d_remove t (a_daemon s) with
            | Some d' =>
                match client_del_text id (a_client s) with      (* del self.match_rules[rule_id]: KeyError *)
                | Some _ => (mkA (client_del_ok id (a_client s)) rest d' (a_subs s) (a_proxy_ids s), OAnsDel (Ok tt))
                | None => (mkA (a_client s) rest d' (a_subs s) (a_proxy_ids s), OAnsDel (Err EKey))
                end
            | None => (mkA (a_client s) rest (a_daemon s) (a_subs s) (a_proxy_ids s), OAnsDel (Err EOther))
            end
        end
    | XSignal m =>
        if d_forwards (a_daemon s) m then
          let '(rt, l) := route_message m (cl_router (a_client s)) in
          let gate_ok := match proxy_deliver declared m with Some _ => true | None => false end in
          (mkA (mkClient rt (cl_texts (a_client s))) (a_pending s) (a_daemon s) (a_subs s) (a_proxy_ids s),
           OASignal true (filter (fun it => if mem (fst it) (a_proxy_ids s) then gate_ok else true) l))
        else (s, OASignal false [])
    end.

  Fixpoint atrace_from (s : astate) (h : list aevent) : list aobs :=
    match h with
    | [] => []
    | e :: h' => let '(s', o) := astep s e in o :: atrace_from s' h'
    end.
  Definition atrace (h : list aevent) : list aobs := atrace_from ainit h.
  Definition arun (h : list aevent) : astate := fold_left (fun s e => fst (astep s e)) h ainit.
End Proxy.

Definition wrote (o : aobs) : list wire := match o with OWrote w _ => w | _ => [] end.
