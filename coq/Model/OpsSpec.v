(* s-expression coding of the typed specification values (ty, wval) and the
   spec-side ops:  (2 1 (tys) (wvals) off le) -> "bytes" of enc_seq
                   (2 2 (tys) (wvals) (fds)) -> readback_seq values
                   (2 3 ty) -> "signature" *)
From Tx Require Import Lib.Base Lib.Sexp Model.PyVal Spec.WireSpec Spec.Readback.
Local Open Scope Z_scope.

Definition basic_of_code (c : Z) : option ty :=
  match c with
  | 121 => Some TByte | 98 => Some TBool | 110 => Some TInt16 | 113 => Some TUInt16
  | 105 => Some TInt32 | 117 => Some TUInt32 | 120 => Some TInt64 | 116 => Some TUInt64
  | 100 => Some TDouble | 115 => Some TString | 111 => Some TObjPath | 103 => Some TSig
  | 104 => Some TFd | 118 => Some TVariant
  | _ => None
  end.

Fixpoint ty_of_sexp (s : sexp) : option ty :=
  match s with
  | SNum c => basic_of_code c
  | SList [SNum 97; t] => option_map TArray (ty_of_sexp t)
  | SList [SNum 40; SList l] => option_map TStruct (map_opt ty_of_sexp l)
  | SList [SNum 123; k; v] =>
      match ty_of_sexp k, ty_of_sexp v with
      | Some k', Some v' => Some (TDictEntry k' v')
      | _, _ => None
      end
  | _ => None
  end.

Fixpoint wv_of_sexp (s : sexp) : option wval :=
  match s with
  | SList [SNum 0; SNum z] => Some (WInt z)
  | SList [SNum 1; SNum z] => Some (WBool (negb (Z.eqb z 0)))
  | SList [SNum 2; SNum z] => Some (WDouble (Z.to_N z))
  | SList [SNum 3; SBytes b] => Some (WStr b)
  | SList [SNum 4; SList l] => option_map WArray (map_opt wv_of_sexp l)
  | SList [SNum 5; SList l] => option_map WStruct (map_opt wv_of_sexp l)
  | SList [SNum 6; t; w] =>
      match ty_of_sexp t, wv_of_sexp w with
      | Some t', Some w' => Some (WVariant t' w')
      | _, _ => None
      end
  | _ => None
  end.

Definition op (args : list sexp) : sexp :=
  match args with
  | [SNum 1; SList ts; SList ws; SNum off; le] =>
      match map_opt ty_of_sexp ts, map_opt wv_of_sexp ws, as_bool le with
      | Some ts', Some ws', Some le' => SBytes (enc_seq ts' ws' (Z.to_nat off) le')
      | _, _, _ => bad
      end
  | [SNum 2; SList ts; SList ws; SList fds] =>
      match map_opt ty_of_sexp ts, map_opt wv_of_sexp ws, map_opt pv_of_sexp fds with
      | Some ts', Some ws', Some fds' => SList (map pv_to_sexp (readback_seq fds' ts' ws'))
      | _, _, _ => bad
      end
  | [SNum 3; t] =>
      match ty_of_sexp t with Some t' => SBytes (show t') | None => bad end
  | _ => bad
  end.
