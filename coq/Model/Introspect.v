(* Model of txdbus/interface.py (Method, Signal, Property, DBusInterface:
   __init__, addMethod/addSignal/addProperty, _getXml) and of
   txdbus/introspection.py (generateIntrospectionXML, IntrospectionHandler,
   getInterfacesFromXML).

   What is modelled and how
   ------------------------
   * A DBusInterface object is a value of [iface]; objects live in a heap
     (list, identity = index) because the parser hands out, registers and
     keeps mutating the same object: DBusInterface.knownInterfaces is the
     association list [known : name -> heap index].
   * The three member dictionaries are association lists with Python-dict
     update semantics (alist_set).  Their values are [member]s of any of the
     three classes, because addMethod/addSignal/addProperty are duck-typed
     and the SAX handler can hand them an object of another class.
   * The XML is a list of element events (start tag with attributes in
     source order / end tag).  The text layer - string formatting on the
     generating side, xml.sax on the parsing side - is not modelled; the
     correspondence harness bridges it with an independent XML parser.
   * Exceptions: KeyError -> Err EKey (missing attribute), AttributeError /
     TypeError -> Err EType (None or an object of the wrong class), the
     splitter's errors as in Model/SigSplit.v.
   * handler.isMethod is only ever tested for truth, so None and False are
     both [false].
   * self.member is an alias of the object that end_method / end_signal /
     end_property stored in a dictionary; a later <arg> or <annotation>
     therefore mutates the stored object too.  Values have no identity here,
     so the handler state remembers where the current member object has been
     stored ([h_locs]) and every mutation is written through to those
     places.  (A stored entry can only be overwritten by a different object
     after a new start_method/start_signal/start_property, which resets
     h_locs, so the places listed always still hold the current object.)
   * str.lower() in start_property is modelled for ASCII only: no non-ASCII
     character lower-cases to one of the letters of read/write/readwrite.
   * DBusInterface._xml (the cached text) is not part of [iface]; the mutable
     object with its cache (addX / delX / _getXml as the code performs them)
     is Model/IfaceCache.v, and Props/C15.v (C15_cache_coherent) proves that
     after any history of those calls _getXml returns [gen_iface] of the
     members as they are then - which is what [gen_doc] below uses.  The only
     other mutation - attribute assignment through the handler's alias -
     happens while the object is being parsed, before anything can have asked
     for its XML.
   * Method.__init__'s Twisted-version test for several 'h' arguments is not
     modelled (it cannot fire with the installed Twisted >= 17.1). *)
From Tx Require Import Lib.Base.
From Tx Require Import Model.SigSplit.
Local Open Scope N_scope.

(* --- string constants ----------------------------------------------------- *)
Definition t_node : str := [110; 111; 100; 101].  (* "node" *)
Definition t_interface : str := [105; 110; 116; 101; 114; 102; 97; 99; 101].  (* "interface" *)
Definition t_method : str := [109; 101; 116; 104; 111; 100].  (* "method" *)
Definition t_signal : str := [115; 105; 103; 110; 97; 108].  (* "signal" *)
Definition t_property : str := [112; 114; 111; 112; 101; 114; 116; 121].  (* "property" *)
Definition t_annotation : str := [97; 110; 110; 111; 116; 97; 116; 105; 111; 110].  (* "annotation" *)
Definition t_arg : str := [97; 114; 103].  (* "arg" *)
Definition a_name : str := [110; 97; 109; 101].  (* "name" *)
Definition a_type : str := [116; 121; 112; 101].  (* "type" *)
Definition a_access : str := [97; 99; 99; 101; 115; 115].  (* "access" *)
Definition a_direction : str := [100; 105; 114; 101; 99; 116; 105; 111; 110].  (* "direction" *)
Definition a_value : str := [118; 97; 108; 117; 101].  (* "value" *)
Definition s_in : str := [105; 110].  (* "in" *)
Definition s_out : str := [111; 117; 116].  (* "out" *)
Definition s_read : str := [114; 101; 97; 100].  (* "read" *)
Definition s_write : str := [119; 114; 105; 116; 101].  (* "write" *)
Definition s_readwrite : str := [114; 101; 97; 100; 119; 114; 105; 116; 101].  (* "readwrite" *)
Definition s_true : str := [116; 114; 117; 101].  (* "true" *)
Definition s_false : str := [102; 97; 108; 115; 101].  (* "false" *)
Definition s_invalidates : str := [105; 110; 118; 97; 108; 105; 100; 97; 116; 101; 115].  (* "invalidates" *)
Definition s_True : str := [84; 114; 117; 101].  (* "True" *)
Definition s_False : str := [70; 97; 108; 115; 101].  (* "False" *)
Definition s_emits_name : str :=   (* "org.freedesktop.DBus.Property.EmitsChangedSignal" *)
  [111; 114; 103; 46; 102; 114; 101; 101; 100; 101; 115; 107; 116; 111; 112; 46; 68; 66; 117; 115; 46;
   80; 114; 111; 112; 101; 114; 116; 121; 46; 69; 109; 105; 116; 115; 67; 104; 97; 110; 103; 101; 100;
   83; 105; 103; 110; 97; 108].
Definition n_introspectable : str :=   (* "org.freedesktop.DBus.Introspectable" *)
  [111; 114; 103; 46; 102; 114; 101; 101; 100; 101; 115; 107; 116; 111; 112; 46; 68; 66; 117; 115; 46;
   73; 110; 116; 114; 111; 115; 112; 101; 99; 116; 97; 98; 108; 101].
Definition n_peer : str :=   (* "org.freedesktop.DBus.Peer" *)
  [111; 114; 103; 46; 102; 114; 101; 101; 100; 101; 115; 107; 116; 111; 112; 46; 68; 66; 117; 115; 46;
   80; 101; 101; 114].
Definition n_objectmanager : str :=   (* "org.freedesktop.DBus.ObjectManager" *)
  [111; 114; 103; 46; 102; 114; 101; 101; 100; 101; 115; 107; 116; 111; 112; 46; 68; 66; 117; 115; 46;
   79; 98; 106; 101; 99; 116; 77; 97; 110; 97; 103; 101; 114].
Definition n_Introspect : str := [73; 110; 116; 114; 111; 115; 112; 101; 99; 116].  (* "Introspect" *)
Definition n_Ping : str := [80; 105; 110; 103].  (* "Ping" *)
Definition n_GetManagedObjects : str :=   (* "GetManagedObjects" *)
  [71; 101; 116; 77; 97; 110; 97; 103; 101; 100; 79; 98; 106; 101; 99; 116; 115].
Definition sig_s : str := [115].  (* "s" *)
Definition sig_managed : str := [97; 123; 111; 97; 123; 115; 97; 123; 115; 118; 125; 125; 125].  (* "a{oa{sa{sv}}}" *)
Definition c_slash : N := 47.

(* --- interface.py: Method, Signal, Property -------------------------------- *)

Record meth := mkMeth { m_name : str; m_nargs : Z; m_nret : Z; m_sigIn : str; m_sigOut : str }.
Record sgnl := mkSgnl { s_name : str; s_nargs : Z; s_sig : str }.

(* Property.emits: the declaring side stores 'true' / 'false' / 'invalidates',
   IntrospectionHandler.start_annotation stores a bool *)
Inductive emits := EmStr (s : str) | EmBool (b : bool).
Record prop := mkProp { p_name : str; p_sig : str; p_access : str; p_emits : emits }.

Inductive member := MMeth (m : meth) | MSig (s : sgnl) | MProp (p : prop).

Definition member_name (m : member) : str :=
  match m with MMeth m => m_name m | MSig s => s_name s | MProp p => p_name p end.

(* Method(name, arguments, returns) *)
Definition new_method (name a r : str) : meth := mkMeth name (-1) (-1) a r.
(* Signal(name, arguments) *)
Definition new_signal (name a : str) : sgnl := mkSgnl name (-1) a.

(* Property(name, sig, readable, writeable, emitsOnChange), emitsOnChange one
   of True / False / 'invalidates' *)
Inductive emits_arg := EaTrue | EaFalse | EaInvalidates.
Definition new_property (name sig : str) (readable writeable : bool) (e : emits_arg) : prop :=
  mkProp name sig
    (if writeable && negb readable then s_write
     else if writeable && readable then s_readwrite
     else s_read)
    (EmStr match e with EaTrue => s_true | EaFalse => s_false | EaInvalidates => s_invalidates end).

(* --- interface.py: DBusInterface ------------------------------------------- *)

Record iface := mkIface {
  i_name : str;
  i_methods : list (str * member);
  i_signals : list (str * member);
  i_props : list (str * member) }.

Inductive kind := KMeth | KSig | KProp.

Definition dict_of (k : kind) (i : iface) : list (str * member) :=
  match k with KMeth => i_methods i | KSig => i_signals i | KProp => i_props i end.

Definition set_dict (k : kind) (i : iface) (d : list (str * member)) : iface :=
  match k with
  | KMeth => mkIface (i_name i) d (i_signals i) (i_props i)
  | KSig => mkIface (i_name i) (i_methods i) d (i_props i)
  | KProp => mkIface (i_name i) (i_methods i) (i_signals i) d
  end.

(* d[m.name] = m *)
Definition dict_put (k : kind) (i : iface) (m : member) : iface :=
  set_dict k i (alist_set str_eqb (member_name m) m (dict_of k i)).

(* len([a for a in marshal.genCompleteTypes(sig)]) *)
Definition count_types (s : str) : res Z :=
  do l <- gen_complete_types s; Ok (Z.of_nat (length l)).

(* addMethod(m): returns the interface and the (possibly updated) object m.
   A Signal passes when its nargs is already set (it has no sigIn otherwise);
   a Property has no nargs. *)
Definition add_method (i : iface) (m : member) : res (iface * member) :=
  match m with
  | MMeth x =>
      do x' <- (if (m_nargs x =? -1)%Z then
                  do a <- count_types (m_sigIn x);
                  do r <- count_types (m_sigOut x);
                  Ok (mkMeth (m_name x) a r (m_sigIn x) (m_sigOut x))
                else Ok x);
      Ok (dict_put KMeth i (MMeth x'), MMeth x')
  | MSig x => if (s_nargs x =? -1)%Z then Err EType else Ok (dict_put KMeth i m, m)
  | MProp _ => Err EType
  end.

(* addSignal(s) *)
Definition add_signal (i : iface) (m : member) : res (iface * member) :=
  match m with
  | MSig x =>
      do x' <- (if (s_nargs x =? -1)%Z then
                  do a <- count_types (s_sig x); Ok (mkSgnl (s_name x) a (s_sig x))
                else Ok x);
      Ok (dict_put KSig i (MSig x'), MSig x')
  | MMeth x => if (m_nargs x =? -1)%Z then Err EType else Ok (dict_put KSig i m, m)
  | MProp _ => Err EType
  end.

(* addProperty(p): anything with a name *)
Definition add_property (i : iface) (m : member) : res (iface * member) :=
  Ok (dict_put KProp i m, m).

(* the positional arguments of DBusInterface(name, *args) *)
Inductive decl :=
| DMeth (name a r : str)
| DSig (name a : str)
| DProp (name sig : str) (readable writeable : bool) (e : emits_arg).

Definition add_decl (i : iface) (d : decl) : res iface :=
  match d with
  | DMeth n a r => do p <- add_method i (MMeth (new_method n a r)); Ok (fst p)
  | DSig n a => do p <- add_signal i (MSig (new_signal n a)); Ok (fst p)
  | DProp n s rd wr e => do p <- add_property i (MProp (new_property n s rd wr e)); Ok (fst p)
  end.

Fixpoint add_decls (i : iface) (ds : list decl) : res iface :=
  match ds with
  | [] => Ok i
  | d :: r => do i' <- add_decl i d; add_decls i' r
  end.

(* DBusInterface(name, *ds) without the registration *)
Definition new_iface (name : str) (ds : list decl) : res iface :=
  add_decls (mkIface name [] [] []) ds.

(* DBusInterface(name, *ds [, noRegister=...]) in a world (heap, known):
   the new object's index, registered under its name unless the keyword
   noRegister is present (whatever its value) *)
Definition declare (heap : list iface) (known : list (str * nat)) (name : str) (ds : list decl)
           (noreg : bool) : res (list iface * list (str * nat) * nat) :=
  do i <- new_iface name ds;
  let id := length heap in
  Ok (heap ++ [i], if noreg then known else alist_set str_eqb name id known, id).

(* --- sorted(d.keys()) ----------------------------------------------------- *)

(* Python's str comparison: lexicographic by code point *)
Fixpoint str_leb (a b : str) : bool :=
  match a, b with
  | [], _ => true
  | _ :: _, [] => false
  | x :: a', y :: b' => if x <? y then true else if y <? x then false else str_leb a' b'
  end.

Fixpoint insert_sorted (x : str) (l : list str) : list str :=
  match l with
  | [] => [x]
  | y :: r => if str_leb x y then x :: l else y :: insert_sorted x r
  end.

Definition sort_strs (l : list str) : list str := fold_right insert_sorted [] l.

(* (d[a] for a in sorted(d.keys())) *)
Definition sorted_items (d : list (str * member)) : list member :=
  flat_map (fun k => match alist_get str_eqb k d with Some v => [v] | None => [] end)
           (sort_strs (map fst d)).

(* --- element events -------------------------------------------------------- *)

Inductive event :=
| EvStart (tag : str) (attrs : list (str * str))
| EvEnd (tag : str).

Definition empty_elem (tag : str) (attrs : list (str * str)) : list event :=
  [EvStart tag attrs; EvEnd tag].

(* --- interface.py: DBusInterface._getXml ------------------------------------ *)

Definition arg_in (t : str) : list event := empty_elem t_arg [(a_direction, s_in); (a_type, t)].
Definition arg_out (t : str) : list event := empty_elem t_arg [(a_direction, s_out); (a_type, t)].
Definition arg_sig (t : str) : list event := empty_elem t_arg [(a_type, t)].

Definition method_events (name : str) (ins outs : list str) : list event :=
  EvStart t_method [(a_name, name)] :: flat_map arg_in ins ++ flat_map arg_out outs ++ [EvEnd t_method].

Definition signal_events (name : str) (args : list str) : list event :=
  EvStart t_signal [(a_name, name)] :: flat_map arg_sig args ++ [EvEnd t_signal].

(* '%s' % (p.emits,) *)
Definition emits_text (e : emits) : str :=
  match e with EmStr s => s | EmBool true => s_True | EmBool false => s_False end.

Definition property_events (name sig access : str) (e : emits) : list event :=
  EvStart t_property [(a_name, name); (a_type, sig); (a_access, access)]
  :: empty_elem t_annotation [(a_name, s_emits_name); (a_value, emits_text e)] ++ [EvEnd t_property].

Definition gen_method (m : member) : res (list event) :=
  match m with
  | MMeth x =>
      do ins <- gen_complete_types (m_sigIn x);
      do outs <- gen_complete_types (m_sigOut x);
      Ok (method_events (m_name x) ins outs)
  | _ => Err EType                                  (* no attribute sigIn *)
  end.

Definition gen_signal (m : member) : res (list event) :=
  match m with
  | MSig x => do args <- gen_complete_types (s_sig x); Ok (signal_events (s_name x) args)
  | MProp x => do args <- gen_complete_types (p_sig x); Ok (signal_events (p_name x) args)
  | MMeth _ => Err EType                            (* no attribute sig *)
  end.

Definition gen_property (m : member) : res (list event) :=
  match m with
  | MProp x => Ok (property_events (p_name x) (p_sig x) (p_access x) (p_emits x))
  | _ => Err EType                                  (* no attribute sig / access *)
  end.

Fixpoint map_res {A B} (f : A -> res B) (l : list A) : res (list B) :=
  match l with
  | [] => Ok []
  | x :: r => do y <- f x; do ys <- map_res f r; Ok (y :: ys)
  end.

Definition gen_iface (i : iface) : res (list event) :=
  do ms <- map_res gen_method (sorted_items (i_methods i));
  do ss <- map_res gen_signal (sorted_items (i_signals i));
  do ps <- map_res gen_property (sorted_items (i_props i));
  Ok (EvStart t_interface [(a_name, i_name i)] :: concat ms ++ concat ss ++ concat ps ++ [EvEnd t_interface]).

(* --- introspection.py: _intro and generateIntrospectionXML ------------------- *)

Definition intro_events : list event :=
  [ EvStart t_interface [(a_name, n_introspectable)];
    EvStart t_method [(a_name, n_Introspect)];
    EvStart t_arg [(a_direction, s_out); (a_type, sig_s)]; EvEnd t_arg;
    EvEnd t_method;
    EvEnd t_interface;
    EvStart t_interface [(a_name, n_peer)];
    EvStart t_method [(a_name, n_Ping)];
    EvEnd t_method;
    EvEnd t_interface;
    EvStart t_interface [(a_name, n_objectmanager)];
    EvStart t_method [(a_name, n_GetManagedObjects)];
    EvStart t_arg [(a_direction, s_out); (a_type, sig_managed)]; EvEnd t_arg;
    EvEnd t_method;
    EvEnd t_interface ].

(* s.partition('/')[0] *)
Fixpoint before_slash (s : str) : str :=
  match s with
  | [] => []
  | c :: r => if c =? c_slash then [] else c :: before_slash r
  end.

Definition mem_str (x : str) (l : list str) : bool := existsb (str_eqb x) l.

(* the loop computing `matches` *)
Definition child_names (prefix : str) (keys : list str) : list str :=
  fold_left (fun acc p =>
               if starts_with prefix p && negb (str_eqb p prefix) then   (* path != objectPath (D29 repair) *)
                 let c := before_slash (skipn (length prefix) p) in
                 if mem_str c acc then acc else acc ++ [c]
               else acc) keys [].

(* generateIntrospectionXML(objectPath, exportedObjects): exportedObjects maps a
   path to an object, represented by the list obj.getInterfaces() yields.
   Ok None is the Python return value None. *)
Definition gen_doc (path : str) (exported : list (str * list iface)) : res (option (list event)) :=
  let obj := alist_get str_eqb path exported in
  do body <- match obj with
             | Some ifs => do blocks <- map_res gen_iface ifs; Ok (concat blocks ++ intro_events)
             | None => Ok []
             end;
  let prefix := if ends_with_char c_slash path then path else path ++ [c_slash] in
  let matches := child_names prefix (map fst exported) in
  match obj, matches with
  | None, [] => Ok None
  | _, _ =>
      Ok (Some (EvStart t_node [(a_name, path)]
                :: body ++ flat_map (fun m => empty_elem t_node [(a_name, m)]) matches ++ [EvEnd t_node]))
  end.

(* --- introspection.py: IntrospectionHandler ----------------------------------- *)

Record hstate := mkH {
  h_heap : list iface;                 (* all DBusInterface objects, by identity *)
  h_known : list (str * nat);          (* DBusInterface.knownInterfaces *)
  h_out : list nat;                    (* handler.interfaces *)
  h_member : option member;            (* handler.member *)
  h_locs : list (nat * kind);          (* dictionaries holding the handler.member object *)
  h_isMethod : bool;                   (* handler.isMethod (truth value) *)
  h_cur : option nat;                  (* handler.iface *)
  h_skip : bool }.                     (* handler.skip *)

Definition init_state (heap : list iface) (known : list (str * nat)) : hstate :=
  mkH heap known [] None [] false None false.

Fixpoint heap_upd (id : nat) (f : iface -> iface) (h : list iface) : list iface :=
  match h, id with
  | [], _ => []
  | x :: r, O => f x :: r
  | x :: r, S k => x :: heap_upd k f r
  end.

(* attrs[k] *)
Definition attr (k : str) (attrs : list (str * str)) : res str :=
  match alist_get str_eqb k attrs with Some v => Ok v | None => Err EKey end.

(* assignment to an attribute of the handler.member object: visible through
   every dictionary that holds the object *)
Definition put_member (st : hstate) (m : member) : hstate :=
  mkH (fold_left (fun h (l : nat * kind) => heap_upd (fst l) (fun i => dict_put (snd l) i m) h)
                 (h_locs st) (h_heap st))
      (h_known st) (h_out st) (Some m) (h_locs st) (h_isMethod st) (h_cur st) (h_skip st).

(* handler.member = <new object>; handler.isMethod = b *)
Definition new_member (st : hstate) (m : member) (b : bool) : hstate :=
  mkH (h_heap st) (h_known st) (h_out st) (Some m) [] b (h_cur st) (h_skip st).

(* self.iface.addX(self.member) *)
Definition store (st : hstate) (k : kind) (add : iface -> member -> res (iface * member)) : res hstate :=
  match h_cur st with
  | None => Err EType                                  (* None has no attribute addX *)
  | Some id =>
      match nth_error (h_heap st) id, h_member st with
      | None, _ => Err EOther                          (* unreachable: ids are valid *)
      | Some _, None => Err EType                      (* None has no attribute nargs / name *)
      | Some i, Some m =>
          do r <- add i m;
          Ok (mkH (heap_upd id (fun _ => fst r) (h_heap st)) (h_known st) (h_out st)
                  (Some (snd r)) ((id, k) :: h_locs st) (h_isMethod st) (h_cur st) (h_skip st))
      end
  end.

Definition start_interface (skipKnown : bool) (st : hstate) (attrs : list (str * str)) : res hstate :=
  do iname <- attr a_name attrs;
  match (if skipKnown then alist_get str_eqb iname (h_known st) else None) with
  | Some id =>
      Ok (mkH (h_heap st) (h_known st) (h_out st ++ [id]) (h_member st) (h_locs st)
              (h_isMethod st) (h_cur st) true)
  | None =>
      let id := length (h_heap st) in
      Ok (mkH (h_heap st ++ [mkIface iname [] [] []]) (alist_set str_eqb iname id (h_known st))
              (h_out st ++ [id]) (h_member st) (h_locs st) (h_isMethod st) (Some id) (h_skip st))
  end.

Definition end_interface (st : hstate) : hstate :=
  mkH (h_heap st) (h_known st) (h_out st) (h_member st) (h_locs st) (h_isMethod st) (h_cur st) false.

Definition start_method (st : hstate) (attrs : list (str * str)) : res hstate :=
  do n <- attr a_name attrs;
  Ok (new_member st (MMeth (mkMeth n 0 0 [] [])) true).

Definition start_signal (st : hstate) (attrs : list (str * str)) : res hstate :=
  do n <- attr a_name attrs;
  Ok (new_member st (MSig (mkSgnl n 0 [])) false).

(* ASCII str.lower() *)
Definition lower (s : str) : str :=
  map (fun c => if (65 <=? c) && (c <=? 90) then c + 32 else c) s.

Definition start_property (st : hstate) (attrs : list (str * str)) : res hstate :=
  do n <- attr a_name attrs;
  do sg <- attr a_type attrs;
  do rw <- attr a_access attrs;
  let readable := mem_str (lower rw) [s_read; s_readwrite] in
  let writeable := mem_str (lower rw) [s_write; s_readwrite] in
  Ok (new_member st (MProp (new_property n sg readable writeable EaTrue)) false).

Definition start_annotation (st : hstate) (attrs : list (str * str)) : res hstate :=
  do n <- attr a_name attrs;
  if str_eqb n s_emits_name then
    do v <- attr a_value attrs;
    match h_member st with
    | Some (MProp p) =>
        Ok (put_member st (MProp (mkProp (p_name p) (p_sig p) (p_access p)
                                         (EmBool (mem_str v [s_true; s_invalidates])))))
    | _ => Err EType                                   (* None, or __slots__ without 'emits' *)
    end
  else Ok st.

Definition start_arg (st : hstate) (attrs : list (str * str)) : res hstate :=
  do t <- attr a_type attrs;
  if h_isMethod st then
    do d <- attr a_direction attrs;
    match h_member st with
    | Some (MMeth m) =>
        if str_eqb d s_in then
          Ok (put_member st (MMeth (mkMeth (m_name m) (m_nargs m + 1) (m_nret m) (m_sigIn m ++ t) (m_sigOut m))))
        else
          Ok (put_member st (MMeth (mkMeth (m_name m) (m_nargs m) (m_nret m + 1) (m_sigIn m) (m_sigOut m ++ t))))
    | _ => Err EType
    end
  else
    match h_member st with
    | Some (MSig s) => Ok (put_member st (MSig (mkSgnl (s_name s) (s_nargs s + 1) (s_sig s ++ t))))
    | _ => Err EType                                   (* None / no nargs / no sig *)
    end.

(* startElement / endElement *)
Definition step (skipKnown : bool) (st : hstate) (ev : event) : res hstate :=
  match ev with
  | EvStart tag attrs =>
      if h_skip st then Ok st
      else if str_eqb tag t_node then Ok st
      else if str_eqb tag t_interface then start_interface skipKnown st attrs
      else if str_eqb tag t_method then start_method st attrs
      else if str_eqb tag t_signal then start_signal st attrs
      else if str_eqb tag t_property then start_property st attrs
      else if str_eqb tag t_annotation then start_annotation st attrs
      else if str_eqb tag t_arg then start_arg st attrs
      else Ok st
  | EvEnd tag =>
      if h_skip st && negb (str_eqb tag t_interface) then Ok st
      else if str_eqb tag t_interface then Ok (end_interface st)
      else if str_eqb tag t_method then store st KMeth add_method
      else if str_eqb tag t_signal then store st KSig add_signal
      else if str_eqb tag t_property then store st KProp add_property
      else Ok st
  end.

Fixpoint run (skipKnown : bool) (st : hstate) (evs : list event) : res hstate :=
  match evs with
  | [] => Ok st
  | e :: r => do st' <- step skipKnown st e; run skipKnown st' r
  end.

(* getInterfacesFromXML(xml, replaceKnownInterfaces) on the element events of
   xml, in a world (heap, known): handler.interfaces as heap indices, and the
   world afterwards *)
Definition parse (replace : bool) (heap : list iface) (known : list (str * nat)) (evs : list event)
  : res (list nat * list iface * list (str * nat)) :=
  do st <- run (negb replace) (init_state heap known) evs;
  Ok (h_out st, h_heap st, h_known st).
