(* Model of the five name validators of txdbus/marshal.py, check by check in
   source order.  A validator returns true iff the Python function returns
   without raising MarshallingError.  Strings are lists of code points.

   str.isdigit / regex \d on non-ASCII code points: every validator also
   rejects any non-ASCII code point through its character-class regex, so the
   accept/reject outcome does not depend on them; the model uses ASCII digits
   and the correspondence run includes non-ASCII digits in its alphabet. *)
From Tx Require Import Lib.Base Gen.Generated.
Local Open Scope N_scope.

Definition c_dot : N := 46.
Definition c_slash : N := 47.
Definition c_colon : N := 58.

Definition is_digit (c : N) : bool := (48 <=? c) && (c <=? 57).
Definition is_alpha (c : N) : bool :=
  ((65 <=? c) && (c <=? 90)) || ((97 <=? c) && (c <=? 122)).
Definition is_alnum_ (c : N) : bool := is_alpha c || is_digit c || (c =? 95).

(* the five character classes; the regex sources are regenerated from the
   code into Generated.v and proved equal to these in Proofs/ValidatorsProofs.v *)
Definition path_ok (c : N) : bool := is_alnum_ c || (c =? c_slash).
Definition if_ok (c : N) : bool := is_alnum_ c || (c =? c_dot).
Definition bus_ok (c : N) : bool := is_alnum_ c || (c =? c_dot) || (c =? 45) || (c =? c_colon).
Definition mbr_ok (c : N) : bool := is_alnum_ c.

Definition first_is (c : N) (s : str) : bool :=
  match s with x :: _ => x =? c | [] => false end.
Definition first_digit (s : str) : bool :=
  match s with x :: _ => is_digit x | [] => false end.
Definition has_char (c : N) (s : str) : bool := existsb (N.eqb c) s.

(* dot_digit_re.search : a '.' immediately followed by a digit *)
Fixpoint dot_digit (s : str) : bool :=
  match s with
  | [] => false
  | x :: r => ((x =? c_dot) && first_digit r) || dot_digit r
  end.

Definition max_name : nat := 255.

(* validateObjectPath *)
Definition validate_path (p : str) : bool :=
  first_is c_slash p
  && negb ((1 <? length p)%nat && ends_with_char c_slash p)
  && negb (contains [c_slash; c_slash] p)
  && forallb path_ok p.

(* validateInterfaceName as of the pinned commit (before the repair of D26) *)
Definition validate_iface_legacy (n : str) : bool :=
  has_char c_dot n
  && negb (contains [c_dot; c_dot] n)
  && (length n <=? max_name)%nat
  && negb (first_is c_dot n)
  && negb (first_digit n)
  && forallb if_ok n
  && negb (dot_digit n).

(* validateInterfaceName, current *)
Definition validate_iface (n : str) : bool :=
  validate_iface_legacy n && negb (ends_with_char c_dot n).

Definition validate_error := validate_iface.

Definition validate_bus_legacy (n : str) : bool :=
  has_char c_dot n
  && negb (contains [c_dot; c_dot] n)
  && (length n <=? max_name)%nat
  && negb (first_is c_dot n)
  && negb (first_digit n)
  && forallb bus_ok n
  && negb (negb (first_is c_colon n) && dot_digit n).

(* validateBusName, current: additionally no trailing '.', ':' only as the
   first character, and no empty first element in a unique name *)
Definition validate_bus (n : str) : bool :=
  validate_bus_legacy n
  && negb (ends_with_char c_dot n)
  && negb (has_char c_colon (tl n))
  && negb (starts_with [c_colon; c_dot] n).

Definition validate_member (n : str) : bool :=
  negb (length n <? 1)%nat
  && (length n <=? max_name)%nat
  && negb (first_digit n)
  && forallb mbr_ok n.
