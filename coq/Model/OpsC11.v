(* Harness entry point for C11 (Model/System.v, Model/ProxyCall.v).

   (11 k procs serial0 fuel names classes objects behs sched)
     k       = number of clients; client i (1..k) is the i-th connection of the bus and has said Hello
     procs   = (p_1 ... p_k)             the process client i lives in
     serial0 = DBusMessage._nextSerial of every process when the schedule starts
     fuel    = recursion fuel of the codec
     names   = ((client name flags) ...) RequestName calls made (and answered) before the schedule
     classes = as in Model/OpsC10.v      ((ifaces attrs) ...)
     objects = ((client ((path (class index ...)) ...)) ...)   the exports of each client
     behs    = ((fid beh) ...)           what the function with that id does when invoked
        beh  = (0 pyval) returns it | (1 exn) raises | (2) returns an unfired Deferred
             | (3) returns its argument (one) / the tuple of its arguments
     sched   = (action ...)
        (0 c name ((member in out) ...) noreg)       DBusInterface(name, Method(...)..., [noRegister=True])
        (1 c bus path ifarg replace)                 getRemoteObject; ifarg = () | (0 spec) | (1 (spec ...));
                                                     spec = (0 heap-index) | (1 name)
        (2 c pidx member (pyval ...) (expect auto timeout? iface?))   proxy.callRemote
        (3 c)  the bus reads the next message of c   (4 c)  c reads its next message
        (5 c key later)                              the Deferred `key` of an exported method of c fires

   -> (invs results done raised proxies dead net open codec)
     invs    = ((c sender? serial fid (pyval ...) caller) ...)      caller = () | (sender?)
     results = ((c sender? serial (0 pyval) | (1 exn)) ...)
     done    = ((c id compl) ...)   compl = (0 pyval?) | (1 name text (pyval ...)) | (2) | (3) | (4 idx) | (5)
     raised  = ((c kind) ...)       kind = (0) no such method | (1 iname n) argument count | (2) not a Method
     proxies = (n_1 ... n_k)        proxies handed out per client
     dead    = (c ...)
     net     = ((dir c type) ...)   what is still in flight (dir 0 up, 1 down)
     open    = ((c key) ...)        Deferreds of exported methods not yet fired
     codec   = 1 when every message the run put in flight, at every step, is encodable by the concrete
               codec of Model/WireCodec.v (well-framed, parses back): the hypothesis of the byte-level
               theorems (Props/C11.v), checked on every case *)
From Tx Require Import Lib.Base Lib.Sexp.
From Tx Require Import Model.PyVal Model.BusNames Model.ProxyCall Model.System.
From Tx Require Model.Calls Model.BusRoute Model.Dispatch Model.Introspect Model.Router Model.OpsC10 Model.WireCodec.
Local Open Scope Z_scope.

(* --- setup ----------------------------------------------------------------------- *)
Definition hello_msg : BusRoute.bmsg :=
  BusRoute.mkB true 1 0 1 (Some [47%N; 72%N; 101%N; 108%N; 108%N; 111%N]) (Some BusRoute.bus_name)
               (Some BusRoute.s_Hello) None None (Some BusRoute.bus_name) None None [] None false.

Definition request_msg (n : str) (flags : N) : BusRoute.bmsg :=
  BusRoute.mkB true 1 0 2 (Some BusRoute.bus_path) (Some BusRoute.bus_name) (Some BusRoute.s_RequestName)
               None None (Some BusRoute.bus_name) None (Some BusRoute.sig_su) []
               (Some [Router.AStr n; Router.AOther flags]) false.

Definition setup (k : nat) (names : list (N * str * N)) : list BusRoute.event :=
  repeat_n (BusRoute.EFirst hello_msg) k ++
  map (fun x => BusRoute.ESend (fst (fst x)) (request_msg (snd (fst x)) (snd x))) names.

(* --- user code --------------------------------------------------------------------- *)
Inductive behspec := BConst (v : pyval) | BRaise (e : Dispatch.exn) | BDeferred | BEcho.

Definition beh_of (tab : list (N * behspec)) (inv : Dispatch.invocation) : Dispatch.outcome :=
  match alist_get N.eqb (Dispatch.f_id (Dispatch.v_func inv)) tab with
  | Some (BConst v) => Dispatch.OValue v
  | Some (BRaise e) => Dispatch.ORaise e
  | Some BDeferred => Dispatch.ODeferred
  | Some BEcho => Dispatch.OValue (match Dispatch.v_args inv with [x] => x | l => PTuple l end)
  | None => Dispatch.OValue PNone
  end.

Definition placeholder_name : str :=      (* org.txdbus.PythonException.unmodelled *)
  Dispatch.n_python_exception ++ [117; 110; 109; 111; 100; 101; 108; 108; 101; 100]%N.

(* --- decoding ------------------------------------------------------------------------ *)
Definition dec_name (s : sexp) : option (N * str * N) :=
  match s with
  | SList [c; n; f] =>
      match as_N c, as_str n, as_N f with
      | Some c, Some n, Some f => Some (c, n, f)
      | _, _, _ => None
      end
  | _ => None
  end.

Definition dec_client_objects (classes : list Dispatch.class) (s : sexp) : option (N * Dispatch.exports) :=
  match s with
  | SList [c; SList objs] =>
      match as_N c, map_opt (OpsC10.dec_object classes) objs with
      | Some c, Some ex => Some (c, ex)
      | _, _ => None
      end
  | _ => None
  end.

Definition dec_beh (s : sexp) : option (N * behspec) :=
  match s with
  | SList [fid; SList [SNum 0; v]] =>
      match as_N fid, pv_of_sexp v with Some f, Some v => Some (f, BConst v) | _, _ => None end
  | SList [fid; SList [SNum 1; e]] =>
      match as_N fid, OpsC10.dec_exn e with Some f, Some e => Some (f, BRaise e) | _, _ => None end
  | SList [fid; SList [SNum 2]] => option_map (fun f => (f, BDeferred)) (as_N fid)
  | SList [fid; SList [SNum 3]] => option_map (fun f => (f, BEcho)) (as_N fid)
  | _ => None
  end.

Definition dec_decl (s : sexp) : option Introspect.decl :=
  match s with
  | SList [n; i; o] =>
      match as_str n, as_str i, as_str o with
      | Some n, Some i, Some o => Some (Introspect.DMeth n i o)
      | _, _, _ => None
      end
  | _ => None
  end.

Definition dec_spec (s : sexp) : option ifspec :=
  match s with
  | SList [SNum 0; id] => option_map IObj (as_nat id)
  | SList [SNum 1; n] => option_map IName (as_str n)
  | _ => None
  end.

Definition dec_ifarg (s : sexp) : option ifarg :=
  match s with
  | SList [] => Some ANone
  | SList [SNum 0; x] => option_map AOne (dec_spec x)
  | SList [SNum 1; SList l] => option_map AList (map_opt dec_spec l)
  | _ => None
  end.

Definition dec_kw (s : sexp) : option kwargs :=
  match s with
  | SList [e; a; t; i] =>
      match as_bool e, as_bool a, as_opt as_N t, as_opt as_str i with
      | Some e, Some a, Some t, Some i => Some (mkKw e a t i)
      | _, _, _, _ => None
      end
  | _ => None
  end.

Definition dec_action (s : sexp) : option action :=
  match s with
  | SList [SNum 0; c; n; SList ds; nr] =>
      match as_N c, as_str n, map_opt dec_decl ds, as_bool nr with
      | Some c, Some n, Some ds, Some nr => Some (ADeclare c n ds nr)
      | _, _, _, _ => None
      end
  | SList [SNum 1; c; b; p; a; r] =>
      match as_N c, as_str b, as_str p, dec_ifarg a, as_bool r with
      | Some c, Some b, Some p, Some a, Some r => Some (AProxy c b p a r)
      | _, _, _, _, _ => None
      end
  | SList [SNum 2; c; px; m; SList args; kw] =>
      match as_N c, as_nat px, as_str m, map_opt pv_of_sexp args, dec_kw kw with
      | Some c, Some px, Some m, Some args, Some kw => Some (ACall c px m args kw)
      | _, _, _, _, _ => None
      end
  | SList [SNum 3; c] => option_map AUp (as_N c)
  | SList [SNum 4; c] => option_map ADown (as_N c)
  | SList [SNum 5; c; k; l] =>
      match as_N c, as_nat k, OpsC10.dec_later l with
      | Some c, Some k, Some l => Some (AFire c k l)
      | _, _, _ => None
      end
  | _ => None
  end.

(* --- encoding ------------------------------------------------------------------------ *)
Definition enc_exn (e : Dispatch.exn) : sexp :=
  SList [sstr (Dispatch.x_class e); sopt sstr (Dispatch.x_dbus_name e); SBytes (Dispatch.x_text e)].

Definition enc_later (l : Dispatch.later) : sexp :=
  match l with
  | Dispatch.LValue v => SList [SNum 0; pv_to_sexp v]
  | Dispatch.LFail e => SList [SNum 1; enc_exn e]
  end.

Definition enc_inv (x : N * tag * Dispatch.invocation) : sexp :=
  let '(c, t, i) := x in
  SList [sN c; sopt sstr (fst t); SNum (snd t); sN (Dispatch.f_id (Dispatch.v_func i));
         SList (map pv_to_sexp (Dispatch.v_args i));
         sopt (sopt sstr) (Dispatch.v_caller i)].

Definition enc_result (x : N * tag * Dispatch.later) : sexp :=
  let '(c, t, l) := x in SList [sN c; sopt sstr (fst t); SNum (snd t); enc_later l].

Definition enc_completion (x : completion) : sexp :=
  match x with
  | CValue v => SList [SNum 0; sopt pv_to_sexp v]
  | CRemote n t vals => SList [SNum 1; sstr n; SBytes t; SList (map pv_to_sexp vals)]
  | CSigMismatch => SList [SNum 2]
  | CFailed => SList [SNum 3]
  | CProxy i => SList [SNum 4; snat i]
  | CIntroFailed => SList [SNum 5]
  end.

Definition enc_done (x : N * nat * completion) : sexp :=
  let '(c, id, v) := x in SList [sN c; snat id; enc_completion v].

Definition enc_raised (x : N * pc_result) : sexp :=
  SList [sN (fst x);
         match snd x with
         | PcNoMethod => SList [SNum 0]
         | PcArgCount i n => SList [SNum 1; sstr i; SNum n]
         | PcBadMember => SList [SNum 2]
         | PcCall _ => SList [SNum 3]
         end].

Definition enc_item (x : link * wire) : sexp :=
  match fst x with
  | Up c => SList [SNum 0; sN c; sN (BusRoute.g_type (w_msg (snd x)))]
  | Down c => SList [SNum 1; sN c; sN (BusRoute.g_type (w_msg (snd x)))]
  end.

Definition observe (k : nat) (s : sys) : sexp :=
  SList [SList (map enc_inv (s_invs s));
         SList (map enc_result (s_results s));
         SList (map enc_done (s_done s));
         SList (map enc_raised (s_raised s));
         SList (map (fun i => snat (length (s_proxies s (N.of_nat (S i))))) (seq 0 k));
         SList (map sN (s_dead s));
         SList (map enc_item (s_net s));
         SList (map (fun x => SList [sN (fst (fst x)); snat (snd (fst x))]) (s_open s))].

Definition op_limit (limit : N) (args : list sexp) : sexp :=
  match args with
  | [k; SList procs; s0; fuel; SList names; SList classes; SList objects; SList behs; SList sched] =>
      match as_nat k, map_opt as_nat procs, as_N s0, as_nat fuel, map_opt dec_name names,
            map_opt OpsC10.dec_class classes with
      | Some k, Some procs, Some s0, Some fuel, Some names, Some classes =>
          match map_opt (dec_client_objects classes) objects, map_opt dec_beh behs, map_opt dec_action sched with
          | Some objs, Some behs, Some sched =>
              let g := mkCfg fuel
                             (fun c => nth (N.to_nat c - 1) procs (N.to_nat c))
                             (fun c => match alist_get N.eqb c objs with Some ex => ex | None => [] end)
                             (fun _ => beh_of behs)
                             (fun _ => (placeholder_name, [])) limit in
              let chk := WireCodec.net_okb (WireCodec.wire_enc fuel) (WireCodec.wire_dec fuel) in
              let fin := fold_left (fun acc a => let s' := step g (fst acc) a in (s', snd acc && chk (s_net s')))
                                   sched (init (setup k names) (fun _ => s0), true) in
              match observe k (fst fin) with
              | SList l => SList (l ++ [sbool (snd fin)])
              | x => x
              end
          | _, _, _ => bad
          end
      | _, _, _, _, _, _ => bad
      end
  | _ => bad
  end.

(* the case, and optionally DBusMessage._maxMsgLen as a tenth argument (default 2**27) *)
Definition op (args : list sexp) : sexp :=
  match args with
  | [a1; a2; a3; a4; a5; a6; a7; a8; a9; lim] =>
      match as_N lim with
      | Some l => op_limit l [a1; a2; a3; a4; a5; a6; a7; a8; a9]
      | None => bad
      end
  | _ => op_limit Message.max_msg_len args
  end.
