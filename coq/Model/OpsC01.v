(* Harness entry points for the marshalling model (C01, C02, C05, C19).
   (1 1 sig vals off le fds)      marshal    -> (1 n "bytes" fds) | (0 err)
   (1 2 sig "data" off le fds)    unmarshal  -> (1 n (vals)) | (0 err)
   (1 3 sig)                      gen_complete_types -> (1 (cts)) | (0 err)
   (1 4 val)                      sig_from_py -> (1 "sig") | (0 err)
   fds: () for None, ((v ...)) for a list *)
From Tx Require Import Lib.Base Lib.Sexp Model.PyVal Model.Marshal.
Local Open Scope Z_scope.

Definition fds_of_sexp (s : sexp) : option fdst :=
  match s with
  | SList [] => Some None
  | SList [SList l] => option_map Some (map_opt pv_of_sexp l)
  | _ => None
  end.

Definition fds_to_sexp (f : fdst) : sexp :=
  match f with
  | None => SList []
  | Some l => SList [SList (map pv_to_sexp l)]
  end.

Definition mres_to_sexp (r : mres) : sexp :=
  match r with
  | Ok (n, b, f) => SList [SNum 1; sN n; SBytes b; fds_to_sexp f]
  | Err e => SList [SNum 0; SNum (err_code e)]
  end.

Definition ures_to_sexp (r : res (N * list pyval)) : sexp :=
  match r with
  | Ok (n, vs) => SList [SNum 1; sN n; SList (map pv_to_sexp vs)]
  | Err e => SList [SNum 0; SNum (err_code e)]
  end.

Definition marshal_fuel (sig : str) (v : pyval) : nat := (length sig + 4 * pv_size v + 8)%nat.

Definition op (args : list sexp) : sexp :=
  match args with
  | [SNum 1; SBytes sig; v; SNum off; le; fds] =>
      match pv_of_sexp v, as_bool le, fds_of_sexp fds with
      | Some v', Some le', Some f =>
          mres_to_sexp (m_marshal (marshal_fuel sig v') sig v' (Z.to_N off) le' f)
      | _, _, _ => bad
      end
  | [SNum 2; SBytes sig; SBytes data; SNum off; le; fds] =>
      match as_bool le, fds_of_sexp fds with
      | Some le', Some f =>
          ures_to_sexp (m_unmarshal (fuel_for sig (length data)) sig data (Z.to_N off) le' f)
      | _, _ => bad
      end
  | [SNum 3; SBytes sig] =>
      sres (fun l => SList (map SBytes l)) (gen_complete_types sig)
  | [SNum 4; v] =>
      match pv_of_sexp v with
      | Some v' => sres SBytes (sig_from_py v')
      | None => bad
      end
  | _ => bad
  end.
