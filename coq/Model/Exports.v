(* Entry point of the extracted model runner: one s-expression in, one out.
   Input: (<property number> <args...>); each property's ops live in
   Model/OpsCxx.v and evaluate model, legacy model and spec on the same input
   so the harness gets all of them from one call. *)
From Tx Require Import Lib.Base Lib.Sexp.
From Tx Require Model.OpsC18 Model.OpsC01 Model.OpsSpec.
From Tx Require Model.OpsC16.
From Tx Require Model.OpsC03.
From Tx Require Model.OpsC08.
From Tx Require Model.OpsC15.
From Tx Require Model.OpsC17.
From Tx Require Model.OpsC10.
From Tx Require Model.OpsC13.
From Tx Require Model.OpsC09.
From Tx Require Model.OpsC12.
From Tx Require Model.OpsC04.
From Tx Require Model.OpsC06.
From Tx Require Model.OpsC14.
From Tx Require Model.OpsC07.
From Tx Require Model.OpsC19.
From Tx Require Model.OpsC20.
From Tx Require Model.OpsC05.
From Tx Require Model.OpsC11.
Local Open Scope Z_scope.

Definition run_op (s : sexp) : sexp :=
  match s with
  | SList (SNum op :: args) =>
      match op with
      | 1 => OpsC01.op args
      | 2 => OpsSpec.op args
      | 3 => OpsC03.op args
      | 18 => OpsC18.op args
      | 16 => OpsC16.op args
      | 8 => OpsC08.op args
      | 15 => OpsC15.op args
      | 17 => OpsC17.op args
      | 10 => OpsC10.op args
      | 13 => OpsC13.op args
      | 9 => OpsC09.op args
      | 12 => OpsC12.op args
      | 4 => OpsC04.op args
      | 6 => OpsC06.op args
      | 14 => OpsC14.op args
      | 7 => OpsC07.op args
      | 19 => OpsC19.op args
      | 20 => OpsC20.op args
      | 5 => OpsC05.op args
      | 11 => OpsC11.op args
      | _ => bad
      end
  | _ => bad
  end.

Definition run_line (line : list N) : list N :=
  match parse line with
  | None => print bad
  | Some s => print (run_op s)
  end.
