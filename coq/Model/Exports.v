(* Entry point of the extracted model runner: one s-expression in, one out.
   Each op evaluates model, legacy model and spec on the same input so the
   harness gets all three from one call. *)
From Tx Require Import Lib.Base Lib.Sexp Model.Validators Spec.Grammar.
Local Open Scope Z_scope.

(* a Python str: "hex" when all code points < 256, else a list of numbers *)
Definition as_str (s : sexp) : option str :=
  match s with
  | SBytes b => Some b
  | SList l => map_opt as_N l
  | SNum _ => None
  end.

Definition bad : sexp := SList [SNum (-1)].

Definition op_validate (args : list sexp) : sexp :=
  match args with
  | [s] =>
      match as_str s with
      | None => bad
      | Some n =>
          let t (m l g : bool) := SList [sbool m; sbool l; sbool g] in
          SList [ t (validate_path n) (validate_path n) (g_path n);
                  t (validate_iface n) (validate_iface_legacy n) (g_interface n);
                  t (validate_error n) (validate_iface_legacy n) (g_error n);
                  t (validate_bus n) (validate_bus_legacy n) (g_bus n);
                  t (validate_member n) (validate_member n) (g_member n) ]
      end
  | _ => bad
  end.

Definition run_op (s : sexp) : sexp :=
  match s with
  | SList (SNum op :: args) =>
      match op with
      | 1 => op_validate args
      | _ => bad
      end
  | _ => bad
  end.

Definition run_line (line : list N) : list N :=
  match parse line with
  | None => print bad
  | Some s => print (run_op s)
  end.
