"""Input generators for C05: an independent DBus encoder (spec layout, either byte order), seed messages,
mutations, hostile signatures, lying lengths.  No txdbus import here."""
import struct

from harness import marshal_common as mc

ALIGN = {'y': 1, 'b': 4, 'n': 2, 'q': 2, 'i': 4, 'u': 4, 'x': 8, 't': 8, 'd': 8, 's': 4, 'o': 4, 'g': 1, 'h': 4, 'v': 1}
FMT = {'y': 'B', 'n': 'h', 'q': 'H', 'i': 'i', 'u': 'I', 'x': 'q', 't': 'Q', 'h': 'I'}


def align_of(t):
    if isinstance(t, str):
        return ALIGN[t]
    return 4 if t[0] == 'a' else 8


def enc(t, w, off, le):
    """bytes of wire value w of type t placed at offset off (leading padding included)"""
    e = '<' if le else '>'
    out = b'\0' * ((-off) % align_of(t))
    off += len(out)
    if isinstance(t, str):
        if t in FMT:
            return out + struct.pack(e + FMT[t], w)
        if t == 'b':
            return out + struct.pack(e + 'I', 1 if w else 0)
        if t == 'd':
            return out + struct.pack(e + 'Q', w)
        if t in 'so':
            b = w.encode('utf-8') if isinstance(w, str) else bytes(w)
            return out + struct.pack(e + 'I', len(b)) + b + b'\0'
        if t == 'g':
            b = w.encode('utf-8') if isinstance(w, str) else bytes(w)
            return out + bytes([len(b) & 255]) + b + b'\0'
        if t == 'v':
            sg = mc.show(w['vt']).encode('ascii')
            o2 = out + bytes([len(sg)]) + sg + b'\0'
            return o2 + enc(w['vt'], w['w'], off + len(o2) - len(out), le)
        raise ValueError(t)
    if t[0] == 'a':
        body_off = off + 4
        first = b'\0' * ((-body_off) % align_of(t[1]))
        body_off += len(first)
        body = b''
        for x in w:
            body += enc(t[1], x, body_off + len(body), le)
        return out + struct.pack(e + 'I', len(body)) + first + body
    fields = t[1] if t[0] == '(' else [t[1], t[2]]
    body = b''
    for ft, fw in zip(fields, w):
        body += enc(ft, fw, off + len(body), le)
    return out + body


def enc_seq(ts, ws, off, le):
    b = b''
    for t, w in zip(ts, ws):
        b += enc(t, w, off + len(b), le)
    return b


HDR_TS = ['y', 'y', 'y', 'y', 'u', 'u', ['a', ['(', ['y', 'v']]]]


def mk_msg(le, mt, flags, serial, fields, body=b'', body_len=None):
    """fields: [(code, vt, w)]"""
    hw = [108 if le else 66, mt, flags, 1, len(body) if body_len is None else body_len, serial,
          [[code, {'vt': vt, 'w': w}] for code, vt, w in fields]]
    hdr = enc_seq(HDR_TS, hw, 0, le)
    return hdr + b'\0' * ((-len(hdr)) % 8) + body


NAMES = {1: ['/', '/a', '/org/freedesktop/DBus', '/a/b_c/D1'], 2: ['a.b', 'org.freedesktop.DBus'], 3: ['M', 'Hello', 'get_X1'],
         4: ['a.Err', 'org.freedesktop.DBus.Error.Failed'], 6: [':1.5', 'org.x'], 7: [':1.7', 'org.y']}
FIELD_TY = {1: 'o', 2: 's', 3: 's', 4: 's', 5: 'u', 6: 's', 7: 's', 8: 'g', 9: 'u'}


def gen_body(rng, depth=2, allow_fd=False):
    nt = rng.choice([1, 1, 2, 3])
    ts = [mc.gen_type(rng, rng.choice([0, 1, depth]), allow_fd=allow_fd) for _ in range(nt)]
    fdc = mc.FdCounter()
    ws = [mc.gen_w(rng, t, depth, fdc) for t in ts]
    return ts, ws


FIXED_BODIES = [
    (['s'], ['hello world']),
    ([['a', 'y']], [list(range(40))]),
    ([['a', 'u']], [[1, 2, 3, 4, 5, 6, 7, 8]]),
    ([['a', ['{', 's', 'v']]], [[['k1', {'vt': 'u', 'w': 7}], ['key2', {'vt': 's', 'w': 'val'}], ['k3', {'vt': ['a', 'y'], 'w': [1, 2, 3]}]]]),
    ([['a', ['(', ['y', 's']]]], [[[1, 'a'], [2, 'bb'], [3, '']]]),
    ([['a', ['a', ['a', 'y']]]], [[[[1], [2, 3]], [[]], []]]),
    ([['(', [['(', [['(', ['y']]]]]]], [[[[5]]]]),
    (['v'], [{'vt': 'v', 'w': {'vt': 'v', 'w': {'vt': 'y', 'w': 9}}}]),
    (['g', 'o', 'd', 'x'], ['a{sv}', '/a/b', 0x400921fb54442d18, -5]),
    ([['a', 's']], [['', 'é', 'x' * 17]]),
]


def seed_messages(rng, n):
    """n valid messages of the four types, both byte orders, typed bodies"""
    out = []
    for i in range(n):
        mt = 1 + i % 4
        le = (i // 4) % 3 != 2
        codes = {1: [1, 3], 2: [5], 3: [4, 5], 4: [1, 2, 3]}[mt] + [c for c in (2, 6, 7) if rng.random() < 0.5]
        codes = list(dict.fromkeys(codes))
        fields = []
        for c in codes:
            fields.append((c, FIELD_TY[c], rng.choice(NAMES[c]) if c != 5 else rng.choice([1, 77, 2**32 - 1])))
        body = b''
        if i % 5 != 4:
            ts, ws = FIXED_BODIES[i // 2 % len(FIXED_BODIES)] if i % 2 == 0 else gen_body(rng)
            body = enc_seq(ts, ws, 0, le)
            fields.insert(rng.randrange(len(fields) + 1), (8, 'g', ''.join(mc.show(t) for t in ts)))
        rng.shuffle(fields)
        out.append(mk_msg(le, mt, rng.choice([0, 0, 1, 2, 3]), rng.choice([1, 5, 2**32 - 1]), fields, body))
    return out


def truncations(raw):
    for k in range(len(raw)):
        yield raw[:k]


def bit_flips(raw):
    for i in range(len(raw)):
        for b in range(8):
            yield raw[:i] + bytes([raw[i] ^ (1 << b)]) + raw[i + 1:]


LIE_WORDS = [0, 1, 3, 7, 8, 9, 0x10, 0x7fffffff, 0x80000000, 0xffffffff, 0x04000000, 0x04000001, 0xfffffff8]


def word_lies(raw, le, extra=()):
    """every aligned 32-bit word replaced by hostile lengths (hits every array / string / body / header length)"""
    e = '<' if le else '>'
    for i in range(0, len(raw) - 3, 4):
        cur = struct.unpack_from(e + 'I', raw, i)[0]
        for v in list(LIE_WORDS) + [cur + 1, max(cur - 1, 0), cur + 8, len(raw), len(raw) - i] + list(extra):
            v &= 0xffffffff
            if v != cur:
                yield raw[:i] + struct.pack(e + 'I', v) + raw[i + 4:]


# ---------------------------------------------------------------------------------------------------------
# hostile signatures for marshal.unmarshal

ZERO_SIZE = ['a()', 'a(())', 'a{}', 'a(()())', 'aa()', 'a(a())', 'a((()))', '()', '(())', 'a{()()}', 'a(y())', 'a(()y)', 'a(()n)',
             'a(((((((())))))))', 'av', 'a(v)']
UNTERMINATED = ['(', '(y', '((y)', '{', '{y', 'a', 'aa', 'aaa', 'a(', 'a{', 'a{y', 'ya', 'y(', '(a)', '(a', 'a(a)', 'a{a}', '(y))', 'y)', ')', '}',
                'a)', 'a}', '(}', '{)', '({)}', 'a({)}', '(y}', '{y)']
BRACE_OUTSIDE = ['{yy}', '{y}', '{}', '({yy})', '{yyy}', 'a{yy}', 'a{y}', 'a{yyy}', 'a{(y)y}', 'a{ay y}'.replace(' ', ''), 'a{vy}', 'a{dy}', 'a{by}',
                 'a{sy}', 'a{yv}', '{ys}', 'a{ya{ya{yy}}}']
UNKNOWN = ['z', 'yz', 'r', 'e', 'm', '*', '?', 'ay\x00', '\x00', 'é', 'yé', 'aé', '(é)', 'a' + chr(0x100), chr(0x1F600), ' y', 'y y']


def nesting_sigs(depths):
    for n in depths:
        yield 'a' * n + 'y'
        yield '(' * n + 'y' + ')' * n
        yield '(' * n + ')' * n
        yield 'a' + '(' * n + 'y' + ')' * n
        yield 'a' * (n // 2) + '(' * (n // 2) + 'y' + ')' * (n // 2)
        yield 'a{y' * n + 'y' + '}' * n
        yield '(' * n + 'y'
        yield 'a' * n
        # many container types SIDE BY SIDE at one level (splitting must stay linear in the signature, not re-split the rest per type)
        k = max(2, min(n, 127))
        yield 'ai' * k
        yield 'a(y)' * (k // 2)
        yield '(' + 'ay' * k + ')'


def nested_array_data(n, le, leaf=b'\x07'):
    """valid data for 'a'*n + 'y' (one element at every level)"""
    e = '<' if le else '>'
    d = leaf
    for _ in range(n):
        d = struct.pack(e + 'I', len(d)) + d
    return d


def nested_variant(n, le, inner=('y', 9)):
    w = {'vt': inner[0], 'w': inner[1]}
    for _ in range(n):
        w = {'vt': 'v', 'w': w}
    return w
