"""C10 correspondence: the real DBusObjectHandler.handleMethodCallMessage / DBusObject.executeMethod against
Model/Dispatch.v (current model, the two pre-repair variants) and Spec/DispatchSpec.v (`judge`, the oracle).

A case is a dict (self-contained, JSON-serialisable):
  ifaces  [[name, [[member, sigIn, sigOut], ...]], ...]
  classes [{'bases': [class index...], 'ifaces': None | [iface index...],
            'attrs': [[attribute name, function id, None | [iface name, member], wants dbusCaller], ...]}, ...]
          built with type(); a class without bases derives from txdbus.objects.DBusObject
  objects [[path, class index], ...]           exported, in this order, on a fresh DBusObjectHandler
  raw     the method call as wire bytes (fed through message.parseMessage); `call` repeats it readably
          (call['serial'], when present, is the serial the caller put on the call - any non-zero UINT32 - otherwise
          the small counter value the library allocated when the bytes were built)
  out     what the invoked user method does:
          ['value', form] | ['fired', form] (returns an already fired Deferred) | ['raise', exn] |
          ['failed', exn] (returns an already failed Deferred) |
          ['deferred', None | ['value', form] | ['fail', exn]]  (an unfired Deferred and how it completes later)
          form = marshal_common.pv_form of the Python value; exn = [class name, ['absent']|['none']|['str', name], text]
  props   present when the call reaches one of DBusObject's own org.freedesktop.DBus.Properties methods
          (whose outcome is theirs, not `out`): the function id expected to run
  steps   (sequence cases) [{'raw', 'call', 'out', 'props'?}, ...]: several calls handled one after the other by
          ONE handler on ONE set of freshly built classes (raw / call / out / props of the case itself are then
          absent).  Every step is compared with the model and judged by the Coq verdict on its own: the model
          is a function of exports and call (Props/C10.v C10_calls_independent), so whatever the library keeps
          from one call to the next (_dbusIfaceCache on the class, _dbusCaller on the function) must not show.

The Python classes of a case are built afresh for every case (also on replay), so nothing leaks between cases.

The handler's connection is a stub recording sendMessage; every reply is re-parsed from its wire bytes."""
import inspect
import json
import re
import struct
import sys

from harness import common
from harness import marshal_common as mc

ASSUMPTIONS = [
    'user code is observed through generated functions that record (function id, decoded arguments, dbusCaller) and '
    'then perform the prescribed outcome; they accept up to 4 positional arguments by default values, so a Python '
    'TypeError for a wrong argument count never arises (implementations agree in arity with their declarations)',
    'a function is stored in its class under its own __name__; decorated functions and dbus_<member> attributes are '
    'plain functions of class __dict__s (no instance attributes, staticmethods, descriptors); interface names are non-empty',
    'the sender of a call is absent or a valid bus name (the bus stamps it); calls with an invalid sender are compared '
    'with the model only (the handler raises / stays silent)',
    'an interface name declared twice in the classes of one object (a subclass re-declaring an interface of its base under '
    'the same name: a newer revision with more / fewer members or changed signatures; the theorems of Props/C10.v assume '
    'distinct names): the property text does not say which declaration counts, so such a call is judged (by the same Coq '
    'verdict Spec.DispatchSpec.judge, evaluated on the declarations as they stand) only where EVERY reading - the most '
    'derived declaration overrides, the union of the declarations, the first declaration that has the member - gives the '
    'same answer to "the member exists on that interface" and the same signatures: the call names the interface and the '
    'member is in none of its declarations, or it is in the most derived one and every other declaration that has it '
    'declares it with the same signatures; for a call without interface header additionally the first declaration having '
    'the member must be the most derived declaration of its name and precede every declaration of any other interface '
    'name that has the member. Everything else about a re-declared name (a member only the base revision has, revisions '
    'disagreeing on a signature) is not compared at all (`redeclared: left open` in the distribution): the property is silent there',
    'reading of the property: the calls the handler answers itself (Peer.Ping, Introspectable.Introspect, '
    'ObjectManager.GetManagedObjects) and calls that cannot be dispatched are covered by "at most one reply, exactly one '
    'if a reply is expected"; a reply to such a call flagged no-reply is not counted as a violation',
    'a call without interface header addresses the first declared interface having the member; when both a dbus_<member> '
    'attribute and a decorator binding exist for (interface, member) either is accepted as the bound implementation; a declared '
    'member without any binding (answered org.txdbus.PythonException.NotImplementedError) is outside the "runs iff" clause',
    'a returned value of the declared arity is compared with Marshal.m_marshal under the declared signature; a value of another '
    'arity (zip truncation in marshal) is only required to produce at most / exactly one addressed reply; the error name of an '
    'unencodable value is not fixed by the property (txdbus: org.txdbus.PythonException.<class of the marshalling exception>)',
    'the message of an org.txdbus.InvalidErrorName reply is required to END with the exception text; an exception text that is '
    'not a DBus string (embedded NUL) must still be answered by exactly one error reply of the right name, with any message',
    'DBusObject._dbus_PropertyGet/Set/GetAll are observed by a sys.setprofile hook on their code objects; their outcome is '
    'theirs (GetAll of an interface without properties returns {}, Get of an unknown property raises Exception): value '
    'semantics is property C17',
    'an exception text with a lone surrogate (not representable in Marshal.v, which carries str as UTF-8) is given to model '
    'and spec with the surrogate replaced by NUL - both make the text "not a DBus string": one error reply of the right name '
    'is required, its message is not compared',
    'messages stay below the 128 MiB limit; return signatures contain no UNIX_FD',
    'the serial of a call is any non-zero UINT32 (0 is not a valid serial in the DBus specification and is not generated); '
    'the reply is read back from its wire bytes, and only the NUMBER in its REPLY_SERIAL field is compared with the serial of the call',
    'a returned value that Model/Marshal.v declares unmodelled (EUnmodelled: an int where a double is declared, a dbusOrder '
    'object where a basic type is declared) is generated but not compared (counted as encoder-unmodelled)',
]

SENDER = ':1.42'
IFACE_NAMES = ['org.ex.A', 'org.ex.B', 'org.ex.C', 'com.x.D']
MEMBERS = ['Foo', 'Bar', 'Baz', 'Qux']
PATHS = ['/', '/a', '/a/b', '/obj']
PROPS = 'org.freedesktop.DBus.Properties'
PEER = 'org.freedesktop.DBus.Peer'
INTRO = 'org.freedesktop.DBus.Introspectable'
OM = 'org.freedesktop.DBus.ObjectManager'
UNKNOWN_OBJECT = 'org.freedesktop.DBus.Error.UnknownObject'
UNKNOWN_METHOD = 'org.freedesktop.DBus.Error.UnknownMethod'
INVALID_ARGS = 'org.freedesktop.DBus.Error.InvalidArgs'
INVALID_NAME = 'org.txdbus.InvalidErrorName'
PYEXC = 'org.txdbus.PythonException.'
NPARAMS = 4

VERDICTS = {1: ('an exception escapes handleMethodCallMessage: the caller gets no reply', 'reply:exception-escapes'),
            2: ('more than one reply to one call', 'reply:more-than-one'),
            3: ('a reply is expected and none was sent', 'reply:missing'),
            4: ('a reply is not addressed to the caller with the serial of the call', 'reply:misaddressed'),
            5: ('a call flagged no-reply was dispatched to its implementation and answered', 'reply:no-reply-call-answered'),
            6: ('user code ran although path / member / signature do not match', 'invoke:ran-unaddressed'),
            7: ('the reply to an undispatchable call is not the UnknownObject / UnknownMethod / InvalidArgs error',
                'reply:wrong-error-kind'),
            8: ('the bound implementation did not run exactly once', 'invoke:not-exactly-once'),
            9: ('another function than a bound implementation ran', 'invoke:wrong-implementation'),
            10: ('the implementation ran with other arguments or caller name than those of the call', 'invoke:wrong-arguments'),
            11: ('the returned value was not sent encoded under the declared return signature', 'result:wrong-encoding'),
            12: ('a value that cannot be encoded was not answered by an error reply', 'result:unencodable-no-error'),
            13: ('the error reply does not carry dbusErrorName / org.txdbus.PythonException.<Class> / InvalidErrorName',
                 'result:wrong-error-name'),
            14: ('the error reply does not carry the exception text', 'result:wrong-error-text')}

_env = {}


def env():
    if _env:
        return _env
    from twisted.internet import defer
    from twisted.logger import globalLogBeginner
    from txdbus import objects, message, error, marshal
    from txdbus.interface import DBusInterface, Method
    try:
        globalLogBeginner.beginLoggingTo([lambda e: None], redirectStandardIO=False, discardBuffer=True)
    except Exception:
        pass

    class Conn(object):
        def __init__(self):
            self.sent = []

        def sendMessage(self, msg):
            self.sent.append((bytes(msg.rawMessage), msg))

    # DBusObject itself, as the dispatcher sees it (last class of every MRO)
    base_attrs = []
    k = 0
    for name, obj in objects.DBusObject.__dict__.items():
        if inspect.isfunction(obj):
            deco = [obj._dbusInterface, obj._dbusMethod] if hasattr(obj, '_dbusInterface') else None
            args = inspect.getfullargspec(obj)[0]
            base_attrs.append([name, 1000 + k, deco, bool(args and args[-1] == 'dbusCaller')])
            k += 1
    base_ifaces = None
    if 'dbusInterfaces' in objects.DBusObject.__dict__:
        base_ifaces = [[i.name, [[m.name, m.sigIn, m.sigOut] for m in i.methods.values()]]
                       for i in objects.DBusObject.dbusInterfaces]
    wrap = {'y': marshal.Byte, 'b': marshal.Boolean, 'n': marshal.Int16, 'q': marshal.UInt16,
            'i': marshal.Int32, 'u': marshal.UInt32, 'x': marshal.Int64, 't': marshal.UInt64,
            'g': marshal.Signature, 'o': marshal.ObjectPath}
    _env.update(defer=defer, objects=objects, message=message, error=error, marshal=marshal,
                DBusInterface=DBusInterface, Method=Method, Conn=Conn, base_attrs=base_attrs,
                base_ifaces=base_ifaces, wrap=wrap, worlds={})
    return _env


# ---------------------------------------------------------------------------------------------
# Python values from their pv_form (so that a case carries its values literally)
def from_form(f, E):
    t = f[0]
    if t == 0:
        return int(f[1])
    if t == 1:
        return bool(f[1])
    if t == 2:
        return mc.bits_to_float(f[1])
    if t == 3:
        return bytes(f[1]).decode('utf-8')
    if t == 4:
        return bytearray(f[1])
    if t == 5:
        return [from_form(x, E) for x in f[1]]
    if t == 6:
        return tuple(from_form(x, E) for x in f[1])
    if t == 7:
        return {from_form(k, E): from_form(v, E) for k, v in f[1]}
    if t == 8:
        return mc.make_obj([from_form(x, E) for x in f[1]])
    if t == 9:
        return E['wrap'][chr(f[1])](from_form(f[2], E))
    return None


class Plan(object):
    """what the user method does when it is invoked"""

    def __init__(self):
        self.log = []
        self.out = None
        self.deferred = None


PLAN = Plan()


def make_exc(x, E):
    cls_name, mode, text = x
    ns = {}
    if mode[0] == 'none':
        ns['dbusErrorName'] = None
    elif mode[0] == 'str':
        ns['dbusErrorName'] = mode[1]
    return type(cls_name, (Exception,), ns)(text)


def perform(E):
    out = PLAN.out
    kind = out[0]
    if kind == 'value':
        return from_form(out[1], E)
    if kind == 'fired':
        return E['defer'].succeed(from_form(out[1], E))
    if kind == 'raise':
        raise make_exc(out[1], E)
    if kind == 'failed':
        return E['defer'].fail(make_exc(out[1], E))
    PLAN.deferred = E['defer'].Deferred()
    return PLAN.deferred


_MISSING = object()


def make_func(pyname, fid, caller, E):
    params = ['self'] + ['a%d=_M' % i for i in range(NPARAMS)] + (['dbusCaller=_M'] if caller else [])
    src = 'def %s(%s):\n    return _rec(%d, [%s], %s)\n' % (
        'f', ', '.join(params), fid, ', '.join('a%d' % i for i in range(NPARAMS)), 'dbusCaller' if caller else '_N')

    def _rec(fid, args, cl):
        args = [a for a in args if a is not _MISSING]
        PLAN.log.append([fid, [mc.pv_form(a) for a in args], None if (cl is _NOCALLER or cl is _MISSING) else [cl]])     # _MISSING: wanted, not passed
        return perform(E)

    _NOCALLER = object()
    ns = {'_M': _MISSING, '_rec': _rec, '_N': _NOCALLER}
    exec(src, ns)
    f = ns['f']
    f.__name__ = pyname
    f.__qualname__ = pyname
    return f


def fresh_classes(case, E):
    """the Python classes of a case, built anew (the library caches on classes and functions)"""
    objects = E['objects']
    ifobjs = [E['DBusInterface'](n, *[E['Method'](m, i, o) for m, i, o in ms], noRegister=True)
              for n, ms in case['ifaces']]
    classes = []
    for k, cd in enumerate(case['classes']):
        bases = tuple(classes[b] for b in cd['bases']) or (objects.DBusObject,)
        ns = {}
        if cd['ifaces'] is not None:
            ns['dbusInterfaces'] = [ifobjs[i] for i in cd['ifaces']]
        for pyname, fid, deco, caller in cd['attrs']:
            f = make_func(pyname, fid, caller, E)
            if deco is not None:
                f = objects.dbusMethod(deco[0], deco[1])(f)
            ns[pyname] = f
        classes.append(type('C%d' % k, bases, ns))
    return classes


def build_world(case, E):
    """the model's view of a case (cached) and one set of classes used by the generators only"""
    key = json.dumps([case['ifaces'], case['classes'], case['objects']], sort_keys=True)
    w = E['worlds'].get(key)
    if w is not None:
        return w
    objects = E['objects']
    classes = fresh_classes(case, E)
    n = len(classes)
    # the model's view: classes (user classes, then DBusObject), objects as MRO index lists
    mcls = []
    for cd in case['classes']:
        ifs = None if cd['ifaces'] is None else [case['ifaces'][i] for i in cd['ifaces']]
        mcls.append([[] if ifs is None else [ifs], [[a[0], a[1], [] if a[2] is None else [a[2]], a[3]] for a in cd['attrs']]])
    mcls.append([[] if E['base_ifaces'] is None else [E['base_ifaces']],
                 [[a[0], a[1], [] if a[2] is None else [a[2]], a[3]] for a in E['base_attrs']]])
    mobjs = []
    for path, ci in case['objects']:
        mro = []
        for c in classes[ci].__mro__:
            if c is object:
                break
            mro.append(n if c is objects.DBusObject else classes.index(c))
        mobjs.append([path, mro])
    w = {'classes': classes, 'model_classes': common.dump(mcls), 'model_objects': common.dump(mobjs)}
    if len(E['worlds']) > 4000:
        E['worlds'].clear()
    E['worlds'][key] = w
    return w


# ---------------------------------------------------------------------------------------------
# observing the implementation
def obs_reply(sent, E):
    raw, obj = sent
    try:
        r = E['message'].parseMessage(raw, [])
    except Exception:
        # a reply whose body is shorter than its signature says (a returned value of the wrong arity):
        # header fields from the message object, body as sent
        r = obj
    t = type(r).__name__
    kind = {'MethodReturnMessage': 0, 'ErrorMessage': 1}.get(t, 9)
    name = getattr(r, 'error_name', None) if kind == 1 else None
    sig = r.signature or ''
    body = [0, bytes(r.rawBody)]
    if kind == 1 and sig == 's' and r.body and isinstance(r.body[0], str):
        body = [1, r.body[0].encode('utf-8')]
    return [kind, name, r.reply_serial, getattr(r, 'destination', None), sig, body]


def steps_of(case):
    return case['steps'] if case.get('steps') else [case]


def run_impl(case, E):
    """-> per step [escaped, replies now, invocations, replies after the Deferred fired]"""
    classes = fresh_classes(case, E)
    conn = E['Conn']()
    handler = E['objects'].DBusObjectHandler(conn)
    for (path, ci) in case['objects']:
        o = classes[ci](path)
        handler.exportObject(o)
    del conn.sent[:]
    return [run_step(step, handler, conn, E) for step in steps_of(case)]


def run_step(case, handler, conn, E):
    msg = E['message'].parseMessage(bytes(case['raw']), [])
    PLAN.log = []
    PLAN.out = case['out']
    PLAN.deferred = None
    escaped = 0
    prof = None
    if case.get('props') is not None:
        # DBusObject's own Properties methods: observed by a profile hook on their code objects
        codes = {getattr(E['objects'].DBusObject, a[0]).__code__: a[1] for a in E['base_attrs'] if a[2] is not None}

        def prof(frame, event, arg):
            if event == 'call' and frame.f_code in codes:
                co = frame.f_code
                PLAN.log.append([codes[co], [mc.pv_form(frame.f_locals[n]) for n in co.co_varnames[1:co.co_argcount]], None])
        sys.setprofile(prof)
    try:
        handler.handleMethodCallMessage(msg)
    except Exception:
        escaped = 1
    finally:
        if prof is not None:
            sys.setprofile(None)
    now = [obs_reply(r, E) for r in conn.sent]
    if case.get('props') is not None:
        # The refusal texts of DBusObject's OWN Properties methods are the library's wording, not a user
        # exception's text: the property fixes the error NAME and the addressing, so the text is canonicalised
        # to the one the case description carries (a reworded refusal is a harmless rewrite).
        want = case['out'][1][2] if case['out'][0] == 'raise' else None
        for r in now:
            if r[0] == 1 and r[1] == 'org.txdbus.PythonException.Exception' and r[5][0] == 1 and want is not None:
                r[5] = [1, want.encode('utf-8')]
    del conn.sent[:]
    later = []
    out = case['out']
    if out[0] == 'deferred' and out[1] is not None and PLAN.deferred is not None:
        d = PLAN.deferred
        try:
            if out[1][0] == 'value':
                d.callback(from_form(out[1][1], E))
            else:
                d.errback(make_exc(out[1][1], E))
        except Exception:
            escaped = 1
        later = [obs_reply(r, E) for r in conn.sent]
        if d.called and getattr(d, 'result', None) is not None and hasattr(d.result, 'trap'):
            d.addErrback(lambda f: None)        # consumed: keep the log quiet
        del conn.sent[:]
    invs = list(PLAN.log)
    return [escaped, now, invs, later]


# ---------------------------------------------------------------------------------------------
def has_surrogate(text):
    return any(0xD800 <= ord(ch) <= 0xDFFF for ch in text)


def model_text(text):
    """Model/Marshal.v carries str as UTF-8, which has no lone surrogates: for the model and the spec such a
    character is replaced by NUL - the other character a DBus string cannot hold (the message is then free)"""
    return ''.join('\0' if 0xD800 <= ord(ch) <= 0xDFFF else ch for ch in text)


def exn_sexp(x):
    cls_name, mode, text = x
    return [cls_name.encode('utf-8'), [mode[1].encode('utf-8')] if mode[0] == 'str' else [],
            model_text(text).encode('utf-8')]


def out_sexp(out):
    k = out[0]
    if k in ('value', 'fired'):
        return [0, out[1]]
    if k in ('raise', 'failed'):
        return [1, exn_sexp(out[1])]
    return [2]


def later_sexp(out):
    if out[0] != 'deferred' or out[1] is None:
        return []
    if out[1][0] == 'value':
        return [[0, out[1][1]]]
    return [[1, exn_sexp(out[1][1])]]


def reply_sexp(r):
    kind, name, serial, dest, sig, body = r
    return [kind, [] if name is None else [name.encode('utf-8')], serial, [] if dest is None else [dest.encode('utf-8')],
            sig.encode('utf-8'), body]


def inv_sexp(v):
    fid, args, cl = v
    return [fid, args, [] if cl is None else [[] if cl[0] is None else [cl[0].encode('utf-8')]]]


def s(b):
    return b.decode('utf-8', 'replace') if isinstance(b, (bytes, bytearray)) else b


def m_reply(r):
    kind, name, serial, dest, sig, body = r
    return [kind, s(name[0]) if name else None, serial, s(dest[0]) if dest else None, s(sig), list(body)]


def m_inv(v):
    fid, args, cl = v
    return [fid, args, None if not cl else [s(cl[0][0]) if cl[0] else None]]


def m_obs(o):
    return [o[0], [m_reply(r) for r in o[1]], [m_inv(v) for v in o[2]], [m_reply(r) for r in o[3]]]


def exn_text(case):
    out = case['out']
    if out[0] in ('raise', 'failed'):
        return out[1][2]
    if out[0] == 'deferred' and out[1] is not None and out[1][0] == 'fail':
        return out[1][1][2]
    return None


def canon(impl, model, case):
    """the two observations in comparable form: what the model leaves open is left open on both sides"""
    text = exn_text(case)
    free_text = text is not None and has_surrogate(text)
    tb = None if text is None else model_text(text).encode('utf-8')

    def fix(ri, rm):
        ri, rm = list(ri), list(rm)
        if rm[0] == 2:                    # error named after the marshaller's exception
            if ri[0] == 1 and (ri[1] or '').startswith(PYEXC):
                ri[0], ri[1] = 2, None
            ri[5] = rm[5] = [2]
        if rm[5] == [2]:
            ri[5] = [2]
        if free_text and rm[5][0] == 1 and ri[5][0] == 1:
            ri[5] = rm[5] = ['text-with-escaped-surrogates']
        if rm[1] == INVALID_NAME and ri[1] == INVALID_NAME and tb is not None:
            for r in (ri, rm):
                if r[5][0] == 1:
                    r[5] = ['ends-with-text', bytes(r[5][1]).endswith(tb)]
        if ri[5][0] in (0, 1):
            ri[5] = [ri[5][0], bytes(ri[5][1])]
        if rm[5][0] in (0, 1):
            rm[5] = [rm[5][0], bytes(rm[5][1])]
        return ri, rm

    out_i, out_m = [impl[0]], [model[0]]
    for idx in (1, 3):
        li, lm = impl[idx], model[idx]
        if len(li) != len(lm):
            out_i.append(li)
            out_m.append(lm)
            continue
        pairs = [fix(a, b) for a, b in zip(li, lm)]
        out_i.append([p[0] for p in pairs])
        out_m.append([p[1] for p in pairs])
    out_i.insert(2, impl[2])
    out_m.insert(2, model[2])
    return out_i, out_m


def decls_of(case, path, E):
    """[[name, members], ...] declared by the classes of the object exported at path, most derived class first
    (user classes only), or None when nothing is exported there"""
    ci = {p: c for p, c in case['objects']}.get(path)
    if ci is None:
        return None
    w = build_world(case, E)
    out = []
    for c in w['classes'][ci].__mro__:
        if c in w['classes']:
            cd = case['classes'][w['classes'].index(c)]
            if cd['ifaces'] is not None:
                out += [case['ifaces'][i] for i in cd['ifaces']]
    return out


def redeclared(case, step, E):
    """-> None: the addressed object declares no interface name twice (or the description of the call is missing);
    True: it does, and every reading of a re-declared interface gives this call the same target (ASSUMPTIONS);
    False: it does, and the readings differ"""
    call = step.get('call')
    if not call:
        return None
    decls = decls_of(case, call['path'], E)
    if decls is None:
        return None
    names = [d[0] for d in decls]
    if len(set(names)) == len(names):
        return None
    if call.get('sender') is not None and not re.fullmatch(r':1\.[0-9]+', str(call.get('sender'))):
        return False            # only calls whose sender is absent or a unique name (the other hypothesis) are judged
    member = call['member']

    def sigs(d):
        return [[m[1], m[2]] for m in d[1] if m[0] == member][:1]

    def name_clear(n):
        dn = [d for d in decls if d[0] == n]
        having = [d for d in dn if sigs(d)]
        return not having or (bool(sigs(dn[0])) and all(sigs(d) == sigs(dn[0]) for d in having))
    iface = call.get('iface')
    if iface:
        return name_clear(iface)
    having = [k for k, d in enumerate(decls) if sigs(d)]
    if not having:
        return True
    p = having[0]
    n = decls[p][0]
    if names.index(n) != p or not name_clear(n):
        return False
    return all(names.index(decls[k][0]) > p for k in having if decls[k][0] != n)


class PerSignature(object):
    def __init__(self, res, limit=10):
        self.res = res
        self.limit = limit

    def violate(self, case, why, signature):
        seen = self.res.extra.setdefault('violations_by_signature', {})
        seen[signature] = seen.get(signature, 0) + 1
        if seen[signature] <= self.limit:
            self.res.violate(case, why, signature)


def norm_case(c):
    c = dict(c)
    if c.get('steps'):
        c['steps'] = [norm_case(st) for st in c['steps']]
        return c
    c['raw'] = bytes(c['raw'])

    def fx(f):
        if isinstance(f, (bytes, bytearray)):
            return bytes(f)
        if isinstance(f, list):
            return [fx(x) for x in f]
        return f
    c['out'] = fx(c['out'])
    return c


def evaluate(ctx, cases, res):
    E = env()
    cases = [norm_case(c) for c in cases]
    impls = []
    lines = []
    for c in cases:
        w = build_world(c, E)
        ios = run_impl(c, E)
        impls.append(ios)
        for st, io in zip(steps_of(c), ios):
            iobs = [io[0], [reply_sexp(r) for r in io[1]], [inv_sexp(v) for v in io[2]], [reply_sexp(r) for r in io[3]]]
            lines.append('(10 %s %s %s %s %s %s)' % (w['model_classes'], w['model_objects'], common.dump(st['raw']),
                                                     common.dump(out_sexp(st['out'])), common.dump(later_sexp(st['out'])),
                                                     common.dump(iobs)))
    outs = common.run_model(lines)
    vres = PerSignature(res)
    dist = res.extra.setdefault('distribution', {})
    lv = res.extra.setdefault('legacy_variants_distinguished', {'parse flags ignored (D04)': 0, 'error text not a DBus string (D30)': 0})

    def bump(k):
        dist[k] = dist.get(k, 0) + 1
    pos = 0
    for c, ios in zip(cases, impls):
        steps = steps_of(c)
        seq = bool(c.get('steps'))
        if seq:
            bump('sequences')
        res.count(c, nontrivial=any(bool(io[1]) or bool(io[2]) or bool(io[3]) for io in ios))
        res.evaluations += len(steps) - 1
        for k, (st, io) in enumerate(zip(steps, ios)):
            mo = outs[pos]
            pos += 1
            # what is reported for a failing step: the sequence up to and including it
            rc = dict(c, steps=steps[:k + 1]) if seq else c
            where = 'step %d of %d: ' % (k + 1, len(steps)) if seq else ''
            if mo == [-1]:
                raise RuntimeError('model rejected input %r' % (st.get('call'),))
            if mo[0] == 0:
                res.disagree(rc, io, ['model could not parse the call', mo[1]])
                continue
            _, wf, cur, leg_flags, leg_text, (v_impl, v_model), target, cands, unmodelled = mo
            if unmodelled:
                # the returned value is one Model/Marshal.v declares unmodelled (an int where a double is declared ...)
                bump('encoder-unmodelled (not compared)')
                continue
            cur = m_obs(cur)
            ci, cm = canon(io, cur, st)
            res.traces += 1
            if seq:
                bump('sequence-steps')
            bump('target:%s' % ['no-object', 'no-method', 'bad-args', 'method', 'built-in'][target])
            bump('outcome:%s' % (st['out'][0] if st['out'][0] != 'deferred' else 'deferred-' + (st['out'][1][0] if st['out'][1] else 'open')))
            if io[2]:
                bump('invoked')
            if (st.get('call') or {}).get('xfield'):
                bump('unknown-header-field')
            if m_obs(leg_flags) != cur:
                lv['parse flags ignored (D04)'] += 1
            if m_obs(leg_text) != cur:
                lv['error text not a DBus string (D30)'] += 1
            rd = None if wf else redeclared(c, st, E)
            if rd is not None:
                bump('redeclared: judged' if rd else 'redeclared: left open')
            if rd is False:
                continue        # the property does not say which declaration counts here: not compared at all
            if ci != cm:
                res.disagree(rc, [where + 'implementation', ci], [where + 'model', cm])
            if wf or rd:
                if v_model != 0:
                    res.disagree(rc, ['spec verdict on the model observation', v_model], ['expected', 0], what='spec')
                if v_impl != 0:
                    why, sig = VERDICTS.get(v_impl, ('verdict %r' % v_impl, 'verdict:%r' % v_impl))
                    vres.violate(rc, '%s%s; call %r outcome %r observed [escaped, replies, invocations, later replies] = %r'
                                 % (where, why, st.get('call'), st['out'], io), sig)
            else:
                bump('outside-hypotheses')


# ---------------------------------------------------------------------------------------------
# generators
ARG_TYPES = ['i', 's', 'b', 'u', 'y', 'd', 'o', 'x', 'as', 'ai', '(is)', 'a{si}', 'v', 'ay', '(i(sb))', 'aai', 'g', 'q', 't', 'n']


def parse_types(sig, E):
    return list(E['marshal'].genCompleteTypes(sig))


def tree_of(ct):
    """complete type string -> marshal_common type tree"""
    def p(sx, i):
        c = sx[i]
        if c == 'a':
            t, j = p(sx, i + 1)
            return ['a', t], j
        if c == '(':
            ts = []
            i += 1
            while sx[i] != ')':
                t, i = p(sx, i)
                ts.append(t)
            return ['(', ts], i + 1
        if c == '{':
            k, j = p(sx, i + 1)
            v, j = p(sx, j)
            return ['{', k, v], j + 1
        return c, i + 1
    return p(ct, 0)[0]


def gen_sig(rng, nmax=2):
    n = rng.choice([0, 1, 1, 1, 2, 2, 3][:3 + 2 * nmax])
    return ''.join(rng.choice(ARG_TYPES) for _ in range(n))


def gen_value(rng, ct, E, strict=False):
    """(python value, form) of complete type ct"""
    t = tree_of(ct)
    sh = mc.Shapes(rng, E['marshal'])
    for _ in range(20):
        w = mc.gen_w(rng, t, 2, mc.FdCounter())
        v = sh.py(t, w, strict)
        if v is None or mc.has_none(v):
            continue
        try:
            return v, mc.pv_form(v)
        except TypeError:
            continue
    return 0, [0, 0]


JUNK = [[10], [0, 7], [3, b'x'], [0, 2 ** 70], [0, -1], [5, []], [6, [[0, 1], [0, 2], [0, 3]]], [6, [[0, 1]]], [2, 0x3ff8000000000000],
        [5, [[3, b'a'], [0, 1]]], [7, [[[3, b'k'], [10]]]], [3, b'a\x00b'], [4, b'\x01\x02'], [5, [[10]]], [3, b'/not a path'],
        [6, [[3, b's'], [3, b't']]], [1, 1]]
EXC_CLASSES = ['ValueError', 'KeyError', 'MyError', 'Err_1', 'Bad-Name', '9lives', 'CaféError', 'X']
EXC_NAMES = ['org.my.Error', 'a.b', 'org.freedesktop.DBus.Error.Failed', 'com.x.E1_', 'bad name', 'nodots', 'a..b', 'org.x.',
             '.a.b', 'a.1b', 'org.x.' + 'y' * 250, '', 'a.b\x00c', 'org.é.x']
EXC_TEXTS = ['', 'boom', 'two words', 'café 日本', 'a\x00b', '\x00', 'x' * 70, '!!', 'line\nbreak', 'lone\udc80surrogate']


def gen_exn(rng):
    r = rng.random()
    mode = ['absent'] if r < 0.45 else (['none'] if r < 0.55 else ['str', rng.choice(EXC_NAMES)])
    return [rng.choice(EXC_CLASSES), mode, rng.choice(EXC_TEXTS)]


def junk_for(rng, ct):
    """a value that is not of complete type ct, within the domain on which Model/Marshal.v was validated against
    marshal.py (no str / bytes where a container is expected: marshal.py iterates them)"""
    c = ct[0]
    if c in 'ynqiuxth':
        return rng.choice([[3, b'x'], [10], [0, 2 ** 70], [5, []], [0, -(2 ** 65)]])
    if c in 'bd':
        return rng.choice([[3, b'x'], [10], [5, []]])
    if c in 'sog':
        return rng.choice([[0, 7], [10], [3, b'a\x00b'], [5, []], [3, b'not a path or sig (']])
    if c == 'v':
        return [10]
    return rng.choice([[0, 7], [10], [2, 0x3ff8000000000000]])


def gen_ret(rng, sig_out, E, conforming):
    """form of a returned value for the declared return signature"""
    cts = parse_types(sig_out, E)
    if not conforming:
        if not cts:
            return rng.choice(JUNK)
        forms = [gen_value(rng, ct, E)[1] for ct in cts]
        r = rng.random()
        if len(cts) == 1:
            return junk_for(rng, cts[0])
        k = rng.randrange(len(forms))
        bad = list(forms)
        if r < 0.6:
            bad[k] = junk_for(rng, cts[k])
        elif r < 0.75:
            bad = bad[:-1]
        elif r < 0.9:
            bad = bad + [[0, 1]]
        else:
            return rng.choice([[0, 7], [10]])
        return [rng.choice([5, 6]), bad]
    if not cts:
        return [10] if rng.random() < 0.8 else rng.choice(JUNK)
    forms = [gen_value(rng, ct, E)[1] for ct in cts]
    if len(cts) == 1:
        return forms[0]
    return [rng.choice([5, 6]), forms]


def gen_out(rng, sig_out, E):
    r = rng.random()
    if r < 0.34:
        return ['value', gen_ret(rng, sig_out, E, True)]
    if r < 0.46:
        return ['value', gen_ret(rng, sig_out, E, False)]
    if r < 0.62:
        return ['raise', gen_exn(rng)]
    if r < 0.68:
        return ['fired', gen_ret(rng, sig_out, E, rng.random() < 0.8)]
    if r < 0.73:
        return ['failed', gen_exn(rng)]
    if r < 0.85:
        return ['deferred', ['value', gen_ret(rng, sig_out, E, rng.random() < 0.75)]]
    if r < 0.96:
        return ['deferred', ['fail', gen_exn(rng)]]
    return ['deferred', None]


def gen_world(rng, E):
    nif = rng.choice([1, 2, 2, 3, 3, 4])
    ifaces = []
    for n in rng.sample(IFACE_NAMES, nif):
        ms = rng.sample(MEMBERS, rng.choice([1, 2, 2, 3]))
        ifaces.append([n, [[m, gen_sig(rng), gen_sig(rng)] for m in ms]])
    pairs = [(i[0], m[0]) for i in ifaces for m in i[1]]
    ncls = rng.choice([1, 1, 2, 2, 3, 4])
    classes = []
    fid = [0]
    pynames = ['impl_a', 'impl_b', 'on_call', 'handler']

    def new_attr(pyname, deco, caller=None):
        fid[0] += 1
        return [pyname, fid[0], deco, (rng.random() < 0.3) if caller is None else caller]
    declared_so_far = set()
    for k in range(ncls):
        bases = sorted(rng.sample(range(k), min(k, rng.choice([0, 1, 1, 2])))) if k else []
        if k and not bases and rng.random() < 0.7:
            bases = [k - 1]
        own = None
        if rng.random() < 0.75 or k == 0:
            own = sorted(rng.sample(range(nif), rng.choice([1, 1, 2]) if nif > 1 else 1))
            if rng.random() > 0.05:
                own = [i for i in own if i not in declared_so_far] or None
            declared_so_far.update(own or [])
        attrs = {}
        for (iname, member) in pairs:
            r = rng.random()
            if r < 0.30:
                a = new_attr('dbus_' + member, None)
            elif r < 0.58:
                a = new_attr(rng.choice(pynames + ['m_' + member + '_' + iname[-1]]), [iname, member])
            elif r < 0.62:
                a = new_attr('dbus_' + member, [iname, member])
            elif r < 0.64:
                a = new_attr('dbus_' + member, [iname, rng.choice(MEMBERS)])
            elif r < 0.68:
                a = new_attr(rng.choice(pynames), None)          # plain helper, may override a decorated name of a base
            elif r < 0.70:
                a = new_attr(rng.choice(pynames), ['org.ex.Z', member])
            else:
                continue
            if a[0] in attrs and rng.random() < 0.7:
                continue
            attrs[a[0]] = a
        classes.append({'bases': bases, 'ifaces': own, 'attrs': list(attrs.values())})
    # exported objects; classes whose bases give an inconsistent MRO are dropped by the caller
    nobj = rng.choice([1, 1, 2, 3])
    paths = rng.sample(PATHS, nobj)
    objs = [[p, rng.randrange(ncls) if rng.random() < 0.4 else ncls - 1] for p in paths]
    return {'ifaces': ifaces, 'classes': classes, 'objects': objs}


def world_ok(w, E):
    try:
        build_world(dict(w), E)
        return True
    except TypeError:
        return False


def ideal_ifaces(w, ci, E):
    """declared interfaces of class ci in getInterfaces() order (through the real MRO)"""
    bw = build_world(w, E)
    cls = bw['classes'][ci]
    out = []
    for c in cls.__mro__:
        if c is object:
            break
        if c is E['objects'].DBusObject:
            out += [[PROPS, [['Get', 'ss', 'v'], ['Set', 'ssv', ''], ['GetAll', 's', 'a{sv}']]]]
        else:
            cd = w['classes'][bw['classes'].index(c)]
            if cd['ifaces'] is not None:
                out += [w['ifaces'][i] for i in cd['ifaces']]
    return out


def build_call(E, path, member, iface, sig, body_forms, sender, expect, xfield=None):
    """xfield = [code, 's' | 'u', value, 'front' | 'mid']: a header field with a code the library does not know
    (to be ignored, DBus spec), placed first or just before the DESTINATION / SENDER / SIGNATURE fields"""
    body = [from_form(f, E) for f in body_forms] if sig else None
    m = E['message'].MethodCallMessage(path, member, interface=iface or None, signature=sig, body=body, expectReply=expect)
    if sender is not None or iface == '':
        if sender is not None:
            m.sender = sender
        if iface == '':
            m.interface = ''          # an empty interface header field (the constructor would refuse it)
        m._marshal(False)
    if xfield is None:
        return bytes(m.rawMessage)
    code, kind, value, where = xfield
    hdrs = [list(h) for h in m.headers]
    pos = 0
    if where == 'mid':
        pos = next((k for k, h in enumerate(hdrs) if h[0] in (6, 7, 8)), len(hdrs))
    hdrs.insert(pos, [code, value if kind == 's' else E['marshal'].UInt32(value)])
    raw0 = bytes(m.rawMessage)
    hdr = b''.join(E['marshal'].marshal('yyyyuua(yv)', [raw0[0], raw0[1], raw0[2], raw0[3], m.bodyLength, m.serial, hdrs],
                                        lendian=True)[1])
    return hdr + b'\0' * (-len(hdr) % 8) + bytes(m.rawBody)


def gen_call(rng, w, E):
    """-> (call description, addressed return signature or None, props fid or None)"""
    exported = {p: ci for p, ci in w['objects']}
    r = rng.random()
    if r < 0.86:
        path = rng.choice(sorted(exported))
    else:
        path = rng.choice([p for p in PATHS + ['/a/b/c', '/zz'] if p not in exported] or ['/zz'])
    ifs = ideal_ifaces(w, exported[path], E) if path in exported else [rng.choice(w['ifaces'])]
    user_ifs = [i for i in ifs if i[0] != PROPS] or ifs
    r = rng.random()
    props = None
    sig_out = None
    if r < 0.05:
        iface, member, sig_in = rng.choice([(PEER, 'Ping', ''), (INTRO, 'Introspect', ''), (OM, 'GetManagedObjects', '')])
        with_iface = True
        msig = sig_in if rng.random() < 0.9 else 'i'
    elif r < 0.10:
        member, sig_in, sig_out = rng.choice([('Get', 'ss', 'v'), ('Set', 'ssv', ''), ('GetAll', 's', 'a{sv}')])
        iface = PROPS
        with_iface = rng.random() < 0.7
        msig = sig_in if rng.random() < 0.85 else rng.choice(['', 's', 'i'])
        props = member
    else:
        i = rng.choice(user_ifs)
        m = rng.choice(i[1]) if i[1] else ['Foo', '', '']
        iface, member, sig_in, sig_out = i[0], m[0], m[1], m[2]
        rr = rng.random()
        if rr < 0.08:
            member = rng.choice(MEMBERS + ['Nope'])                  # maybe not on that interface
        elif rr < 0.13:
            iface = rng.choice(IFACE_NAMES + ['org.ex.None'])         # maybe another / unknown interface
        with_iface = rng.random() < 0.62
        rs = rng.random()
        if rs < 0.82:
            msig = sig_in
        elif rs < 0.9:
            msig = gen_sig(rng)
        elif rs < 0.95:
            msig = sig_in + 'i'
        else:
            msig = sig_in[:-1] if sig_in and sig_in[-1] not in ')}' else ''
            try:
                parse_types(msig, E)
            except Exception:
                msig = ''
    if member in ('Get', 'Set', 'GetAll') and (iface == PROPS or not with_iface):
        props = member
    try:
        cts = parse_types(msig, E)
    except Exception:
        msig, cts = '', []
    body = [gen_value(rng, ct, E)[1] for ct in cts]
    if props and msig in ('ss', 's', 'ssv'):
        body = [[3, b'org.ex.A'], [3, b'nope'], [0, 1]][:len(cts)]
    r = rng.random()
    sender = SENDER if r < 0.86 else (None if r < 0.95 else rng.choice(['bad', 'org..x', ':1.']))
    expect = rng.random() < 0.68
    sigarg = msig if (msig or rng.random() < 0.5) else None
    call = {'path': path, 'iface': iface if with_iface else ('' if rng.random() < 0.06 else None), 'member': member,
            'sig': sigarg, 'body': body, 'sender': sender, 'expect': expect}
    if rng.random() < 0.15:
        call['xfield'] = gen_xfield(rng)
    if rng.random() < 0.3:
        call['serial'] = gen_serial(rng)
    return call, sig_out, props


SERIAL_EDGES = [1, 2, 0xff, 0x100, 0xffff, 0x10000, 2 ** 31 - 1, 2 ** 31, 2 ** 31 + 1, 2 ** 32 - 2, 2 ** 32 - 1]


def gen_serial(rng):
    """a serial a caller may use: any non-zero UINT32 (callers that have been running for long, or that do not count
    up from 1), boundary values and both halves of the range"""
    r = rng.random()
    if r < 0.4:
        return rng.choice(SERIAL_EDGES)
    if r < 0.7:
        return rng.randrange(2 ** 31, 2 ** 32)
    return rng.randrange(1, 2 ** 32)


def gen_xfield(rng):
    kind = rng.choice('su')
    return [rng.choice([16, 10, 42, 200, 255]), kind, 'junk' if kind == 's' else rng.choice([0, 5, 2 ** 32 - 1]),
            rng.choice(['front', 'mid', 'mid'])]


def props_fid(member, E):
    name = {'Get': '_dbus_PropertyGet', 'Set': '_dbus_PropertySet', 'GetAll': '_dbus_PropertyGetAll'}[member]
    for a in E['base_attrs']:
        if a[0] == name:
            return a[1]
    return None


def props_out(member):
    if member == 'GetAll':
        return ['value', [7, []]]
    return ['raise', ['Exception', ['absent'], 'Invalid Property']]


def make_case(w, call, out, E, props=None):
    raw = bytearray(build_call(E, call['path'], call['member'], call['iface'], call['sig'], call['body'], call['sender'],
                               call['expect'], call.get('xfield')))
    # other header flag bits (NO_AUTO_START 0x2, ALLOW_INTERACTIVE_AUTHORIZATION 0x4) in combination with the
    # no-reply bit: whether a reply is expected depends on bit 0x1 alone
    raw[2] |= (0, 0, 2, 4, 6)[(len(raw) + raw[8] + 3 * len(call['member'])) % 5]
    if call.get('serial') is not None:
        # the serial the CALLER chose: any non-zero UINT32 (bytes 8..11 of the fixed header, in the message's byte order)
        raw[8:12] = struct.pack('<I' if raw[0] == 0x6c else '>I', call['serial'])
    c = {'ifaces': w['ifaces'], 'classes': w['classes'], 'objects': w['objects'], 'call': call, 'out': out, 'raw': bytes(raw)}
    if props is not None:
        c['props'] = props_fid(props, E)
        c['out'] = props_out(props)
    return c


def gen_random(ctx, count, E):
    rng = ctx.rng
    made = 0
    while made < count:
        w = gen_world(rng, E)
        if not world_ok(w, E):
            continue
        for _ in range(rng.choice([4, 8, 12])):
            call, sig_out, props = gen_call(rng, w, E)
            out = gen_out(rng, sig_out if sig_out is not None else gen_sig(rng), E)
            yield make_case(w, call, out, E, props)
            made += 1


# fixed small worlds, every call of a grid
def small_worlds():
    A = ['org.ex.A', [['Foo', 'i', 'i'], ['Bar', '', '']]]
    B = ['org.ex.B', [['Foo', 's', 'ss'], ['Baz', '', 's']]]
    return [
        # both styles in one class, Foo on two interfaces
        {'ifaces': [A, B],
         'classes': [{'bases': [], 'ifaces': [0, 1],
                      'attrs': [['impl_a', 1, ['org.ex.A', 'Foo'], False], ['impl_b', 2, ['org.ex.B', 'Foo'], True],
                                ['dbus_Bar', 3, None, False], ['dbus_Baz', 4, None, True]]}],
         'objects': [['/a', 0]]},
        # inherited interface, dbus_Foo serving both interfaces, decorated override in the subclass
        {'ifaces': [A, B],
         'classes': [{'bases': [], 'ifaces': [0], 'attrs': [['dbus_Foo', 1, None, False], ['bar', 2, ['org.ex.A', 'Bar'], False]]},
                     {'bases': [0], 'ifaces': [1], 'attrs': [['bar', 3, None, True], ['dbus_Baz', 4, None, False]]}],
         'objects': [['/a', 1], ['/', 0]]},
        # decorated dbus_Foo tied to one interface, nothing bound for the other
        {'ifaces': [A, B],
         'classes': [{'bases': [], 'ifaces': [1, 0], 'attrs': [['dbus_Foo', 1, ['org.ex.A', 'Foo'], True]]}],
         'objects': [['/a/b', 0]]},
    ]


def small_outs():
    return [['value', [0, 5]], ['value', [6, [[3, b'x'], [3, b'y']]]], ['value', [10]], ['value', [3, b'z']],
            ['raise', ['ValueError', ['absent'], 'boom']], ['raise', ['E', ['str', 'org.my.E'], 'a\x00b']],
            ['raise', ['Bad-Name', ['absent'], 'why']], ['raise', ['ValueError', ['absent'], 'lone\udc80surrogate']],
            ['fired', [0, 5]], ['failed', ['KeyError', ['str', 'bad name'], 't']],
            ['deferred', ['value', [6, [[3, b'x'], [3, b'y']]]]], ['deferred', ['fail', ['X', ['none'], '']]],
            ['deferred', ['value', [0, 2 ** 40]]], ['deferred', None]]


def gen_small(ctx, E, stride):
    k = 0
    for w in small_worlds():
        paths = sorted({p for p, _ in w['objects']}) + ['/zz']
        for path in paths:
            for iface in (None, 'org.ex.A', 'org.ex.B', 'org.ex.C'):
                for member in ('Foo', 'Bar', 'Baz', 'Nope'):
                    for sig, body in ((None, []), ('i', [[0, 7]]), ('s', [[3, b'q']])):
                        for expect in (True, False):
                            for out in small_outs():
                                k += 1
                                if k % stride:
                                    continue
                                call = {'path': path, 'iface': iface, 'member': member, 'sig': sig, 'body': body,
                                        'sender': SENDER, 'expect': expect}
                                if k % 7 == 0:
                                    call['xfield'] = [16, 's', 'junk', 'mid'] if k % 2 else [16, 'u', 5, 'front']
                                yield make_case(w, call, out, E)


def gen_builtin(ctx, E):
    w = small_worlds()[1]
    for path in ('/a', '/', '/zz', '/a/b'):
        for iface, member in ((PEER, 'Ping'), (INTRO, 'Introspect'), (OM, 'GetManagedObjects'), (PROPS, 'GetAll'), (PROPS, 'Get'),
                              (None, 'GetAll'), (None, 'Ping'), (None, 'Introspect')):
            for expect in (True, False):
                for sender in (SENDER, None):
                    props = member if member in ('Get', 'GetAll') and iface in (PROPS, None) else None
                    sig, body = {'GetAll': ('s', [[3, b'org.ex.A']]), 'Get': ('ss', [[3, b'org.ex.A'], [3, b'p']])}.get(member, (None, []))
                    call = {'path': path, 'iface': iface, 'member': member, 'sig': sig, 'body': body, 'sender': sender,
                            'expect': expect}
                    yield make_case(w, call, ['value', [10]], E, props)


def gen_serial_grid(ctx, E):
    """the whole range of serials a caller may put on a call (non-zero UINT32: small, around 2**31, the largest, and
    random ones from either half) x every kind of target (implementation, unknown object / member, wrong signature,
    handler's own built-ins, Properties) x every kind of outcome x reply expected or not, on one small world"""
    rng = ctx.rng
    w = small_worlds()[0]
    serials = [1, 2 ** 31 - 1, 2 ** 31, 2 ** 32 - 1, rng.randrange(2 ** 31, 2 ** 32), rng.randrange(2 ** 31, 2 ** 32),
               rng.randrange(1, 2 ** 31)]
    outs = [['value', [0, 5]], ['value', [3, b'z']], ['raise', ['ValueError', ['absent'], 'boom']],
            ['raise', ['E', ['str', 'org.my.E'], 'why']], ['raise', ['Bad-Name', ['absent'], 'why']],
            ['fired', [0, 5]], ['failed', ['KeyError', ['none'], 't']], ['deferred', ['value', [0, 6]]],
            ['deferred', ['fail', ['X', ['str', 'bad name'], 'later']]], ['deferred', None]]
    targets = [('/a', 'org.ex.A', 'Foo', 'i', [[0, 7]], None, o) for o in outs]
    targets += [('/zz', 'org.ex.A', 'Foo', 'i', [[0, 7]], None, outs[0]), ('/a', 'org.ex.A', 'Nope', 'i', [[0, 7]], None, outs[0]),
                ('/a', None, 'Nope', None, [], None, outs[0]), ('/a', 'org.ex.A', 'Foo', 's', [[3, b'q']], None, outs[0]),
                ('/a', None, 'Foo', None, [], None, outs[0]),
                ('/a', PEER, 'Ping', None, [], None, outs[0]), ('/a', INTRO, 'Introspect', None, [], None, outs[0]),
                ('/', OM, 'GetManagedObjects', None, [], None, outs[0]),
                ('/a', PROPS, 'GetAll', 's', [[3, b'org.ex.A']], 'GetAll', outs[0]),
                ('/a', PROPS, 'Get', 'ss', [[3, b'org.ex.A'], [3, b'p']], 'Get', outs[0])]
    for serial in serials:
        for path, iface, member, sig, body, props, out in targets:
            for expect in (True, False):
                call = {'path': path, 'iface': iface, 'member': member, 'sig': sig, 'body': body, 'sender': SENDER,
                        'expect': expect, 'serial': serial}
                yield make_case(w, call, out, E, props)


def as_sequence(w, cases):
    """single-call cases on one world -> one sequence case"""
    return {'ifaces': w['ifaces'], 'classes': w['classes'], 'objects': w['objects'],
            'steps': [{k: c[k] for k in ('raw', 'call', 'out', 'props') if k in c} for c in cases]}


def caller_worlds():
    """one member name (Who) on two interfaces of one class, the two bindings differing in style and in whether
    they ask for dbusCaller; two objects of that class and one of a subclass overriding one implementation"""
    A = ['org.ex.A', [['Who', 's', 's'], ['Bar', '', '']]]
    B = ['org.ex.B', [['Who', 's', 's']]]
    for ca in (False, True):
        for cb in (False, True):
            for style in range(4):
                if style == 0:        # two decorated functions
                    attrs = [['impl_a', 1, ['org.ex.A', 'Who'], ca], ['impl_b', 2, ['org.ex.B', 'Who'], cb]]
                elif style == 1:      # a decorated dbus_Who tied to A, a decorated function for B
                    attrs = [['dbus_Who', 1, ['org.ex.A', 'Who'], ca], ['impl_b', 2, ['org.ex.B', 'Who'], cb]]
                elif style == 2:      # declared in the other order
                    attrs = [['impl_b', 2, ['org.ex.B', 'Who'], cb], ['impl_a', 1, ['org.ex.A', 'Who'], ca]]
                else:                 # a plain dbus_Who serving both interfaces, and a decorated one that it hides
                    attrs = [['dbus_Who', 1, None, ca], ['impl_b', 2, ['org.ex.B', 'Who'], cb]]
                yield {'ifaces': [A, B],
                       'classes': [{'bases': [], 'ifaces': [0, 1], 'attrs': attrs + [['dbus_Bar', 3, None, cb]]},
                                   # the subclass overrides impl_b (undecorated, other dbusCaller wish)
                                   {'bases': [0], 'ifaces': None, 'attrs': [['impl_b', 4, None, not cb]]}],
                       'objects': [['/a', 0], ['/b', 0], ['/sub', 1]]}


def gen_caller_sequences(ctx, E, n3):
    """every 2-call sequence over (object, interface) on the caller worlds, and n3 random 3-call ones per world"""
    rng = ctx.rng
    targets = [(p, i) for p in ('/a', '/b', '/sub') for i in ('org.ex.A', 'org.ex.B', None)]

    def one(w, p, i, k):
        sender = ':1.%d' % (10 + k)
        call = {'path': p, 'iface': i, 'member': 'Who', 'sig': 's', 'body': [[3, b'hi']], 'sender': sender, 'expect': True}
        return make_case(w, call, ['value', [3, ('r%d' % k).encode()]], E)
    for w in caller_worlds():
        for t1 in targets:
            for t2 in targets:
                yield as_sequence(w, [one(w, t1[0], t1[1], 0), one(w, t2[0], t2[1], 1)])
        for _ in range(n3):
            ts = [rng.choice(targets) for _ in range(3)]
            yield as_sequence(w, [one(w, t[0], t[1], k) for k, t in enumerate(ts)])


def gen_random_sequences(ctx, count, E):
    """2-3 random calls on one random world (worlds as in gen_random; an object path may be exported from the same
    class as another one)"""
    rng = ctx.rng
    made = 0
    while made < count:
        w = gen_world(rng, E)
        if rng.random() < 0.5 and len(w['objects']) < len(PATHS):
            # a second object of the class of the first
            w['objects'] = w['objects'] + [[[p for p in PATHS if p not in [q for q, _ in w['objects']]][0], w['objects'][0][1]]]
        if not world_ok(w, E):
            continue
        for _ in range(rng.choice([2, 4])):
            cases = []
            for _ in range(rng.choice([2, 3, 3])):
                call, sig_out, props = gen_call(rng, w, E)
                out = gen_out(rng, sig_out if sig_out is not None else gen_sig(rng), E)
                cases.append(make_case(w, call, out, E, props))
            yield as_sequence(w, cases)
            made += 1


def redeclare(rng, w, E):
    """a class with bases re-declares, under the same name, an interface that one of its ancestors declares: a newer
    revision with members added, dropped, or with changed signatures; implementations for what is new are bound in
    the re-declaring class; an object of that class is exported.  -> the re-declared name, or None"""
    ncls = len(w['classes'])
    ks = [k for k in range(ncls) if w['classes'][k]['bases']]
    if not ks or rng.random() < 0.3:
        w['classes'].append({'bases': [rng.randrange(ncls)], 'ifaces': None, 'attrs': []})
        ks = [ncls]
        if not world_ok(w, E):
            return None
    k = rng.choice(ks)
    inherited = [i for i in ideal_ifaces(w, k, E) if i[0] != PROPS and i not in
                 [w['ifaces'][x] for x in (w['classes'][k]['ifaces'] or [])]]
    if not inherited:
        return None
    old = rng.choice(inherited)
    members = [list(m) for m in old[1]]
    fid = max([a[1] for cd in w['classes'] for a in cd['attrs']] + [0])
    attrs = {a[0]: a for a in w['classes'][k]['attrs']}
    muts = rng.sample(['add', 'add', 'drop', 'sig_in', 'sig_out'], rng.choice([1, 1, 2, 3]))
    for mu in muts:
        if mu == 'add':
            free = [m for m in MEMBERS + ['Extra'] if m not in [x[0] for x in members]]
            if not free:
                continue
            m = rng.choice(free)
            members.insert(rng.randrange(len(members) + 1), [m, gen_sig(rng), gen_sig(rng)])
            fid += 1
            r = rng.random()
            if r < 0.45:
                a = ['dbus_' + m, fid, None, rng.random() < 0.3]
            elif r < 0.9:
                a = ['rev_' + m, fid, [old[0], m], rng.random() < 0.3]
            else:
                continue                                   # declared, not implemented
            if a[0] not in attrs:
                attrs[a[0]] = a
        elif mu == 'drop' and len(members) > 1:
            del members[rng.randrange(len(members))]
        elif mu == 'sig_in' and members:
            rng.choice(members)[1] = gen_sig(rng)
        elif mu == 'sig_out' and members:
            rng.choice(members)[2] = gen_sig(rng)
    if members == [list(m) for m in old[1]]:
        return None
    w['ifaces'] = w['ifaces'] + [[old[0], members]]
    own = list(w['classes'][k]['ifaces'] or [])
    own.insert(rng.randrange(len(own) + 1), len(w['ifaces']) - 1)
    w['classes'][k] = dict(w['classes'][k], ifaces=own, attrs=list(attrs.values()))
    # an object of the re-declaring class (or of a class derived from it)
    below = [c for c in range(len(w['classes'])) if c == k or k in w['classes'][c]['bases']]
    w['objects'] = [[w['objects'][0][0], rng.choice(below)]] + w['objects'][1:]
    return old[0]


def gen_redeclared(ctx, count, E):
    """calls to objects one of whose classes re-declares an inherited interface under the same name: members of
    either revision and of none, with and without the interface header, right and wrong signatures"""
    rng = ctx.rng
    made = 0
    while made < count:
        w = gen_world(rng, E)
        if not world_ok(w, E):
            continue
        w = json.loads(json.dumps(w))
        name = redeclare(rng, w, E)
        if name is None or not world_ok(w, E):
            continue
        path = w['objects'][0][0]
        revs = [i for i in ideal_ifaces(w, w['objects'][0][1], E) if i[0] == name]
        if len(revs) < 2:
            continue
        cases = []
        for _ in range(rng.choice([4, 6, 8])):
            if rng.random() < 0.15:
                call, sig_out, props = gen_call(rng, w, E)
            else:
                props = None
                pool = sorted({m[0] for r in revs for m in r[1]})
                member = rng.choice(pool) if rng.random() < 0.92 else rng.choice(MEMBERS + ['Nope'])
                decl = [m for r in revs for m in r[1] if m[0] == member]
                m = rng.choice(decl) if decl and rng.random() < 0.3 else (decl[0] if decl else [member, gen_sig(rng), gen_sig(rng)])
                sig_out = decl[0][2] if decl else None
                msig = m[1] if rng.random() < 0.9 else gen_sig(rng)
                body = [gen_value(rng, ct, E)[1] for ct in parse_types(msig, E)]
                call = {'path': path, 'iface': name if rng.random() < 0.65 else None, 'member': member,
                        'sig': msig if (msig or rng.random() < 0.5) else None, 'body': body,
                        'sender': SENDER if rng.random() < 0.9 else None, 'expect': rng.random() < 0.75}
            out = gen_out(rng, sig_out if sig_out is not None else gen_sig(rng), E)
            cases.append(make_case(w, call, out, E, props))
        # half of them as one sequence on one set of classes (the caches of the library are then warm)
        if rng.random() < 0.5:
            yield as_sequence(w, cases)
            made += 1
        else:
            for c in cases:
                yield c
                made += 1


def redeclared_fixed(E):
    """a two-level hierarchy whose subclass re-declares the interface of its base with one more member (dbus_<member>
    and decorator bindings), and one whose subclass changes nothing but adds a second interface"""
    v1 = ['org.ex.Calc', [['Add', 'ii', 'i']]]
    v2 = ['org.ex.Calc', [['Add', 'ii', 'i'], ['Mul', 'ii', 'i'], ['Neg', 'i', 'i']]]
    w = {'ifaces': [v1, v2],
         'classes': [{'bases': [], 'ifaces': [0], 'attrs': [['dbus_Add', 1, None, False]]},
                     {'bases': [0], 'ifaces': [1], 'attrs': [['dbus_Mul', 2, None, False], ['negate', 3, ['org.ex.Calc', 'Neg'], True]]},
                     {'bases': [1], 'ifaces': None, 'attrs': []}],
         'objects': [['/calc', 1], ['/old', 0], ['/sub', 2]]}
    for path in ('/calc', '/sub', '/old'):
        cases = []
        for iface in ('org.ex.Calc', None):
            for member, sig, body in (('Add', 'ii', [[0, 2], [0, 3]]), ('Mul', 'ii', [[0, 2], [0, 3]]), ('Neg', 'i', [[0, 4]]),
                                      ('Mul', 'i', [[0, 2]]), ('Nope', 'ii', [[0, 2], [0, 3]])):
                for expect in (True, False):
                    call = {'path': path, 'iface': iface, 'member': member, 'sig': sig, 'body': body, 'sender': SENDER,
                            'expect': expect}
                    cases.append(make_case(w, call, ['value', [0, 6]], E))
        for c in cases:
            yield c
        yield as_sequence(w, cases[:8])


def run(ctx, res):
    E = env()
    nrand = ctx.n(2000, 40000)
    stride = ctx.n(5, 1)
    res.rule = ('(a) %d random cases: worlds of 1-4 interfaces (random in/out signatures over %d complete types, members drawn '
                'from 4 names so that one member sits on several interfaces) and 1-4 classes built with type() (0-2 bases, own '
                'dbusInterfaces or none, dbus_<member> attributes, @dbusMethod functions under arbitrary names, decorated '
                'dbus_<member>, undecorated overrides, wants-dbusCaller flag), 1-3 exported objects; calls right or wrong in path, '
                'interface, member and signature, with / without interface header, no-reply or not, sender present / absent / '
                'invalid, built-ins and Properties, fed as wire bytes through parseMessage; outcomes value / tuple / unencodable / '
                'raise (valid, invalid, absent dbusErrorName; texts with NUL) / Deferred already fired or failed / Deferred fired '
                'or failed later / never; (b) three fixed small worlds x every call of a grid (paths x 4 interfaces x 4 members x '
                '3 signatures x expect x 14 outcomes), every %d-th case in this tier; (c) the built-in calls at 4 paths; (d) SEQUENCES of calls on one handler and one set of '
                'classes, each call judged on its own: every 2-call sequence (and random 3-call ones) over 3 objects (two of one '
                'class, one of a subclass overriding an implementation) x interface A / B / none on 16 worlds where member Who sits '
                'on two interfaces bound in 4 styles with all combinations of dbusCaller wishes, and random 2-3 call sequences '
                'on random worlds (400 quick / 6000 thorough); about 15 %% of the random calls and every 7th grid call carry a '
                'header field with an unknown code before the DESTINATION/SENDER/SIGNATURE fields or first; (e) RE-DECLARED '
                'INTERFACES: %d calls (half of them in sequences) on random worlds in which a class with bases declares again, '
                'under the same name, an interface one of its ancestors declares - members added (bound by dbus_<member> or '
                'decorator in the re-declaring class, or left unimplemented), dropped, in / out signatures changed - addressed '
                'to an object of that class or of a subclass, members drawn from both revisions, with and without interface '
                'header, plus a fixed base / subclass pair; compared with the model, and judged by the Coq verdict where '
                'every reading of a re-declared name agrees (ASSUMPTIONS). '
                '(f) CALL SERIALS over the whole UINT32 range: about 30 %% of the random calls (also inside sequences and on '
                're-declared worlds) carry a serial chosen by the caller - boundary values (1, 0xff, 0x100, 0xffff, 0x10000, 2**31-1, '
                '2**31, 2**31+1, 2**32-2, 2**32-1), random ones from the upper half and from the whole range - instead of the small '
                'counter value the library allocates, plus a fixed grid of 7 serials (1, 2**31-1, 2**31, 2**32-1, three random) x '
                '20 targets / outcomes (implementation returning / raising / Deferred, unknown object / member, wrong signature, '
                'built-ins, Properties) x reply expected or not; the model reads the serial from the same wire bytes. '
                'A case is non-trivial if a reply was sent or user code ran; distinct by hash' % (nrand, len(ARG_TYPES), stride,
                                                                                                  ctx.n(600, 10000)))
    evaluate(ctx, list(gen_builtin(ctx, E)), res)
    evaluate(ctx, list(gen_serial_grid(ctx, E)), res)
    evaluate(ctx, list(gen_small(ctx, E, stride)), res)
    batch = []
    for c in gen_random(ctx, nrand, E):
        batch.append(c)
        if len(batch) >= 4000:
            evaluate(ctx, batch, res)
            batch = []
    if batch:
        evaluate(ctx, batch, res)
    evaluate(ctx, list(gen_caller_sequences(ctx, E, ctx.n(6, 60))), res)
    batch = []
    for c in gen_random_sequences(ctx, ctx.n(400, 6000), E):
        batch.append(c)
        if len(batch) >= 2000:
            evaluate(ctx, batch, res)
            batch = []
    if batch:
        evaluate(ctx, batch, res)
    evaluate(ctx, list(redeclared_fixed(E)), res)
    batch = []
    for c in gen_redeclared(ctx, ctx.n(600, 10000), E):
        batch.append(c)
        if len(batch) >= 2000:
            evaluate(ctx, batch, res)
            batch = []
    if batch:
        evaluate(ctx, batch, res)
    res.exhaustive = stride == 1
    if stride == 1:
        res.extra['exhaustive_scope'] = 'three fixed worlds x the full call grid x 14 outcomes'
    for c in list(gen_small(ctx, E, 997))[:3]:
        res.sample({k: c[k] for k in ('call', 'out', 'objects')})
