"""C19: the signature splitter against the type grammar; inferred variant signatures.

(a) every valid signature up to a bounded length (enumerated from the grammar) and random ones up to
    255 characters: list(genCompleteTypes(sig)) vs Model gen_complete_types vs the grammar's decomposition;
    malformed signatures: success/failure vs the model;
(b) Python values (value-first generator): sigFromPy vs Model sig_from_py; the inferred signature is one
    complete type; wrappers select exactly their type; values inside the claim (each container's elements
    share one DBus type, or differ in Python class) encode as a variant and decode to an equal value;
    the precondition itself ("inside the claim") is compared with the Coq predicate inside_claim_b of
    Spec/Homogeneous.v (op 19), which the theorem C19_variant_roundtrip is stated over.
"""
import zlib
import random
import re

from harness import common
from harness import marshal_common as mc
from harness import c01

ASSUMPTIONS = [
    '"equal under Python equality" is read modulo the documented read-back normalisation (tuple -> list, bytearray -> list of '
    'ints, wrapper -> plain value), DESIGN.md section 9 (1)',
    'containers whose elements share a Python class but not a DBus type are outside the claim (generated, compared with the model, '
    'not judged by the oracle); exception, as the property says ("travel as their common base type"): a list (or the values of a dict) '
    'whose first element is a plain int / str and whose other elements are instances of subclasses (bool, wrapper classes) fitting '
    'INT32 / STRING is inside',
    'dict keys of different DBus types are outside the claim: DBus dict keys are of one basic type and cannot be variants, and the '
    'inference makes no class test on keys (type of the last key iterated), so neither consequence the property names for elements '
    'that differ in Python type exists for keys',
    'inside the claim also means: scalars fit the type they infer (plain int: INT32; wrapper: its type; str: UTF-8 without NUL; '
    'ObjectPath: valid path; Signature: ASCII <= 255), every signature carried by a variant has <= 255 characters, dict keys are not NaN; '
    'ref_type below and inside_claim_b in coq/Spec/Homogeneous.v define the same set (compared on every generated value)',
]


# ---- reference parser for one complete type (written from the type grammar) ----------
def parse_one(s, i=0):
    """index after one complete type starting at i, or None"""
    if i >= len(s):
        return None
    c = s[i]
    if c in 'ybnqiuxtdsoghv':
        return i + 1
    if c == 'a':
        if i + 1 < len(s) and s[i + 1] == '{':
            j = i + 2
            if j >= len(s) or s[j] not in 'ybnqiuxtdsogh':
                return None
            j = parse_one(s, j + 1)
            if j is None or j >= len(s) or s[j] != '}':
                return None
            return j + 1
        return parse_one(s, i + 1)
    if c == '(':
        j = i + 1
        if j < len(s) and s[j] == ')':
            return None
        while j < len(s) and s[j] != ')':
            j = parse_one(s, j)
            if j is None:
                return None
        if j >= len(s):
            return None
        return j + 1
    return None


def ref_split(s):
    out = []
    i = 0
    while i < len(s):
        j = parse_one(s, i)
        if j is None:
            return None
        out.append(s[i:j])
        i = j
    return out


class Outside(Exception):
    pass


PATH_RE = re.compile(r'\A(/|(/[A-Za-z0-9_]+)+)\Z')


def str_ok(s):
    """a str with a STRING encoding: UTF-8 encodable, no NUL"""
    if '\x00' in s:
        return False
    try:
        s.encode('utf-8')
    except UnicodeEncodeError:
        return False
    return True


def wrapper_fits(sig, v):
    if sig == 'b':
        return int(v) in (0, 1)
    if sig in mc.BASIC_INT:
        lo, hi = mc.BASIC_INT[sig]
        return isinstance(v, int) and lo <= int(v) <= hi
    if sig == 'g':
        return isinstance(v, str) and all(ord(c) < 128 for c in v) and len(v) <= 255
    if sig == 'o':
        return isinstance(v, str) and str_ok(str(v)) and PATH_RE.match(str(v)) is not None
    return False


def opt_type(v):
    try:
        return ref_type(v)
    except Outside:
        return None


def variant_ok(v):
    """v is inside the claim and a variant can carry its signature"""
    t = opt_type(v)
    return t is not None and len(t) <= 255


def as_base(first, y):
    """y, an instance of a subclass of the plain int / str class of the first element, travels as that type"""
    if type(first) is int:
        return isinstance(y, int) and -2**31 <= int(y) < 2**31
    if type(first) is str:
        return isinstance(y, str) and str_ok(str(y))
    return False


def ref_type(v):
    """DBus type of a value sent as a variant when it is inside the claim; raises Outside otherwise.
    Mirror of ref_ty in coq/Spec/Homogeneous.v."""
    sig = getattr(v, 'dbusSignature', None)
    if type(v).__name__ in mc._WRAP_CODES and type(v).__module__.endswith('marshal'):
        sig = mc._WRAP_CODES[type(v).__name__]      # the type the wrapper class is DOCUMENTED to select, not what the tree says
    if sig is not None:
        if not wrapper_fits(sig, v):
            raise Outside()
        return sig
    if isinstance(v, bool):
        return 'b'
    if isinstance(v, int):
        if not (-2**31 <= v < 2**31):
            raise Outside()
        return 'i'
    if isinstance(v, float):
        return 'd'
    if isinstance(v, str):
        if not str_ok(v):
            raise Outside()
        return 's'
    if isinstance(v, bytearray):
        return 'ay'
    if isinstance(v, list):
        if not v:
            return 'av'
        if all(isinstance(x, type(v[0])) for x in v[1:]):
            t = ref_type(v[0])
            for x in v[1:]:
                if opt_type(x) != t and not as_base(v[0], x):
                    raise Outside()
            return 'a' + t
        if not all(variant_ok(x) for x in v):
            raise Outside()
        return 'av'
    if isinstance(v, tuple):
        if not v:
            raise Outside()
        return '(' + ''.join(ref_type(x) for x in v) + ')'
    if isinstance(v, dict):
        if not v:
            return 'a{sv}'
        keys = list(v)
        kt = ref_type(keys[0])
        if kt not in list('ybnqiuxtdsog') or any(opt_type(k) != kt for k in keys[1:]):
            raise Outside()
        if any(isinstance(k, float) and k != k for k in keys):
            raise Outside()
        vals = list(v.values())
        if all(isinstance(x, type(vals[0])) for x in vals[1:]):
            # the common base type, as for lists (D61: the inference used the type of the LAST value)
            t = ref_type(vals[0])
            for x in vals[1:]:
                if opt_type(x) != t and not as_base(vals[0], x):
                    raise Outside()
            return 'a{' + kt + t + '}'
        if not all(variant_ok(x) for x in vals):
            raise Outside()
        return 'a{' + kt + 'v}'
    raise Outside()


def inside_claim(v):
    """the type of v when v is inside the claim as a top-level variant, else None"""
    t = opt_type(v)
    return t if t is not None and len(t) <= 255 else None


def norm(v):
    if isinstance(v, bool):
        return v
    if isinstance(v, int):
        return int(v)
    if isinstance(v, float):
        return v
    if isinstance(v, str):
        return str(v)
    if isinstance(v, bytearray):
        return [int(b) for b in v]
    if isinstance(v, (list, tuple)):
        return [norm(x) for x in v]
    if isinstance(v, dict):
        return {norm(k): norm(x) for k, x in v.items()}
    return v


def eq_nan(a, b):
    """Python equality, except that NaN payloads are compared by identity of being NaN"""
    if isinstance(a, float) and isinstance(b, float) and a != a and b != b:
        return True
    if isinstance(a, list) and isinstance(b, list):
        return len(a) == len(b) and all(eq_nan(x, y) for x, y in zip(a, b))
    if isinstance(a, dict) and isinstance(b, dict):
        return len(a) == len(b) and all(k in b and eq_nan(x, b[k]) for k, x in a.items())
    return a == b and type(a) in (type(b), bool, int) or (a == b and isinstance(a, (int, float)) and isinstance(b, (int, float))) or a == b


class WrapperRefused(Exception):
    pass


def gen_value(rng, marshal, depth):
    """value-first generator: nested Python values, homogeneous and heterogeneous"""
    r = rng.random()
    wraps = [marshal.Byte, marshal.Boolean, marshal.Int16, marshal.UInt16, marshal.Int32, marshal.UInt32,
             marshal.Int64, marshal.UInt64]
    if depth <= 0 or r < 0.45:
        k = rng.randrange(9)
        if k == 0:
            return rng.random() < 0.5
        if k == 1:
            return rng.choice([0, 1, -1, 2**31 - 1, -2**31, rng.randint(-1000, 1000)])
        if k == 2:
            return rng.choice([0.0, -0.0, 1.5, float('inf'), -2.25e10, 5e-324])
        if k == 3:
            return rng.choice(mc.STRINGS)
        if k == 4:
            return bytearray(rng.randrange(256) for _ in range(rng.choice([0, 1, 3])))
        if k == 5:
            w = rng.choice(wraps)
            wsig = mc._WRAP_CODES[w.__name__]
            lo, hi = mc.BASIC_INT[wsig] if wsig != 'b' else (0, 1)
            x = rng.choice([lo, hi, rng.randint(lo, hi)])
            try:
                return w(x)
            except Exception as e:
                # the explicit wrapper types select exactly their DBus type: every value of the type must be accepted
                raise WrapperRefused('%s(%d) raises %s: %s' % (w.__name__, x, type(e).__name__, e))
        if k == 6:
            return marshal.ObjectPath(rng.choice(mc.PATHS))
        if k == 7:
            return marshal.Signature(rng.choice(mc.SIGS))
        return rng.choice(['x', 7, True])
    if r < 0.65:
        n = rng.choice([0, 1, 2, 3])
        if rng.random() < 0.6:        # homogeneous by construction: copies of one shape
            proto = gen_value(rng, marshal, depth - 1)
            return [vary(rng, marshal, proto) for _ in range(n)]
        return [gen_value(rng, marshal, depth - 1) for _ in range(n)]
    if r < 0.8:
        n = rng.choice([1, 2, 3])
        t = tuple(gen_value(rng, marshal, depth - 1) for _ in range(n))
        if rng.random() < 0.2:
            # the SAME container object reached twice (a shared row, shared options): a value is what it contains,
            # sharing is not recursion
            c = [x for x in t if isinstance(x, (list, dict, tuple))]
            shared = c[0] if c else [1, 2]
            t = t + (shared,) if c else (shared, shared)
        return t
    n = rng.choice([0, 1, 2, 3])
    d = {}
    kproto = rng.choice(['s', 'i', 'y'])
    vproto = gen_value(rng, marshal, depth - 1) if rng.random() < 0.6 else None
    for j in range(n):
        k = {'s': 'k%d' % j, 'i': j - 1, 'y': marshal.Byte(j)}[kproto]
        d[k] = vary(rng, marshal, vproto) if vproto is not None else gen_value(rng, marshal, depth - 1)
    return d


def vary(rng, marshal, proto):
    """another value of the same shape (same classes, same DBus types)"""
    if isinstance(proto, bool):
        return rng.random() < 0.5
    if isinstance(proto, int):
        if type(proto) is int:
            return rng.randint(-50, 50)
        sig = mc._WRAP_CODES.get(type(proto).__name__, proto.dbusSignature)
        lo, hi = mc.BASIC_INT[sig] if sig != 'b' else (0, 1)
        return type(proto)(rng.randint(max(lo, -5), min(hi, 200)))
    if isinstance(proto, float):
        return rng.choice([0.5, -3.0, 1e9])
    if isinstance(proto, str):
        if type(proto) is str:
            return rng.choice(mc.STRINGS)
        return proto
    if isinstance(proto, bytearray):
        return bytearray(rng.randrange(256) for _ in range(rng.choice([0, 2])))
    if isinstance(proto, list):
        if not proto:
            return []
        return [vary(rng, marshal, proto[0]) for _ in range(rng.choice([1, 2]))]
    if isinstance(proto, tuple):
        return tuple(vary(rng, marshal, x) for x in proto)
    if isinstance(proto, dict):
        return {k: vary(rng, marshal, x) for k, x in proto.items()}
    return proto


def gen_wild(rng, marshal, depth):
    """like gen_value, with leaves and shapes on both sides of the claim's boundary: out-of-range ints and
    wrappers, NUL strings, invalid paths / signatures, NaN keys, base-type lists, signatures around 255"""
    r = rng.random()
    if depth <= 0 or r < 0.4:
        k = rng.randrange(14)
        if k == 0:
            return rng.choice([2**31, -2**31 - 1, 2**31 - 1, -2**31, 2**40, -2**63, 2**64])
        if k == 1:
            w, x = rng.choice([(marshal.Byte, 256), (marshal.Byte, -1), (marshal.Byte, 255), (marshal.Boolean, 2),
                               (marshal.Boolean, -1), (marshal.Boolean, 1), (marshal.Int16, 2**15), (marshal.Int16, -2**15),
                               (marshal.UInt16, 2**16), (marshal.UInt16, -1), (marshal.Int32, 2**31), (marshal.Int32, -2**31 - 1),
                               (marshal.UInt32, 2**32), (marshal.UInt32, 2**32 - 1), (marshal.Int64, 2**63), (marshal.Int64, -2**63),
                               (marshal.UInt64, 2**64), (marshal.UInt64, 2**40), (marshal.UInt64, -1)])
            return w(x)
        if k == 2:
            return rng.choice(['a\x00b', '\x00', 'ok', '\u00e9\x00'])
        if k == 3:
            return marshal.ObjectPath(rng.choice(['', 'a', '/a/', '//', '/a//b', '/a-b', '/\u00e9', '/a\x00', '/ok/1', '/']))
        if k == 4:
            return marshal.Signature(rng.choice(['\u00e9', 'i' * 255, 'i' * 256, 'zz', 'a\x00', '']))
        if k == 5:
            return rng.choice([float('nan'), float('-inf'), -0.0, 0.0])
        return gen_value(rng, marshal, 0)
    if r < 0.55:
        # one Python base class, several subclasses: the common-base-type case and its failures
        base = rng.choice(['int', 'str'])
        n = rng.choice([1, 2, 3])
        if base == 'int':
            pool = [0, 1, -7, True, False, marshal.Byte(3), marshal.UInt64(2**40), marshal.Int16(-2), marshal.Byte(300),
                    2**31, marshal.Boolean(1), marshal.UInt32(2**31)]
        else:
            pool = ['', 'x', 'a\x00', marshal.ObjectPath('/a'), marshal.Signature('ii'), marshal.ObjectPath('bad'), '\u65e5']
        return [rng.choice(pool) for _ in range(n)]
    if r < 0.7:
        n = rng.choice([0, 1, 2, 3])
        return [gen_wild(rng, marshal, depth - 1) for _ in range(n)]
    if r < 0.8:
        n = rng.choice([0, 1, 2, 2, 3])
        return tuple(gen_wild(rng, marshal, depth - 1) for _ in range(n))
    if r < 0.86:
        # signatures around the 255-character limit (top level and inside a variant)
        n = rng.choice([250, 253, 254, 255, 300])
        t = tuple(rng.choice([0, 'x', True]) for _ in range(n))
        return rng.choice([t, [t, 1], {'k': t, 'j': 1}, (t,)])
    n = rng.choice([1, 2, 3])
    d = {}
    kproto = rng.choice(['s', 'i', 'y', 'd', 'b', 'mix', 'bad'])
    for j in range(n):
        k = {'s': 'k%d' % j, 'i': j - 1, 'y': marshal.Byte(j), 'd': [0.5, float('nan'), -0.0][j], 'b': [True, False, True][j],
             'mix': ['a', 2, marshal.Byte(9)][j], 'bad': [marshal.Byte(256), 2**31, 'a\x00'][j]}[kproto]
        d[k] = gen_wild(rng, marshal, depth - 1)
    return d


def mutate_sig(rng, s):
    ops = rng.randrange(5)
    i = rng.randrange(len(s) + 1)
    if ops == 0 and s:
        return s[:i] + s[i + 1:]
    if ops == 1:
        return s[:i] + rng.choice('(){}a') + s[i:]
    if ops == 2:
        return s + rng.choice(['a', '(', '{', 'a{', '(i', '{s'])
    if ops == 3:
        return rng.choice(')}') + s
    return s[:i]


def evaluate(ctx, cases, res):
    from txdbus import marshal
    cases = list(cases)
    lines = []
    for c in cases:
        if c['kind'] == 'sig':
            lines.append('(1 3 %s)' % common.dump(c['sig'].encode('latin-1')))
        else:
            lines.append('(0)')
    outs = common.run_model(lines)
    vlines, vidx = [], []
    nvalid = ninvalid = ninside = noutside = 0
    for i, (c, o) in enumerate(zip(cases, outs)):
        if c['kind'] != 'sig':
            continue
        sig = c['sig']
        if zlib.crc32(sig.encode('latin-1', 'replace')) % 2:      # decided by the case itself, so that a replayed case behaves alike
            # an earlier consumer of the same signature that stops after the first piece (a failed encode, zip() with
            # too few values): what the split returns afterwards must not depend on it
            try:
                with common.time_limit(5):
                    g = marshal.genCompleteTypes(sig)
                    next(g, None)
                    if hasattr(g, 'close'):
                        g.close()
            except (Exception, common.Timeout):
                pass
        try:
            with common.time_limit(5):
                impl = ('ok', common.take(marshal.genCompleteTypes(sig), len(sig) + 2))
        except common.Timeout as e:
            impl = ('err', 'DoesNotTerminate')
            res.violate(c, 'splitting %r does not terminate (%s)' % (sig, e), 'split-does-not-terminate')
        except Exception as e:
            impl = ('err', type(e).__name__)
        model = ('ok', [b.decode('latin-1') for b in o[1]]) if o[0] == 1 else ('err', o[1])
        res.count(c, nontrivial=len(sig) > 1)
        if impl[0] != model[0] or (impl[0] == 'ok' and impl[1] != model[1]):
            res.disagree(c, impl, model)
        ref = ref_split(sig)
        if ref is not None:
            nvalid += 1
            if impl != ('ok', ref):
                res.violate(c, 'valid signature split into %r, the grammar decomposes it into %r' % (impl, ref), 'split-differs')
        else:
            ninvalid += 1
        res.sample({'sig': sig, 'split': impl}, limit=3)
    # ---- values -------------------------------------------------------------------------------
    vals = [(i, c) for i, c in enumerate(cases) if c['kind'] == 'val']
    if vals:
        built = []
        lines = []
        kept = []
        for i, c in vals:
            rng = random.Random(c['seed'])
            try:
                v = (gen_wild if c.get('wild') else gen_value)(rng, marshal, c['depth'])
            except WrapperRefused as e:
                res.count(c, nontrivial=True)
                res.violate({'kind': 'val', 'seed': c['seed'], 'depth': c['depth'], 'wild': c.get('wild', False)},
                            'a wrapper type refuses a value of its own DBus type: %s' % e, 'wrapper-refuses-value-of-its-type')
                continue
            kept.append((i, c))
            built.append(v)
            lines.append('(1 4 %s)' % common.dump(mc.pv_form(v)))
        vals = kept
        outs = common.run_model(lines)
        # the precondition of the theorem C19_variant_roundtrip, evaluated by the Coq definition
        claims = common.run_model([ln.replace('(1 4 ', '(19 1 ', 1) for ln in lines])
        for (i, c), v, o, cl in zip(vals, built, outs, claims):
            try:
                impl = ('ok', marshal.sigFromPy(v))
            except Exception as e:
                impl = ('err', type(e).__name__)
            model = ('ok', o[1].decode('latin-1')) if o[0] == 1 else ('err', o[1])
            res.count(c, nontrivial=isinstance(v, (list, tuple, dict)))
            if impl[0] != model[0] or (impl[0] == 'ok' and impl[1] != model[1]):
                res.disagree({'case': c, 'value': repr(v)}, impl, model)
            case = {'kind': 'val', 'seed': c['seed'], 'depth': c['depth'], 'value': repr(v)}
            if c.get('wild'):
                case['wild'] = True
            # correspondence of the precondition: Python reference vs Coq inside_claim_b / ref_ty
            rt = opt_type(v)
            want = inside_claim(v)
            py_claim = (want is not None, rt)
            coq_claim = (cl[1] == 1, cl[2].decode('latin-1') if isinstance(cl[2], bytes) else None) if cl[0] == 1 else ('bad', cl)
            if py_claim != coq_claim:
                res.disagree({'case': c, 'value': repr(v), 'what': 'inside the claim / reference type: harness ref_type vs Coq ref_ty'},
                             py_claim, coq_claim)
            if impl[0] == 'ok':
                sp = ref_split(impl[1])
                empty_tuple = '()' in impl[1]
                if (sp is None or len(sp) != 1) and not empty_tuple:
                    # a dict keyed by a container etc. is outside the claim; judge only inside values
                    if want is not None:
                        res.violate(case, 'inferred signature %r is not a single complete type' % (impl[1],), 'inferred-not-single')
            if want is None:
                noutside += 1
                continue
            ninside += 1
            if impl != ('ok', want):
                res.violate(case, 'inferred %r, the documented inference gives %r' % (impl, want), 'inference-differs')
                if impl[0] != 'ok':
                    continue
                # still show what the value decodes to under the signature the implementation inferred
            # both byte orders, and a start offset taken from the case seed (the claim has no such restriction)
            failed = False
            for lendian in (True, False):
                off = (c['seed'] >> 3) % 9 if not lendian or (c['seed'] & 1) else 0
                try:
                    with common.time_limit(20):
                        n, chunks = marshal.marshal('v', [v], off, lendian)
                        data = b''.join(chunks)
                        m, back = marshal.unmarshal('v', b'\x55' * off + data, off, lendian)
                except Exception as e:
                    res.violate(case, 'value inside the claim failed to encode/decode as a variant (%s-endian, offset %d): %s: %s'
                                % ('little' if lendian else 'big', off, type(e).__name__, e),
                                'variant-encode-fails' if lendian else 'variant-encode-fails-big-endian')
                    failed = True
                    break
                if n != len(data) or m != n:
                    res.violate(case, 'variant byte counts differ (%s-endian, offset %d): produced %d reported %d consumed %d'
                                % ('little' if lendian else 'big', off, len(data), n, m), 'variant-count')
                if not eq_nan(back[0], norm(v)):
                    res.violate(case, 'variant (%s-endian, offset %d) decoded to %r, expected a value equal to %r'
                                % ('little' if lendian else 'big', off, back[0], norm(v)),
                                'variant-roundtrip-value' if lendian else 'variant-roundtrip-value-big-endian')
            if failed:
                continue
            res.sample({'value': repr(v), 'inferred': impl[1]}, limit=6)
    for key, n in (('valid_signatures', nvalid), ('malformed_signatures', ninvalid),
                   ('values_inside_claim', ninside), ('values_outside_claim', noutside)):
        res.extra[key] = res.extra.get(key, 0) + n      # evaluate runs once per batch


def gen_cases(ctx):
    rng = ctx.rng
    for ts in c01.small_types(ctx.n(5, 6)):
        yield {'kind': 'sig', 'sig': ''.join(mc.show(t) for t in ts)}
    for _ in range(ctx.n(3000, 40000)):
        ts = [mc.gen_type(rng, rng.choice([1, 2, 3, 5]), allow_fd=True) for _ in range(rng.choice([1, 2, 3, 6]))]
        s = ''.join(mc.show(t) for t in ts)[:255]
        yield {'kind': 'sig', 'sig': s}
        if rng.random() < 0.5:
            yield {'kind': 'sig', 'sig': mutate_sig(rng, s)}
    for n in (32, 33, 64):
        yield {'kind': 'sig', 'sig': 'a' * n + 'i'}
        yield {'kind': 'sig', 'sig': '(' * n + 'i' + ')' * n}
    for _ in range(ctx.n(5000, 100000)):
        yield {'kind': 'val', 'seed': rng.randrange(1 << 40), 'depth': rng.choice([0, 1, 2, 2, 3])}
    for _ in range(ctx.n(3000, 60000)):
        yield {'kind': 'val', 'seed': rng.randrange(1 << 40), 'depth': rng.choice([0, 1, 2, 2, 3]), 'wild': True}


def run(ctx, res):
    res.rule = ('(a) every signature of <= %d characters derivable from the type grammar, random grammar-derived ones (truncated at '
                '255) and mutated (malformed) ones; (b) value-first nested Python values (bool/int/float/str/bytearray/wrappers, '
                'homogeneous and heterogeneous lists, tuples, dicts); non-trivial = signature longer than one character / container '
                'value; distinct by hash' % ctx.n(5, 6))
    # in batches: the thorough tier enumerates about 8 million signatures (7 characters would be 113 million)
    batch = []
    for c in gen_cases(ctx):
        batch.append(c)
        if len(batch) >= 250000:
            evaluate(ctx, batch, res)
            batch = []
    if batch:
        evaluate(ctx, batch, res)
