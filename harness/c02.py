"""C02: implementation bytes == specification encoding (Spec/WireSpec.v, extracted), decoding of
spec-conformant foreign encodings (the byte order the implementation did not choose), and the
alignment rule for every (type code, offset) pair.  Same typed case space as C01."""
from harness import c01

ASSUMPTIONS = c01.ASSUMPTIONS


def evaluate(ctx, cases, res):
    cases = list(cases)
    pads = [c for c in cases if 'pad' in c]
    typed = [c for c in cases if 'pad' not in c]
    if typed:
        c01.evaluate(ctx, typed, res, prop='C02')
    if pads:
        c01.pad_table_cases(res)


def run(ctx, res):
    res.rule = ('the typed case space of C01 (see harness/c01.py) compared byte-for-byte with the extracted specification '
                'encoder in the requested byte order, the opposite-order specification bytes decoded by the implementation, '
                'plus every (type code, offset 0..63) pair for the alignment rule')
    c01.evaluate_nonconforming(ctx, res)
    c01.evaluate_large(ctx, [{'kind': 'large', 'array_bytes': nb, 'le': le} for nb in (2 ** 26 - 4, 2 ** 26) for le in (True, False)], res)
    c01.evaluate(ctx, c01.gen_cases(ctx), res, prop='C02')
    c01.pad_table_cases(res)
