"""C01 / C02 correspondence and oracles for marshal()/unmarshal().

One typed case = (type list, wire values, offset, byte order, shape seed).
From it: Python values in randomly chosen shapes, the implementation's
encoding and decoding, the model's (Model/Marshal.v), the specification's
encoding in both byte orders and its read-back (Spec/WireSpec.v, Readback.v).
"""
import itertools
import random

from harness import common
from harness import marshal_common as mc

ASSUMPTIONS = [
    'a Python str is represented by its UTF-8 encoding; strings that cannot be encoded (lone surrogates) are not generated',
    'doubles are compared by bit pattern; only quiet NaNs are generated',
    'exception classes are not compared, only success/failure',
]
PROP = 'C01'


def has_code(t, code):
    if isinstance(t, str):
        return t == code
    if t[0] == 'a':
        return has_code(t[1], code)
    if t[0] == '(':
        return any(has_code(x, code) for x in t[1])
    return has_code(t[1], code) or has_code(t[2], code)


def depth_of(t):
    if isinstance(t, str):
        return 0
    if t[0] == 'a':
        return 1 + depth_of(t[1])
    if t[0] == '(':
        return 1 + max([depth_of(x) for x in t[1]] or [0])
    return 1 + max(depth_of(t[1]), depth_of(t[2]))


def small_types(maxlen):
    """every signature of <= maxlen characters derivable from the grammar, as type trees"""
    basics = list('ybnqiuxtdsogv')
    by_len = {1: list(basics)}

    def singles(n):
        if n in by_len:
            return by_len[n]
        out = []
        if n >= 2:
            out += [['a', t] for t in singles(n - 1)]
            # a{kv}: 1 + 1 + 1 + len(v) + 1
            if n >= 5:
                out += [['a', ['{', k, v]] for k in 'ys' for v in singles(n - 4)]
        if n >= 3:
            # struct with inner length n-2
            for parts in seqs(n - 2):
                out.append(['(', parts])
        by_len[n] = out
        return out

    def seqs(n):
        """all sequences of complete types of total length n (n >= 1)"""
        out = []
        for first in range(1, n + 1):
            for t in singles(first):
                if first == n:
                    out.append([t])
                else:
                    for rest in seqs(n - first):
                        out.append([t] + rest)
        return out

    res = []
    for n in range(1, maxlen + 1):
        res += seqs(n)
    return res


def canonical_w(rng, t):
    return mc.gen_w(rng, t, 1, mc.FdCounter())


def gen_cases(ctx):
    rng = ctx.rng
    # exhaustive small signatures x 8 offsets x 2 byte orders
    for ts in small_types(ctx.n(3, 4)):
        ws = [canonical_w(rng, t) for t in ts]
        for off in (range(8) if ctx.quick else range(8)):
            for le in (True, False):
                if ctx.quick and (off + le + len(ts)) % 3:
                    continue
                yield {'ts': ts, 'ws': ws, 'off': off, 'le': le, 'shape': rng.randrange(1 << 30)}
    # random deep cases
    for i in range(ctx.n(2500, 60000)):
        nt = rng.choice([1, 1, 2, 3, 4])
        depth = rng.choice([1, 2, 2, 3, 4])
        allow_fd = rng.random() < 0.15
        ts = [mc.gen_type(rng, depth, allow_fd=allow_fd) for _ in range(nt)]
        fdc = mc.FdCounter()
        ws = [mc.gen_w(rng, t, depth, fdc) for t in ts]
        off = rng.choice(list(range(16)) + [rng.randrange(16, 200)])
        yield {'ts': ts, 'ws': ws, 'off': off, 'le': rng.random() < 0.5, 'shape': rng.randrange(1 << 30)}
    # boundaries of the one-byte signature length: g values of 127..255 characters, and variants whose content signature is that long
    for le in (True, False):
        for n in (126, 127, 128, 129, 254, 255):
            yield {'ts': ['g'], 'ws': ['y' * n], 'off': rng.randrange(8), 'le': le, 'shape': rng.randrange(1 << 30)}
            yield {'ts': ['y', 'g', 'u'], 'ws': [1, 'y' * n, 7], 'off': 0, 'le': le, 'shape': rng.randrange(1 << 30)}
        for nf in (125, 126, 127, 200, 253):        # '(' + 'y'*nf + ')' has nf + 2 characters
            yield {'ts': ['v'], 'ws': [{'vt': ['(', ['y'] * nf], 'w': [j % 251 for j in range(nf)]}], 'off': rng.randrange(8), 'le': le,
                   'shape': rng.randrange(1 << 30)}
    # deep nesting to the spec limits (a few)
    for n in ([8, 16, 32] if ctx.quick else [8, 16, 24, 32, 32, 32]):
        t = 'i'
        w = 7
        for j in range(n):
            t = ['a', t]
            w = [w]
        for j in range(n):
            t = ['(', [t]]
            w = [w]
        yield {'ts': [t], 'ws': [w], 'off': rng.randrange(8), 'le': rng.random() < 0.5, 'shape': rng.randrange(1 << 30)}


def run_impl_marshal(marshal, sig, vals, off, le, fds):
    try:
        with common.bounded(20):
            n, chunks = marshal.marshal(sig, vals, off, le, fds)
        return ('ok', n, b''.join(chunks))
    except RecursionError:
        return ('limit',)
    except (common.Timeout, MemoryError):
        return ('err', 'DoesNotTerminate')
    except Exception as e:
        return ('err', type(e).__name__)


def run_impl_unmarshal(marshal, sig, data, off, le, fds):
    try:
        with common.bounded(20):
            n, vals = marshal.unmarshal(sig, data, off, le, fds)
        return ('ok', n, [mc.pv_form(v) for v in vals])
    except RecursionError:
        return ('limit',)
    except (common.Timeout, MemoryError):
        return ('err', 'DoesNotTerminate')
    except Exception as e:
        return ('err', type(e).__name__)


def model_m(o):
    if o[0] == 1:
        return ('ok', o[1], o[2])
    return ('err', o[1])


def model_u(o):
    if o[0] == 1:
        return ('ok', o[1], o[2])
    return ('err', o[1])


def same_outcome(i, m):
    if i[0] == 'limit':
        return True          # interpreter recursion limit: counted, not compared
    if i[0] != m[0]:
        return False
    if i[0] == 'ok':
        return i[1:] == m[1:]
    return True


def evaluate(ctx, cases, res, prop=None):
    cases = list(cases)
    big = [c for c in cases if isinstance(c, dict) and c.get('kind') == 'large']
    if big:
        evaluate_large(ctx, big, res)
    cases = [c for c in cases if not (isinstance(c, dict) and c.get('kind') == 'large')]
    if not cases:
        return
    prop = prop or PROP
    from txdbus import marshal
    cases = list(cases)
    prep = []
    linesA = []
    hist = {'codes': {}, 'depth': {}, 'off_mod8': {}, 'le': {True: 0, False: 0}}
    for c in cases:
        srng = random.Random(c['shape'])
        shapes = mc.Shapes(srng, marshal)
        ts, ws = c['ts'], c['ws']
        sig = ''.join(mc.show(t) for t in ts)
        vals = [shapes.py(t, w) for t, w in zip(ts, ws)]
        if any(mc.has_none(v) for v in vals):
            # a variant whose content cannot be made exactly inferable (empty container): regenerate shape-free
            prep.append(None)
            linesA += ['(0)'] * 4
            continue
        uses_fd = any(has_code(t, 'h') for t in ts)
        fds = [] if (uses_fd or srng.random() < 0.5) else None
        fds_in = None if fds is None else []
        off, le = c['off'], c['le']
        im = run_impl_marshal(marshal, sig, vals, off, le, fds)
        pre = bytes(srng.randrange(256) for _ in range(off))
        post = bytes(srng.randrange(256) for _ in range(srng.choice([0, 0, 1, 5])))
        prep.append((sig, vals, fds, fds_in, im, pre, post, uses_fd))
        vform = [5, [mc.pv_form(v) for v in vals]]
        fd_sexp = [] if fds_in is None else [[]]
        tss = [mc.t_sexp(t) for t in ts]
        wss = [mc.w_sexp(t, w) for t, w in zip(ts, ws)]
        linesA.append('(1 1 %s %s %d %d %s)' % (common.dump(sig.encode()), common.dump(vform), off, le, common.dump(fd_sexp)))
        linesA.append('(2 1 %s %s %d %d)' % (common.dump(tss), common.dump(wss), off, le))
        linesA.append('(2 1 %s %s %d %d)' % (common.dump(tss), common.dump(wss), off, not le))
        fdlist = [mc.pv_form(x) for x in (fds or [])]
        linesA.append('(2 2 %s %s %s)' % (common.dump(tss), common.dump(wss), common.dump(fdlist)))
        for t in ts:
            for code in set(mc.show(t)):
                hist['codes'][code] = hist['codes'].get(code, 0) + 1
        d = max(depth_of(t) for t in ts)
        hist['depth'][d] = hist['depth'].get(d, 0) + 1
        hist['off_mod8'][off % 8] = hist['off_mod8'].get(off % 8, 0) + 1
        hist['le'][le] += 1
    outA = common.run_model(linesA)
    linesB = []
    stage2 = []
    for idx, c in enumerate(cases):
        p = prep[idx]
        if p is None:
            stage2.append(None)
            linesB += ['(0)'] * 2
            continue
        sig, vals, fds, fds_in, im, pre, post, uses_fd = p
        mm, spec_same, spec_other, spec_rb = outA[4 * idx: 4 * idx + 4]
        off, le = c['off'], c['le']
        fdlist = list(fds) if fds is not None else None
        iu1 = iu2 = None
        data1 = data2 = b''
        if im[0] == 'ok':
            data1 = pre + im[2] + post
            iu1 = run_impl_unmarshal(marshal, sig, data1, off, le, fdlist)
        if isinstance(spec_other, bytes):
            data2 = pre + spec_other + post
            iu2 = run_impl_unmarshal(marshal, sig, data2, off, not le, fdlist)
        fd_sexp = [] if fdlist is None else [[mc.pv_form(x) for x in fdlist]]
        linesB.append('(1 2 %s %s %d %d %s)' % (common.dump(sig.encode()), common.dump(data1), off, le, common.dump(fd_sexp)))
        linesB.append('(1 2 %s %s %d %d %s)' % (common.dump(sig.encode()), common.dump(data2), off, not le, common.dump(fd_sexp)))
        stage2.append((iu1, iu2, data1, data2))
    outB = common.run_model(linesB)
    nlimit = 0
    for idx, c in enumerate(cases):
        p = prep[idx]
        if p is None:
            continue
        sig, vals, fds, fds_in, im, pre, post, uses_fd = p
        mm, spec_same, spec_other, spec_rb = outA[4 * idx: 4 * idx + 4]
        iu1, iu2, data1, data2 = stage2[idx]
        mu1, mu2 = outB[2 * idx], outB[2 * idx + 1]
        ts, ws = c['ts'], c['ws']
        nontrivial = c['off'] % 8 != 0 or not c['le'] or any(not isinstance(t, str) for t in ts)
        res.count(c, nontrivial)
        if im[0] == 'limit' or (iu1 and iu1[0] == 'limit') or (iu2 and iu2[0] == 'limit'):
            nlimit += 1
        # ---- correspondence: implementation vs faithful model -----------------
        m1 = model_m(mm)
        if not same_outcome(im, m1):
            res.disagree(c, im, m1, 'model_marshal')
        if iu1 is not None and not same_outcome(iu1, model_u(mu1)):
            res.disagree(c, iu1, model_u(mu1), 'model_unmarshal')
        if iu2 is not None and not same_outcome(iu2, model_u(mu2)):
            res.disagree(c, iu2, model_u(mu2), 'model_unmarshal_foreign')
        # ---- oracles ---------------------------------------------------------------
        exp = [mc.expected(t, w, fds) for t, w in zip(ts, ws)]
        if spec_rb != exp:
            raise RuntimeError('harness self-check: spec readback %r != expected %r' % (spec_rb, exp))
        if im[0] == 'limit':
            continue
        if prop == 'C01':
            if im[0] != 'ok':
                res.violate(c, 'conforming values failed to encode: %s' % (im,), 'encode-fails')
            else:
                if im[1] != len(im[2]):
                    res.violate(c, 'encoder reported %d bytes, produced %d' % (im[1], len(im[2])), 'count-mismatch')
                if iu1[0] == 'limit':
                    pass
                elif iu1[0] != 'ok':
                    res.violate(c, 'own encoding failed to decode: %s' % (iu1,), 'decode-fails')
                else:
                    if iu1[1] != im[1]:
                        res.violate(c, 'decoder consumed %d bytes, encoder produced %d' % (iu1[1], im[1]), 'consumed-mismatch')
                    if iu1[2] != exp:
                        res.violate(c, 'decoded %r, expected %r' % (iu1[2], exp), 'roundtrip-value')
        else:   # C02
            if im[0] == 'ok' and im[2] != spec_same:
                res.violate(c, 'encoding differs from the specification encoding: impl %s spec %s'
                            % (im[2].hex(), spec_same.hex() if isinstance(spec_same, bytes) else spec_same), 'bytes-differ')
            if im[0] != 'ok':
                res.violate(c, 'conforming values failed to encode: %s' % (im,), 'encode-fails')
            if iu2 is not None and iu2[0] != 'limit':
                if iu2[0] != 'ok':
                    res.violate(c, 'spec-conformant foreign encoding failed to decode: %s' % (iu2,), 'foreign-decode-fails')
                elif iu2[2] != exp or iu2[1] != len(spec_other):
                    res.violate(c, 'foreign encoding decoded to %r (%d bytes), expected %r (%d bytes)'
                                % (iu2[2], iu2[1], exp, len(spec_other)), 'foreign-decode-value')
        res.sample({'sig': sig, 'off': c['off'], 'le': c['le'], 'bytes': im[2].hex() if im[0] == 'ok' else None}, limit=4)
    res.extra['input_distribution'] = {k: {str(a): b for a, b in v.items()} for k, v in hist.items()}
    res.extra['resource_limit_cases'] = nlimit


def pad_table_cases(res):
    """every (type code, offset) pair for the alignment rule, against the spec table"""
    from txdbus import marshal
    spec_align = {'y': 1, 'b': 4, 'n': 2, 'q': 2, 'i': 4, 'u': 4, 'x': 8, 't': 8, 'd': 8, 's': 4, 'o': 4,
                  'g': 1, 'a': 4, '(': 8, 'v': 1, '{': 8, 'h': 4}
    for code, a in spec_align.items():
        for off in range(64):
            c = {'pad': code, 'off': off}
            res.count(c)
            try:
                p = marshal.pad[code](off)
            except Exception as e:
                p = 'exc:' + type(e).__name__
            want = b'\0' * ((a - off % a) % a)
            if p != want:
                res.violate(c, 'padding for %r at offset %d is %r, specification says %r' % (code, off, p, want), 'alignment-rule')


NONCONFORMING = [   # (signature, values): values the signature does not describe; model and code must still agree on Ok / Err (and bytes)
    ('b', [2]), ('b', [-1]), ('b', [255]), ('b', [None]), ('b', ['']), ('b', ['x']), ('b', [[]]), ('b', [[0]]),
    ('y', [256]), ('y', [-1]), ('n', [32768]), ('q', [-1]), ('i', [2 ** 31]), ('u', [-1]), ('u', [2 ** 32]), ('x', [2 ** 63]), ('t', [-1]),
    ('i', ['7']), ('u', [None]), ('s', [5]), ('s', [None]), ('s', ['a\x00b']), ('o', ['a']), ('o', ['/a/']), ('g', ['y' * 256]),
    ('ai', [5]), ('ai', [['x']]), ('(ii)', [[1]]), ('(ii)', [[1, 2, 3]]), ('a{si}', [[1, 2]]), ('ii', [1]), ('i', [1, 2]), ('v', [None]),
]


def evaluate_nonconforming(ctx, res):
    """correspondence only (no property oracle: the property is about conforming values): how the encoder treats values
    that do NOT conform to the signature is part of the code the model mirrors"""
    from txdbus import marshal
    lines, impls = [], []
    for sig, vals in NONCONFORMING:
        for le in (True, False):
            impls.append((sig, vals, le, run_impl_marshal(marshal, sig, vals, 0, le, None)))
            lines.append('(1 1 %s %s %d %d %s)' % (common.dump(sig.encode()), common.dump([5, [mc.pv_form(v) for v in vals]]), 0, le,
                                                 common.dump([])))
    outs = common.run_model(lines)
    skipped = 0
    for (sig, vals, le, im), o in zip(impls, outs):
        mo = model_m(o)
        if mo[0] == 'err' and mo[1] == 9:         # EUnmodelled: a Python shape the model does not represent
            skipped += 1
            continue
        c = {'kind': 'nonconforming', 'sig': sig, 'vals': repr(vals), 'le': le}
        res.count(c, nontrivial=True)
        a = ('ok', im[1], bytes(im[2])) if im[0] == 'ok' else ('err',)
        b = ('ok', mo[1], bytes(mo[2])) if mo[0] == 'ok' else ('err',)
        if a != b:
            res.disagree(c, [a[0]] + ([a[1], a[2].hex()] if a[0] == 'ok' else []), [b[0]] + ([b[1], b[2].hex()] if b[0] == 'ok' else []))
    res.extra['nonconforming_unmodelled_skipped'] = skipped


def evaluate_large(ctx, cases, res):
    """kind 'large': arrays whose data is 2^26 bytes (the DBus limit for an array) or just below - far too long for the
    extracted model (unary offsets); judged by the property's own oracle alone: the decoder returns the values and
    consumes exactly what the encoder reported producing.  Either byte order."""
    from txdbus import marshal
    import struct
    for c in cases:
        n_data, le = c['array_bytes'], c['le']
        s = 'x' * (n_data - 5)                     # one string: 4 (length) + len + 1 (NUL) = n_data
        res.count(c, nontrivial=True)
        try:
            with common.bounded(60, extra_mb=1500):
                n, chunks = marshal.marshal('asu', [[s], 7], 0, le)
                data = b''.join(chunks)
                m, back = marshal.unmarshal('asu', data, 0, le)
        except Exception as e:
            res.violate(c, 'an array of %d data bytes (limit 2^26 = 67108864) does not round-trip: %s: %s'
                        % (n_data, type(e).__name__, str(e)[:120]), 'large-array-fails')
            continue
        declared = struct.unpack_from('<I' if le else '>I', data, 0)[0]
        if declared != n_data or n != len(data) or m != n or back != [[s], 7]:
            res.violate(c, 'array of %d data bytes: declared %d, produced %d reported %d consumed %d, values %s'
                        % (n_data, declared, len(data), n, m, 'equal' if back == [[s], 7] else 'DIFFER'), 'large-array-differs')


def run(ctx, res):
    evaluate_nonconforming(ctx, res)
    evaluate_large(ctx, [{'kind': 'large', 'array_bytes': nb, 'le': le} for nb in (2 ** 26 - 4, 2 ** 26) for le in (True, False)], res)
    res.rule = ('typed cases: every signature of <= %d characters from the grammar with canonical values x offsets 0-7 x both '
                'byte orders%s, random nested signatures (depth <= 4, 1-4 top-level types) with boundary-biased values in random '
                'Python shapes (list/tuple/object/bytearray/dict/wrapper classes) at offsets 0-15 and a few large ones, nesting to '
                '32+32; non-trivial = container type or offset not multiple of 8 or big-endian; distinct by hash of the case'
                % (ctx.n(3, 4), ' (a third of the grid in the quick tier)' if ctx.quick else ''))
    evaluate(ctx, gen_cases(ctx), res)
