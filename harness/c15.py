"""C15 correspondence: txdbus.interface / txdbus.introspection vs Model/Introspect.v
(+ Model/SigSplit.v) and the oracle of Spec/IntrospectSpec.v.

A case is a scenario: a list of steps run against a fresh world (no known
interfaces), on the real classes and - through `(15 steps)` - on the model:

  [0, name, [decl...], noreg]      DBusInterface(name, *members[, noRegister=...])
                                   noreg: 0 keyword absent, 1 noRegister=True, 2 noRegister=False
  [1]                              DBusInterface.knownInterfaces.clear()
  [2, path, [[key, [id...]]...], mode]
                                   generateIntrospectionXML(path, {key: object exporting heap[id]...})
                                   mode 0: object with getInterfaces(); mode 1: a DBusObject
                                   subclass (its MRO appends the Properties interface, whose
                                   twin declaration is the last id of the list); mode 2: as 1, but
                                   the classes of one scenario form a hierarchy: the class exporting
                                   [i, j, k, P] adds interface i to the class exporting [j, k, P]
                                   (the same class object whenever the same list is asked for), so an
                                   object of a derived class exports what its class and all bases declare
  [3, replace]                     getInterfacesFromXML(last document, replace)
  [4, replace, [event...]]         getInterfacesFromXML(serialised events, replace)
  [5]                              the client drops every reference it holds to the interface objects
                                   made so far (declared or returned by a parse); garbage is collected.
                                   Not a call of the library: the model does not see this step

  decl  = [0, name, sig, sig] | [1, name, sig] | [2, name, sig, readable, writeable, emits]
  sig   = [0, 'text'] | [1, type...]      type = code | [0, t] | [1, t...] | [2, k, v]
  event = [0, tag, [[key, value]...]] | [1, tag]

Objects are identified by creation order (heap index) on both sides.

A second kind of case is a history on ONE mutable interface object (Model/IfaceCache.v; the cached
self._xml is part of the model there):

  ['history', name, [hop...]]      obj = DBusInterface(name, noRegister=True), then
  hop = [0, decl]                  obj.addMethod/addSignal/addProperty(<new Method/Signal/Property>)
      | [1, kind, member name]     obj.delMethod (0) / delSignal (1) / delProperty (2)
      | [2]                        obj._getXml()
      | [3, path]                  generateIntrospectionXML(path, {path: exporter of obj}) and
                                   getInterfacesFromXML(document, replaceKnownInterfaces=True)
      | [4, target, lit]           obj.addMethod/addSignal/addProperty (target 0/1/2) of a given object:
                                   lit = [0, name, nargs, nret, sigIn, sigOut] | [1, name, nargs, sig] | property decl
                                   (argument counts already set, objects of another class: duck typing)
"""
import gc
import weakref
import xml.etree.ElementTree as ET
from xml.sax.saxutils import quoteattr

from harness import common

ASSUMPTIONS = [
    'generated documents are compared as element trees with attributes in key order and the members of an '
    '<interface> in canonical order (the order in which _getXml lists members is not part of the property); the '
    'order of <arg> elements and of interfaces is compared',
    'the text layer is not modelled: the model produces/consumes element events; the harness obtains the events of '
    'the real XML with xml.etree.ElementTree and serialises event lists to XML text itself (attribute values escaped)',
    'names and signatures in declarations contain no XML-special characters (<, >, &, quotes): _getXml does not '
    'escape; valid DBus names and signatures cannot contain them',
    'str.lower() is modelled for ASCII only (no non-ASCII character lower-cases to a letter of read/write/readwrite)',
    'Method.__init__ raising RuntimeError for several h arguments on Twisted < 17.1 is not modelled (Twisted here is newer)',
    'Property.emits is compared as "notifies or not" (True/\'true\'/\'invalidates\' vs False/\'false\'): the property '
    'lists type and access only, so the bool-vs-string representation the parser stores is an observation, not compared',
    'exceptions are compared as Ok/Err only; after a failing parse the scenario ends (knownInterfaces may hold '
    'half-built objects, which is not observed)',
    'an exported object of a class derived from another exporting class exports the interfaces its class and all '
    'its bases declare in dbusInterfaces (most derived first), whichever class of the hierarchy was used first '
    '(step 2, mode 2: the classes of a scenario share base classes)',
    'the cache rule is also judged by content against a ledger the harness keeps from the property text alone '
    '(oracle computed in Python, independent of the implementation and of DBusInterface.knownInterfaces): a name '
    'becomes known locally when an interface is declared without the noRegister keyword or returned by a parse, '
    'stays known until knownInterfaces.clear(), and a parse without replacement must return for a known name an '
    'interface showing what the known one shows; whether the client still holds a reference to a known interface '
    '(step 5 drops them all and runs the collector; the harness then only holds weak references, which make no '
    'claim on lifetime) is immaterial; the ledger is not kept after a raw-event document',
    'histories on one interface object: every member object handed to addMethod/addSignal/addProperty is a new '
    'object that the caller does not touch afterwards (attribute assignment to a stored Method/Signal/Property '
    'behind the interface\'s back is not modelled); whether self._xml is filled is not observed, only what '
    '_getXml / generateIntrospectionXML return',
]

BASIC = 'ybnqiuxtdsogh'
PROPS_NAME = 'org.freedesktop.DBus.Properties'
STD = ['org.freedesktop.DBus.Introspectable', 'org.freedesktop.DBus.Peer', 'org.freedesktop.DBus.ObjectManager']
EMITS_NAME = 'org.freedesktop.DBus.Property.EmitsChangedSignal'


# --------------------------------------------------------------------------
# type grammar
def gen_type(rng, depth, wf=True):
    r = rng.random()
    if depth <= 0 or r < 0.35:
        return ord(rng.choice(BASIC))
    if r < 0.42:
        return ord('v')
    if r < 0.62:
        if rng.random() < 0.45:
            k = ord(rng.choice(BASIC)) if wf or rng.random() < 0.8 else gen_type(rng, depth - 1, wf)
            return [0, [2, k, gen_type(rng, depth - 1, wf)]]
        return [0, gen_type(rng, depth - 1, wf)]
    if r < 0.95 or wf:
        n = rng.choice([1, 1, 2, 2, 3, 4]) if wf else rng.choice([0, 1, 2, 3])
        return [1] + [gen_type(rng, depth - 1, wf) for _ in range(n)]
    return [2, gen_type(rng, depth - 1, wf), gen_type(rng, depth - 1, wf)]   # bare dict entry (not wf)


def show(t):
    if isinstance(t, int):
        return chr(t)
    if t[0] == 0:
        return 'a' + show(t[1])
    if t[0] == 1:
        return '(' + ''.join(show(x) for x in t[1:]) + ')'
    return '{' + show(t[1]) + show(t[2]) + '}'


def type_depth(t):
    if isinstance(t, int):
        return 0
    return 1 + max([type_depth(x) for x in t[1:]] or [0])


def gen_sig(rng, maxn=4, depth=3, wf=True):
    n = rng.choice([0, 1, 1, 2, 2, 3, maxn])
    return [1] + [gen_type(rng, rng.randint(0, depth), wf) for _ in range(n)]


BAD_SIGS = ['a', 'aa', '(i', 'a{', '{i', 'a(', 'ia', '(i))', ')', 'a)', 'ai)', '}{', '((i)', 'a{s(v}', 'z!', 'i(']


def sig_text(s):
    return s[1] if s[0] == 0 else ''.join(show(t) for t in s[1:])


# --------------------------------------------------------------------------
# declarations
MEMBER_NAMES = ['A', 'AB', 'Aa', 'B', 'Get', 'GetAll', 'Set', 'a', 'ab', 'b', '_x', 'Z9', 'z', 'M1', 'M10', 'M2',
                'Ping', 'Changed', 'value', 'Value']
IFACE_NAMES = ['a.b', 'a.b.c', 'org.example.Iface', 'com.x.Y1', 'a.bc', 'A.b'] + STD + [PROPS_NAME]


def gen_decl(rng, kind, name, wf=True, bad=False):
    if kind == 0:
        a, r = gen_sig(rng, 6, 3, wf), gen_sig(rng, 3, 3, wf)
        if bad:
            if rng.random() < 0.5:
                a = [0, rng.choice(BAD_SIGS)]
            else:
                r = [0, rng.choice(BAD_SIGS)]
        elif rng.random() < 0.1:
            a = [0, sig_text(a)]           # same text given raw: no spec expectation, same behaviour
        return [0, name, a, r]
    if kind == 1:
        a = gen_sig(rng, 5, 3, wf)
        if bad:
            a = [0, rng.choice(BAD_SIGS)]
        return [1, name, a]
    t = [1, gen_type(rng, rng.randint(0, 3), wf)]
    if rng.random() < 0.05:
        t = [0, rng.choice(['', 'ii', 'a', '(i'])]       # not a single complete type: carried verbatim
    rd, wr = rng.choice([(True, False), (False, True), (True, True), (True, False), (False, False)])
    return [2, name, t, rd, wr, rng.choice([0, 1, 1, 2])]


def gen_members(rng, wf=True, bad=False, maxm=6):
    ds = []
    for kind in (0, 1, 2):
        n = rng.choice([0, 1, 2, 3, maxm]) if rng.random() < 0.8 else rng.randint(0, maxm)
        names = [rng.choice(MEMBER_NAMES) for _ in range(n)] if rng.random() < 0.25 \
            else rng.sample(MEMBER_NAMES, n)
        ds += [gen_decl(rng, kind, nm, wf) for nm in names]
    rng.shuffle(ds)
    if bad and ds:
        i = rng.randrange(len(ds))
        ds[i] = gen_decl(rng, ds[i][0] if ds[i][0] != 2 else 0, ds[i][1], wf, bad=True)
    elif bad:
        ds = [gen_decl(rng, 0, 'M', wf, bad=True)]
    return ds


def props_decl():
    """The Properties interface every DBusObject carries, read from the tree under test (an input:
    which interfaces the exporting object has), as a declaration with raw signature texts."""
    from txdbus import objects
    p = objects.DBusObject.dbusInterfaces[0]
    ds = [[0, m.name, [0, m.sigIn], [0, m.sigOut]] for m in p.methods.values()]
    ds += [[1, s.name, [0, s.sig]] for s in p.signals.values()]
    ds += [[2, q.name, [0, q.sig], q.access != 'write', q.access != 'read',
            {'true': 1, 'false': 0}.get(q.emits, 2)] for q in p.properties.values()]
    return [0, p.name, ds, 0]


# --------------------------------------------------------------------------
# scenarios
def gen_paths(rng):
    path = rng.choice(['/', '/a', '/a/b', '/obj', '/a/b/c'])
    base = path.rstrip('/')
    extra = rng.sample([base + '/x', base + '/x/y', base + '/yy/z', base + '/x2', base + 'b', base + 'b/c',
                        '/', '/zz', base + '/x/y/z'], rng.choice([0, 0, 1, 2, 4]))
    return path, [e for e in dict.fromkeys(extra) if e and e != path]


def scen_export(ctx, rng, pdecl):
    """declare (possibly with older known versions), export, parse once or twice"""
    steps = []
    nid = 0
    k = rng.choice([1, 1, 1, 2, 2, 3])
    names = [rng.choice(IFACE_NAMES) for _ in range(k)] if rng.random() < 0.2 else rng.sample(IFACE_NAMES[:6], k)
    mode = 1 if rng.random() < 0.25 else 0
    wf = rng.random() < 0.85
    shape = rng.choice(['unknown', 'unknown', 'self-known', 'old-known', 'mixed'])
    if shape in ('old-known', 'mixed'):
        for nm in names + (STD if rng.random() < 0.3 else []):
            if shape == 'mixed' and rng.random() < 0.5:
                continue
            steps.append([0, nm, gen_members(rng, wf, maxm=3), 0])
            nid += 1
    ids = []
    for nm in names:
        noreg = {'unknown': rng.choice([1, 2]), 'self-known': 0, 'old-known': rng.choice([1, 2]),
                 'mixed': rng.choice([0, 1, 2])}[shape]
        steps.append([0, nm, gen_members(rng, wf), noreg])
        ids.append(nid)
        nid += 1
    if mode == 1:
        steps.append([pdecl[0], pdecl[1], pdecl[2], rng.choice([0, 1])])
        ids.append(nid)
        nid += 1
    if shape == 'unknown' and rng.random() < 0.5:
        steps.append([1])
    path, extra = gen_paths(rng)
    exported = [[path, ids]] + [[e, []] for e in extra]
    rng.shuffle(exported)
    steps.append([2, path, exported, mode])
    steps.append([3, rng.random() < 0.35])
    r = rng.random()
    if r < 0.35:
        steps.append([3, rng.random() < 0.5])
    elif r < 0.5:
        steps.append([1])
        steps.append([3, rng.random() < 0.5])
    elif r < 0.65 and shape == 'unknown':
        # re-export the first object the parser created (nothing was known, so there is one)
        steps.append([2, path, [[path, [nid]]], 0])
        steps.append([3, rng.random() < 0.7])
    return steps, shape


def scen_bad_sig(ctx, rng, pdecl):
    steps = [[0, rng.choice(IFACE_NAMES[:4]), gen_members(rng, True, bad=True, maxm=3), rng.choice([0, 1])]]
    steps.append([0, 'a.ok', gen_members(rng, True, maxm=2), 0])
    steps.append([2, '/a', [['/a', [0]]], 0])
    steps.append([3, False])
    return steps, 'bad-signature'


def scen_no_object(ctx, rng, pdecl):
    """path not exported: children only, or None"""
    steps = [[0, 'a.b', gen_members(rng, True, maxm=2), 0]]
    path, extra = gen_paths(rng)
    other = rng.choice(['/q', path + 'x', path.rstrip('/') + '/k'])
    steps.append([2, path, [[other, [0]]] + [[e, []] for e in extra if e != other], 0])
    steps.append([3, False])
    return steps, 'no-object'


def scen_hierarchy(ctx, rng, pdecl):
    """Several exported objects whose classes form one hierarchy (a class adds an interface to what its base
    class exports; siblings share a base), introspected one after the other in a random order - base before
    derived, derived before base, sibling after sibling - each document parsed back."""
    k = rng.choice([2, 3, 3, 4])
    names = rng.sample(IFACE_NAMES[:6], k)
    steps = [[0, nm, gen_members(rng, True, maxm=3), rng.choice([0, 1, 2])] for nm in names]
    steps.append([pdecl[0], pdecl[1], pdecl[2], rng.choice([0, 1])])
    P = k
    lists = [list(range(j, k)) for j in range(k + 1)]                 # the chain: every suffix, [] = the root class
    lists += [[j] + list(range(j + 2, k)) for j in range(k - 1)]      # siblings: skip one level
    chosen = [[]] if rng.random() < 0.3 else []
    pool = [l for l in lists if l]
    chosen += rng.sample(pool, min(len(pool), rng.choice([2, 2, 3, 4])))
    if rng.random() < 0.6:
        chosen.sort(key=len)                                          # base classes first
    else:
        rng.shuffle(chosen)
    paths = rng.sample(['/', '/a', '/a/b', '/obj', '/a/b/c', '/zz', '/a/bc'], len(chosen))
    exported = [[p, l + [P]] for p, l in zip(paths, chosen)]
    for p, l in zip(paths, chosen):
        steps.append([2, p, exported, 2])
        steps.append([3, rng.random() < 0.4])
    return steps, 'class-hierarchy'


def scen_drop(ctx, rng, pdecl):
    """Interfaces become known (declared locally, or learned from a parsed document); the client then drops every
    reference it holds (the declaring function returned, the proxy was discarded) and later parses a document that
    defines the same names differently, with or without replacement."""
    k = rng.choice([1, 1, 2, 3])
    names = rng.sample(IFACE_NAMES[:6], k)
    steps = []
    nid = 0
    known = set()
    how = rng.choice(['declared', 'parsed', 'parsed', 'both'])
    if how in ('declared', 'both'):
        for nm in names:
            if how == 'declared' or rng.random() < 0.5:
                steps.append([0, nm, gen_members(rng, True, maxm=3), 0])
                nid += 1
                known.add(nm)

    def export_and_parse(replace, drop_between=False):
        nonlocal nid
        ids = []
        for nm in names:
            steps.append([0, nm, gen_members(rng, True, maxm=3), rng.choice([1, 2])])
            ids.append(nid)
            nid += 1
        path = rng.choice(['/', '/a', '/a/b'])
        steps.append([2, path, [[path, ids]], 0])
        if drop_between:
            steps.append([5])
        steps.append([3, replace])
        for nm in names + STD:
            if replace or nm not in known:
                nid += 1
                known.add(nm)

    if how in ('parsed', 'both'):
        export_and_parse(rng.random() < 0.3)
    r = rng.random()
    if r < 0.8:
        steps.append([5])
    if rng.random() < 0.1:
        steps.append([1])
        known.clear()
    export_and_parse(rng.random() < 0.25, drop_between=rng.random() < 0.3)
    if rng.random() < 0.4:
        if rng.random() < 0.5:
            steps.append([5])
        export_and_parse(rng.random() < 0.3)
    return steps, 'references-dropped'


def small_hierarchy_and_drop(pdecl):
    """the smallest instances of the two scenario classes above, in every order"""
    s_, i_, u_ = ord('s'), ord('i'), ord('u')
    d0 = [0, 'a.b', [[0, 'M', [1, s_], [1]]], 1]
    d1 = [0, 'a.bc', [[1, 'S', [1, i_]], [2, 'P', [1, u_], True, False, 1]], 1]
    d2 = [0, 'a.b.c', [[0, 'N', [1], [1, s_, s_]]], 1]
    twin = [pdecl[0], pdecl[1], pdecl[2], 1]
    out = []
    # classes: C(1) exports [a.bc]; C(0,1) derives from it and adds a.b; C(2,1) is its sibling; root C() exports nothing
    objs = {'/a': [1, 3], '/a/b': [0, 1, 3], '/a/c': [2, 1, 3], '/r': [3]}
    import itertools
    for k in (2, 3):
        for order in itertools.permutations(sorted(objs), k):
            exported = [[p, objs[p]] for p in order]
            steps = [d0, d1, d2, twin]
            for p in order:
                steps += [[2, p, exported, 2], [3, True]]
            out.append((steps, 'class-hierarchy'))
    # an interface becomes known (declared / parsed), the client keeps nothing, a different definition arrives
    old = [[0, 'get', [1, s_], [1, ord('v')]]]
    new = [[0, 'get', [1, s_, u_], [1, [0, [2, s_, ord('v')]]]]]
    for replace in (False, True):
        for drop in ([[5]], []):
            out.append(([[0, 'a.b', old, 0]] + drop + [[0, 'a.b', new, 1], [2, '/', [['/', [1]]], 0], [3, replace]],
                        'references-dropped'))
            out.append(([[0, 'a.b', old, 1], [2, '/', [['/', [0]]], 0], [3, False]] + drop +
                        [[0, 'a.b', new, 1], [2, '/', [['/', [5]]], 0], [3, replace], [3, False]], 'references-dropped'))
            out.append(([[0, 'a.b', old, 1], [2, '/', [['/', [0]]], 0], [3, False],
                         [0, 'a.b', new, 1], [2, '/', [['/', [5]]], 0]] + drop + [[3, replace]], 'references-dropped'))
    return out


def elem(tag, attrs, children=()):
    out = [[0, tag, [[k, v] for k, v in attrs]]]
    for c in children:
        out += c
    out.append([1, tag])
    return out


def gen_raw_doc(ctx, rng, known_names):
    """a mostly well-formed introspection document with a few deviations"""
    dev = rng.random() < 0.6          # deviations allowed in this document

    def d(p):
        return dev and rng.random() < p

    def arg(in_method):
        attrs = []
        if not d(0.05):
            attrs.append(['type', rng.choice(['i', 's', 'a{sv}', '(ii)', 'as', '', 'a', 'v'])])
        if in_method or d(0.2):
            if not d(0.08):
                attrs.append(['direction', rng.choice(['in', 'out', 'in', 'out', 'IN', '', 'inout'])
                              if dev else rng.choice(['in', 'out'])])
        if d(0.1):
            attrs.append(['name', 'x'])
        rng.shuffle(attrs)
        return elem('arg', attrs)

    def annotation():
        nm = EMITS_NAME if not d(0.2) else rng.choice(['org.freedesktop.DBus.Deprecated', EMITS_NAME + 'x', ''])
        attrs = [] if d(0.05) else [['name', nm]]
        if not d(0.08):
            attrs.append(['value', rng.choice(['true', 'false', 'invalidates', 'True', 'const', ''])])
        return elem('annotation', attrs)

    def member():
        kind = rng.choice(['method', 'method', 'signal', 'property'])
        name = rng.choice(MEMBER_NAMES[:8])
        attrs = [] if d(0.04) else [['name', name]]
        kids = []
        if kind == 'property':
            if not d(0.05):
                attrs.append(['type', rng.choice(['i', 's', 'a{sv}', 'ay'])])
            if not d(0.05):
                attrs.append(['access', rng.choice(['read', 'write', 'readwrite']) if not d(0.4) else
                              rng.choice(['READ', 'Write', 'ReadWrite', 'readwritex', 'rw', '', 'reading', 'readwrit'])])
            if not d(0.3):
                kids.append(annotation())
            if d(0.1):
                kids.append(annotation())
            if d(0.06):
                kids.append(arg(False))
        else:
            for _ in range(rng.choice([0, 1, 2, 3])):
                kids.append(arg(kind == 'method'))
            if d(0.08):
                kids.append(annotation())
            if d(0.05):
                kids.insert(rng.randrange(len(kids) + 1), member())     # member nested in a member
        rng.shuffle(attrs)
        if d(0.03):
            kids.append(elem('doc', [['x', 'y']]))
        return elem(kind, attrs, kids)

    def iface():
        name = rng.choice(known_names) if known_names and rng.random() < 0.4 else rng.choice(IFACE_NAMES[:6])
        attrs = [] if d(0.03) else [['name', name]]
        kids = [member() for _ in range(rng.choice([0, 1, 2, 3, 4]))]
        if d(0.1):
            kids.insert(rng.randrange(len(kids) + 1), iface())          # interface nested in an interface
        if d(0.1):
            kids.append(arg(rng.random() < 0.5))                         # stray arg after a member ended
        if d(0.08):
            kids.append(annotation())                                   # stray annotation after a member ended
        return elem('interface', attrs, kids)

    kids = []
    for _ in range(rng.choice([1, 1, 2, 3])):
        kids.append(iface())
        if d(0.15):
            kids.append(member())                                       # member outside any interface
        if d(0.08):
            kids.append(arg(rng.random() < 0.5))
        if d(0.05):
            kids.append(annotation())
    if rng.random() < 0.5:
        kids.append(elem('node', [['name', 'child']]))
    if d(0.1):
        rng.shuffle(kids)
    root = 'node' if not d(0.05) else rng.choice(['interface', 'nodes', 'method'])
    return elem(root, [['name', '/x']] if not d(0.2) else [], kids)


def scen_raw(ctx, rng, pdecl):
    steps = []
    known = []
    for nm in rng.sample(IFACE_NAMES[:6], rng.choice([0, 1, 2])):
        steps.append([0, nm, gen_members(rng, True, maxm=2), 0])
        known.append(nm)
    steps.append([4, rng.random() < 0.3, gen_raw_doc(ctx, rng, known)])
    if rng.random() < 0.4:
        steps.append([4, rng.random() < 0.5, gen_raw_doc(ctx, rng, known + IFACE_NAMES[:3])])
    return steps, 'raw-events'


def small_exhaustive():
    """every access/notification mode, known x replace, noRegister forms, on one small interface"""
    out = []
    for rd in (False, True):
        for wr in (False, True):
            for em in (0, 1, 2):
                for known in (0, 1, 2):          # noreg of the exported interface
                    for replace in (False, True):
                        steps = [[0, 'a.b', [[2, 'P', [1, ord('i')], rd, wr, em],
                                             [0, 'M', [1, ord('s'), [0, ord('y')]], [1]],
                                             [1, 'S', [1, [1, ord('i'), ord('i')]]]], known],
                                 [2, '/', [['/', [0]]], 0], [3, replace], [3, replace]]
                        out.append((steps, 'exhaustive-small'))
    # every single complete type of depth <= 1 as the only argument, next to a second argument
    singles = [ord(c) for c in BASIC + 'v']
    ts = singles + [[0, t] for t in singles] + [[1, t] for t in singles] + \
        [[0, [2, k, ord('v')]] for k in singles[:13]] + [[1], [0, [1]], [2, ord('s'), ord('v')]]
    for t in ts:
        steps = [[0, 'a.b', [[0, 'M', [1, t, ord('i')], [1, ord('i'), t]], [1, 'S', [1, t]], [2, 'P', [1, t], True, False, 1]], 1],
                 [2, '/a', [['/a', [0]]], 0], [3, False]]
        out.append((steps, 'exhaustive-types'))
    return out


def gen_cases(ctx):
    rng = ctx.rng
    pdecl = props_decl()
    for c in small_exhaustive():
        yield c
    n = ctx.n(1500, 30000)
    for i in range(n):
        r = rng.random()
        if r < 0.62:
            yield scen_export(ctx, rng, pdecl)
        elif r < 0.68:
            yield scen_bad_sig(ctx, rng, pdecl)
        elif r < 0.72:
            yield scen_no_object(ctx, rng, pdecl)
        else:
            yield scen_raw(ctx, rng, pdecl)
    # exporting objects of a class hierarchy; clients that do not keep what they declared / parsed
    for c in small_hierarchy_and_drop(pdecl):
        yield c
    for _ in range(ctx.n(150, 2500)):
        yield scen_hierarchy(ctx, rng, pdecl)
    for _ in range(ctx.n(120, 2500)):
        yield scen_drop(ctx, rng, pdecl)
    # a few large ones
    for _ in range(ctx.n(5, 50)):
        ds = [[0, 'M%d' % j, gen_sig(rng, 6, 5), gen_sig(rng, 4, 5)] for j in rng.sample(range(40), 12)]
        ds += [[1, 'S%d' % j, gen_sig(rng, 6, 5)] for j in rng.sample(range(40), 8)]
        ds += [[2, 'P%d' % j, [1, gen_type(rng, 5)], True, rng.random() < 0.5, rng.choice([0, 1, 2])]
               for j in rng.sample(range(40), 8)]
        rng.shuffle(ds)
        yield ([[0, 'big.iface', ds, 1], [2, '/', [['/', [0]]], 0], [3, False], [3, True]], 'large')
    # histories on one mutable interface object
    for c in exhaustive_histories(ctx):
        yield c
    for _ in range(ctx.n(2500, 40000)):
        yield (gen_history(rng), 'history-random')


# --------------------------------------------------------------------------
# the implementation side
def to_str(x):
    """model output -> python: bytes become str"""
    if isinstance(x, bytes):
        return x.decode('latin-1')
    if isinstance(x, list):
        return [to_str(e) for e in x]
    return x


def member_view(m):
    cls = type(m).__name__
    try:
        if cls == 'Method':
            return [0, m.name, m.nargs, m.nret, m.sigIn, m.sigOut]
        if cls == 'Signal':
            return [1, m.name, m.nargs, m.sig]
        if cls == 'Property':
            e = m.emits
            return [2, m.name, m.sig, m.access, 1 if (e is True or e in ('true', 'invalidates')) else 0]
    except AttributeError:
        pass
    return ['?', cls]


def dict_view(d):
    return sorted([k, member_view(v)] for k, v in d.items())


def iface_view(i):
    return [i.name, dict_view(i.methods), dict_view(i.signals), dict_view(i.properties)]


def prop_view(i):
    """what the property statement lists: name; methods; signals; properties by type and access"""
    def pv(m):
        v = member_view(m)
        return v[:4] if v[0] == 2 else v
    return [i.name] + [sorted([k, pv(v)] for k, v in d.items()) for d in (i.methods, i.signals, i.properties)]


def xml_events(xml):
    def walk(e):
        out = [[0, e.tag, sorted([k, v] for k, v in e.attrib.items())]]
        for c in e:
            out += walk(c)
        out.append([1, e.tag])
        return out
    return walk(ET.fromstring(xml))


def events_xml(evs):
    parts = []
    for e in evs:
        if e[0] == 0:
            parts.append('<%s%s>' % (e[1], ''.join(' %s=%s' % (k, quoteattr(v)) for k, v in e[2])))
        else:
            parts.append('</%s>' % e[1])
    return '\n'.join(parts)


def sort_attrs(evs):
    """canonical form of a generated document: attributes of an element in key order, and the member
    elements of an <interface> in (tag, attributes) order - the property is indifferent to the order in which
    _getXml lists members (argument order inside a member and the order of interfaces are kept)"""
    pos = [0]

    def tree():
        e = evs[pos[0]]
        pos[0] += 1
        node = [e[1], sorted(e[2]), []]
        while evs[pos[0]][0] == 0:
            node[2].append(tree())
        pos[0] += 1                      # the end event
        return node

    def flat(n):
        kids = sorted(n[2], key=lambda c: (c[0], c[1])) if n[0] == 'interface' else n[2]
        out = [[0, n[0], n[1]]]
        for c in kids:
            out += flat(c)
        out.append([1, n[0]])
        return out

    try:
        return flat(tree())
    except IndexError:                   # not balanced: compare as is
        return [[0, e[1], sorted(e[2])] if e[0] == 0 else e for e in evs]


class Exporter:
    def __init__(self, ifs):
        self.ifs = ifs

    def getInterfaces(self):
        return iter(self.ifs)


class Dropped(object):
    """heap entry of an object the client no longer refers to (step 5): what it showed when it was dropped,
    and a weak reference (no claim on its lifetime) so that it is recognised if the library hands it out again"""
    __slots__ = ('ref', 'view', 'pview', 'name')


def run_impl(steps):
    """-> (answers, heap views, known view, oracle findings, info)"""
    from txdbus import interface, introspection, objects
    K = interface.DBusInterface.knownInterfaces
    saved = dict(K)
    K.clear()
    heap = []
    index = {}
    answers = []
    findings = []      # (why, signature)
    info = {'parses_ok': 0, 'blocks': {}, 'members': 0}
    doc = None
    doc_ids = None
    snapshot = None
    classes = {}       # mode 2: tuple of heap ids -> exporting class (one hierarchy per scenario)
    ledger = {}        # name -> what the interface known locally under that name shows (prop_view), kept by the
    #                    rule of the property text alone: a registering declaration or a parse makes a name known,
    #                    a parse without replacement leaves a known name alone, clear() forgets.  None = not tracked
    #                    any more (after a raw-event document, whose blocks need not be interfaces)
    out = got = exp = obj = ms = kn = touched = known_before = ifs = cls = None

    def live(i):
        h = heap[i]
        return h.ref() if isinstance(h, Dropped) else h

    def ident(o):
        i = index.get(id(o))
        if i is None:
            for j, h in enumerate(heap):
                if isinstance(h, Dropped) and h.ref() is o:
                    return j
        return i

    def view_of(h):
        if isinstance(h, Dropped):
            o = h.ref()
            return h.view if o is None else iface_view(o)
        return iface_view(h)

    def class_for(ids):
        c = classes.get(ids)
        if c is None:
            if ids:
                c = type('Exported', (class_for(ids[1:]),), {'dbusInterfaces': [live(ids[0])]})
            else:
                c = type('Exported', (objects.DBusObject,), {})
            classes[ids] = c
        return c

    def dump_world():
        known = []
        for k, v in list(K.items()):
            i = ident(v)
            known.append([k, -1 if i is None else i])
        return ([view_of(h) for h in heap], sorted(known))

    try:
        for st in steps:
            if st[0] == 0:
                try:
                    ms = []
                    for d in st[2]:
                        if d[0] == 0:
                            ms.append(interface.Method(d[1], sig_text(d[2]), sig_text(d[3])))
                        elif d[0] == 1:
                            ms.append(interface.Signal(d[1], sig_text(d[2])))
                        else:
                            ms.append(interface.Property(d[1], sig_text(d[2]), bool(d[3]), bool(d[4]),
                                                         {0: False, 1: True, 2: 'invalidates'}[d[5]]))
                    kw = {} if st[3] == 0 else {'noRegister': st[3] == 1}
                    obj = interface.DBusInterface(st[1], *ms, **kw)
                except Exception:
                    answers.append([0])
                    continue
                index[id(obj)] = len(heap)
                heap.append(obj)
                info['members'] += len(st[2])
                answers.append([1, len(heap) - 1])
                if ledger is not None and st[3] == 0:
                    ledger[st[1]] = prop_view(obj)
            elif st[0] == 1:
                K.clear()
                answers.append([])
                if ledger is not None:
                    ledger.clear()
            elif st[0] == 5:
                for j, h in enumerate(heap):
                    if isinstance(h, Dropped):
                        continue
                    d = Dropped()
                    try:
                        d.ref = weakref.ref(h)
                    except TypeError:
                        continue                         # cannot be watched without holding it: it is kept
                    d.view, d.pview, d.name = iface_view(h), prop_view(h), h.name
                    index.pop(id(h), None)
                    heap[j] = d
                classes.clear()
                h = d = out = got = exp = obj = ms = kn = touched = known_before = ifs = cls = exported = None
                gc.collect()
                info['drops'] = info.get('drops', 0) + 1
                answers.append([])
            elif st[0] == 2:
                exported = {}
                ids = None
                if any(i >= len(heap) for _, kids in st[2] for i in kids):
                    # an earlier step went differently from what the scenario expects (already a
                    # disagreement with the model): stop here
                    answers.append(['no-such-object'])
                    w = dump_world()
                    return answers, w[0], w[1], findings, info
                if any(live(i) is None for _, kids in st[2] for i in kids):
                    # the scenario exports an object that it dropped and that nobody kept: not expressible
                    answers.append(['object-gone'])
                    w = dump_world()
                    return answers, w[0], w[1], findings, info
                for key, kids in st[2]:
                    ifs = [live(i) for i in kids]
                    if st[3] == 1 and kids:
                        cls = type('Exported', (objects.DBusObject,), {'dbusInterfaces': ifs[:-1]})
                        exported[key] = cls('/')
                    elif st[3] == 2 and kids:
                        exported[key] = class_for(tuple(kids[:-1]))('/')
                        info['hierarchy_exports'] = info.get('hierarchy_exports', 0) + (1 if key == st[1] else 0)
                    else:
                        exported[key] = Exporter(ifs)
                    if key == st[1]:
                        ids = kids
                try:
                    xml = introspection.generateIntrospectionXML(st[1], exported)
                except Exception:
                    answers.append([0])
                    doc = None
                    continue
                if xml is None:
                    answers.append([2])
                    doc = None
                else:
                    answers.append([1, xml_events(xml)])
                    doc, doc_ids = xml, ids
            elif st[0] in (3, 4):
                replace = bool(st[1])
                if st[0] == 3:
                    xml, blocks = doc, doc_ids
                else:
                    xml, blocks = events_xml(st[2]), None
                snapshot = dump_world()
                known_before = dict(K)
                try:
                    out = introspection.getInterfacesFromXML(xml, replace)
                except Exception:
                    answers.append([0])
                    return answers, snapshot[0], snapshot[1], findings, info
                was = [ident(o) for o in out]          # heap index before this parse, None = made by it
                rids = []
                for o in out:
                    i = ident(o)
                    if i is None:
                        i = index[id(o)] = len(heap)
                        heap.append(o)
                    rids.append(i)
                answers.append([1, rids])
                info['parses_ok'] += 1
                if blocks is None:
                    ledger = None
                # ---- the property, evaluated on the implementation's own observations ----
                if blocks is not None:
                    names = [heap[h].name for h in blocks] + STD
                    if len(out) != len(names):
                        findings.append(('%d interfaces returned for %d exported + 3 standard'
                                         % (len(out), len(blocks)), 'roundtrip:interface-count'))
                    kn = dict(known_before)
                    touched = {}
                    for pos, name in enumerate(names[:len(out)]):
                        got = out[pos]
                        exp = heap[blocks[pos]] if pos < len(blocks) else None
                        exp_view = None if exp is None else (exp.pview if isinstance(exp, Dropped) else prop_view(exp))
                        # the cache rule by content, against the harness's own ledger of what is known locally
                        if ledger is not None:
                            if not replace and name in ledger:
                                info['ledger_reuse_checked'] = info.get('ledger_reuse_checked', 0) + 1
                                if prop_view(got) != ledger[name]:
                                    findings.append(('interface %r is known locally as %r and no replacement was '
                                                     'requested, but the parse returned %r'
                                                     % (name, ledger[name], prop_view(got)), 'cache:known-not-reused'))
                            else:
                                ledger[name] = prop_view(got)
                        if not replace and name in kn:
                            key = 'known-reused'
                            if got is not kn[name]:
                                findings.append(('interface %r was known locally, no replacement requested, but '
                                                 'another object was returned' % name, 'cache:known-not-reused'))
                        else:
                            key = 'replaced' if name in kn else 'new'
                            if was[pos] is not None:
                                findings.append(('interface %r: an existing object was returned although %s'
                                                 % (name, 'replacement was requested' if replace else 'it was not known'),
                                                 'cache:not-replaced'))
                            elif exp is not None and prop_view(got) != exp_view:
                                findings.append(('interface %r recovered from its XML differs from the exported one: '
                                                 '%r vs %r' % (name, prop_view(got), exp_view),
                                                 'roundtrip:interface-differs'))
                            kn[name] = got
                            touched[name] = got
                        if exp is not None:
                            info['blocks'][key] = info['blocks'].get(key, 0) + 1
                    for name, got in touched.items():
                        if K.get(name) is not got:
                            findings.append(('interface %r was parsed but is not the known one afterwards' % name,
                                             'cache:not-registered'))
        w = dump_world()
        return answers, w[0], w[1], findings, info
    finally:
        K.clear()
        K.update(saved)


def is_events(a):
    return len(a) == 2 and a[0] == 1


def norm_model(o, steps):
    """model answer -> comparable python value (+ the spec view per declare step)"""
    answers, heap, known = to_str(o)
    a2 = []
    specs = {}
    for k, a in enumerate(answers):
        kind = steps[k][0]
        if a and a[0] == 0 and kind != 1:
            a2.append([0])                                   # error (code dropped)
        elif kind == 0:
            a2.append([1, a[1]])                             # (1 id spec)
            specs[k] = a[2][0] if a[2] else None
        elif kind == 2 and a[0] == 1:
            a2.append([1, sort_attrs(a[1])])
        else:
            a2.append(a)
    hv = [[i[0]] + [sorted(d) for d in i[1:]] for i in heap]
    return a2, hv, sorted(known), specs



# --------------------------------------------------------------------------
# histories on one mutable interface object (Model/IfaceCache.v)
H_NAMES = ['A', 'B', 'b']
S, I, U, V, Y = ord('s'), ord('i'), ord('u'), ord('v'), ord('y')
H_METHOD_DEFS = [([1, S], [1, I]), ([1, I, I], [1]), ([1], [1, S]), ([1, S, [0, [2, S, V]]], [1, [1, I, I]]),
                 ([1, [0, Y]], [1, S, U]), ([1, S], [1, S])]
H_SIGNAL_DEFS = [[1, S], [1, S, V], [1], [1, [0, [1, I, S]]], [1, I]]
H_PROP_DEFS = [([1, I], True, False, 1), ([1, U], True, True, 0), ([1, S], False, True, 2), ([1, [0, S]], True, False, 1),
               ([1, I], True, True, 1)]


def h_decl(rng, kind, name, wide):
    if wide and rng.random() < 0.35:
        return gen_decl(rng, kind, name, True, bad=(kind != 2 and rng.random() < 0.25))
    if kind == 0:
        a, r = rng.choice(H_METHOD_DEFS)
        return [0, name, a, r]
    if kind == 1:
        return [1, name, rng.choice(H_SIGNAL_DEFS)]
    t, rd, wr, em = rng.choice(H_PROP_DEFS)
    return [2, name, t, rd, wr, em]


def h_lit(rng, name):
    r = rng.random()
    if r < 0.4:
        a, b = rng.choice(H_METHOD_DEFS)
        ok = rng.random() < 0.6
        return [0, name, len(a) - 1 if ok else rng.choice([0, 1, 3, -1]), len(b) - 1 if ok else rng.choice([0, 2]),
                sig_text(a) if rng.random() < 0.85 else rng.choice(BAD_SIGS), sig_text(b)]
    if r < 0.8:
        a = rng.choice(H_SIGNAL_DEFS)
        return [1, name, rng.choice([len(a) - 1, len(a) - 1, 0, 2, -1]),
                sig_text(a) if rng.random() < 0.85 else rng.choice(BAD_SIGS)]
    t, rd, wr, em = rng.choice(H_PROP_DEFS)
    return [2, name, t, rd, wr, em]


def gen_history(rng):
    wide = rng.random() < 0.3            # random signatures / invalid texts / given objects too
    names = rng.sample(H_NAMES, rng.choice([2, 2, 3]))
    kinds = rng.choice([[0], [0], [1], [2], [0, 1], [0, 1, 2], [0, 1, 2]])
    n = rng.choice([2, 3, 4, 5, 6, 6])
    hops = []
    added = []                           # (kind, name) of earlier additions: deletions mostly hit one of them
    for _ in range(n):
        r = rng.random()
        if r < 0.45:
            k, nm = rng.choice(kinds), rng.choice(names)
            if added and rng.random() < 0.3:
                k, nm = rng.choice(added)            # re-declaration (or re-addition after a delete)
            hops.append([0, h_decl(rng, k, nm, wide)])
            added.append((k, nm))
        elif r < 0.6:
            k, nm = rng.choice(added) if added and rng.random() < 0.75 else (rng.choice(kinds), rng.choice(names))
            hops.append([1, k, nm])
        elif r < 0.8:
            hops.append([2])
        elif r < 0.95 or not wide:
            hops.append([3, rng.choice(['/', '/a', '/a/b'])])
        else:
            lit = h_lit(rng, rng.choice(names))
            hops.append([4, lit[0] if rng.random() < 0.7 else rng.choice([0, 1, 2]), lit])
    if hops[-1][0] not in (2, 3):
        hops[-1] = [3, '/obj'] if rng.random() < 0.7 else [2]
    return ['history', rng.choice(['a.b', 'org.example.Iface', STD[1]]), hops]


def history_alphabets():
    m = H_METHOD_DEFS
    small = [[0, [0, 'A', m[0][0], m[0][1]]], [0, [0, 'A', m[1][0], m[1][1]]], [0, [0, 'B', m[2][0], m[2][1]]],
             [1, 0, 'A'], [2], [3, '/']]
    full = small + [[0, [1, 'A', H_SIGNAL_DEFS[0]]], [0, [1, 'A', H_SIGNAL_DEFS[1]]], [1, 1, 'A'],
                    [0, [2, 'A'] + list(H_PROP_DEFS[0])], [0, [2, 'A'] + list(H_PROP_DEFS[1])], [1, 2, 'A']]
    return small, full


def exhaustive_histories(ctx):
    """every history over the alphabets up to the stated lengths, each followed by an export"""
    import itertools
    small, full = history_alphabets()
    for alpha, lens in ((full, ctx.n([1, 2, 3], [1, 2, 3, 4])), (small, ctx.n([4], [5, 6]))):
        for k in lens:
            for combo in itertools.product(alpha, repeat=k):
                yield (['history', 'a.b', [list(h) for h in combo] + [[3, '/']]], 'history-exhaustive')


def make_member(interface, d):
    if d[0] == 0:
        return interface.Method(d[1], sig_text(d[2]), sig_text(d[3]))
    if d[0] == 1:
        return interface.Signal(d[1], sig_text(d[2]))
    return interface.Property(d[1], sig_text(d[2]), bool(d[3]), bool(d[4]), {0: False, 1: True, 2: 'invalidates'}[d[5]])


def spec_view(v):
    """of an iface_view, what the property statement lists, in the shape of the model's spec answer"""
    return [sorted([m[1], m[4], m[5], m[2], m[3]] for _, m in v[1] if m[0] == 0),
            sorted([m[1], m[3], m[2]] for _, m in v[2] if m[0] == 1),
            sorted([m[1], m[2], m[3]] for _, m in v[3] if m[0] == 2)]


def run_history_impl(name, hops):
    """-> (answers, final view, reads, info); reads = per read hop (index, live view, parsed view or None, api_only)"""
    from txdbus import interface, introspection
    K = interface.DBusInterface.knownInterfaces
    saved = dict(K)
    K.clear()
    info = {'reads': 0, 'reads_after_change_after_read': 0, 'redeclared_after_read': 0, 'readded_after_delete': 0,
            'failed_deletes': 0, 'failed_adds': 0, 'given_objects': 0, 'xml_raises': 0}
    try:
        obj = interface.DBusInterface(name, noRegister=True)
        answers = []
        reads = []
        api_only = True            # every member stored so far came from Method()/Signal()/Property() + its own addX
        read_before = False        # the XML has been asked for
        dirty_after_read = False   # ... and the object was changed since
        deleted = set()
        for idx, h in enumerate(hops):
            if h[0] in (0, 4):
                if h[0] == 0:
                    d, target = h[1], h[1][0]
                    m = make_member(interface, d)
                else:
                    target, lit = h[1], h[2]
                    if lit[0] == 0:
                        m = interface.Method(lit[1], lit[4], lit[5])
                        m.nargs, m.nret = lit[2], lit[3]
                    elif lit[0] == 1:
                        m = interface.Signal(lit[1], lit[3])
                        m.nargs = lit[2]
                    else:
                        m = make_member(interface, lit)
                    info['given_objects'] += 1
                dct = (obj.methods, obj.signals, obj.properties)[target]
                existed = m.name in dct
                try:
                    (obj.addMethod, obj.addSignal, obj.addProperty)[target](m)
                except Exception:
                    answers.append([0])
                    info['failed_adds'] += 1
                    continue
                answers.append([])
                if h[0] == 4:
                    api_only = False
                if read_before:
                    dirty_after_read = True
                    if existed:
                        info['redeclared_after_read'] += 1
                if (target, m.name) in deleted:
                    info['readded_after_delete'] += 1
                    deleted.discard((target, m.name))
            elif h[0] == 1:
                try:
                    (obj.delMethod, obj.delSignal, obj.delProperty)[h[1]](h[2])
                except Exception:
                    answers.append([0])
                    info['failed_deletes'] += 1
                    continue
                answers.append([])
                deleted.add((h[1], h[2]))
                if read_before:
                    dirty_after_read = True
            else:
                info['reads'] += 1
                if dirty_after_read:
                    info['reads_after_change_after_read'] += 1
                live = iface_view(obj)
                parsed = None
                if h[0] == 2:
                    try:
                        xml = obj._getXml()
                    except Exception:
                        answers.append([0])
                        info['xml_raises'] += 1
                        reads.append((idx, live, None, api_only, 'raised'))
                        continue
                    answers.append([1, xml_events(xml)])
                    read_before = True
                    if api_only:
                        # oracle only (not compared with the model): the interface element alone, parsed back
                        try:
                            out = introspection.getInterfacesFromXML('<node>\n%s\n</node>' % xml, True)
                            parsed = iface_view(out[0])
                        except Exception:
                            parsed = 'parse raised'
                        K.clear()
                    reads.append((idx, live, parsed, api_only, 'ok'))
                else:
                    try:
                        xml = introspection.generateIntrospectionXML(h[1], {h[1]: Exporter([obj])})
                        if not isinstance(xml, str):
                            raise TypeError('generateIntrospectionXML returned %r for an exported path' % (xml,))
                    except Exception:
                        answers.append([0])
                        info['xml_raises'] += 1
                        reads.append((idx, live, None, api_only, 'raised'))
                        continue
                    read_before = True
                    evs = xml_events(xml)
                    try:
                        out = introspection.getInterfacesFromXML(xml, replaceKnownInterfaces=True)
                        parsed = iface_view(out[0])
                        answers.append([1, evs, parsed])
                    except Exception:
                        parsed = 'parse raised'
                        answers.append([2, evs])
                    K.clear()
                    reads.append((idx, live, parsed, api_only, 'ok'))
        return answers, iface_view(obj), reads, info
    finally:
        K.clear()
        K.update(saved)


def norm_iface_model(i):
    return [i[0]] + [sorted(d) for d in i[1:]]


def norm_history_model(o, hops):
    """-> (answers comparable with the implementation's, final object view, spec per read hop, final spec)"""
    answers, final, spec = to_str(o)
    a2 = []
    specs = {}
    for k, a in enumerate(answers):
        kind = hops[k][0]
        if a and a[0] == 0:
            a2.append([0])
        elif kind == 2:
            a2.append([1, sort_attrs(a[1])])
            specs[k] = a[2][0] if a[2] else None
        elif kind == 3 and a[0] == 1:
            a2.append([1, sort_attrs(a[1]), norm_iface_model(a[2])])
            specs[k] = a[3][0] if a[3] else None
        elif kind == 3:
            a2.append([2, sort_attrs(a[1])])
        else:
            a2.append(a)
    return a2, norm_iface_model(final), specs, (spec[0] if spec else None)


def canon_spec(spec):
    return [sorted(map(list, {tuple(x) for x in part})) for part in spec]


def evaluate_histories(ctx, cases, res):
    lines = ['(15 1 %s %s)' % (common.dump(c[1]), common.dump(c[2])) for c, _ in cases]
    outs = common.run_model(lines)
    shapes = {}
    totals = {}
    spec_reads = 0
    for (case, shape), o in zip(cases, outs):
        if o == [-1]:
            raise RuntimeError('model rejected input %r' % (case,))
        _, name, hops = case
        m_answers, m_final, m_specs, m_final_spec = norm_history_model(o, hops)
        i_answers, i_final, reads, info = run_history_impl(name, hops)
        shapes[shape] = shapes.get(shape, 0) + 1
        for k, v in info.items():
            totals[k] = totals.get(k, 0) + v
        res.count(case, nontrivial=info['reads_after_change_after_read'] > 0)
        impl = []
        for k, a in enumerate(i_answers):
            if a and a[0] in (1, 2) and hops[k][0] in (2, 3):
                impl.append([a[0], sort_attrs(a[1])] + a[2:])
            else:
                impl.append(a)
        # ---- correspondence: implementation vs model (Model/IfaceCache.v) ----
        if impl != m_answers:
            bad = next((k for k, (x, y) in enumerate(zip(impl, m_answers)) if x != y), min(len(impl), len(m_answers)))
            res.disagree(case, {'hop': bad, 'answer': impl[bad] if bad < len(impl) else None},
                         {'hop': bad, 'answer': m_answers[bad] if bad < len(m_answers) else None})
        elif i_final != m_final:
            res.disagree(case, {'final object': i_final}, {'final object': m_final})
        # ---- oracle: at every moment the XML, parsed back, is the interface as currently declared ----
        for idx, live, parsed, api_only, status in reads:
            where = 'hop %d of %r' % (idx, hops)
            if not api_only:
                continue
            if status == 'raised':
                res.violate(case, 'asking for the XML raised although every member was declared through the API (%s)'
                            % where, 'history:xml-raises')
                continue
            if parsed == 'parse raised':
                res.violate(case, 'the generated XML could not be parsed back (%s)' % where, 'history:parse-raises')
                continue
            got, want = [parsed[0]] + spec_view(parsed), [live[0]] + spec_view(live)
            if got != want:
                res.violate(case, 'the XML obtained at %s, parsed back, shows %r but the interface is currently '
                            'declared as %r (stale or wrong XML)' % (where, got, want), 'history:stale-xml')
            spec = m_specs.get(idx)
            if spec is not None:
                spec_reads += 1
                if spec_view(live) != canon_spec(spec):
                    res.violate(case, 'at %s the object shows %r, the definition in force is %r'
                                % (where, spec_view(live), canon_spec(spec)), 'history:declaration-differs')
        if m_final_spec is not None and spec_view(i_final) != canon_spec(m_final_spec):
            res.violate(case, 'after %r the object shows %r, the definition in force is %r'
                        % (hops, spec_view(i_final), canon_spec(m_final_spec)), 'history:declaration-differs')
        # a typed declaration must be accepted
        for k, h in enumerate(hops[:len(i_answers)]):
            if h[0] == 0 and i_answers[k] == [0] and all(sg[0] == 1 for sg in h[1][2:(4 if h[1][0] == 0 else 3)]):
                res.violate(case, 'a declaration with signatures from the type grammar was rejected: %r' % (h,),
                            'declare:rejected')
    totals['reads_checked_against_spec'] = spec_reads
    res.extra['history_shapes'] = shapes
    res.extra['history_distribution'] = totals
    for c in cases[:1] + cases[-2:]:
        res.sample(c[0])


def is_history(c):
    return isinstance(c, (list, tuple)) and len(c) == 3 and c[0] == 'history'


def evaluate(ctx, cases, res):
    cases = [tuple(c) if (isinstance(c, (list, tuple)) and len(c) == 2 and isinstance(c[1], str)) else (c, 'replay')
             for c in cases]
    hist = [c for c in cases if is_history(c[0])]
    cases = [c for c in cases if not is_history(c[0])]
    if hist:
        evaluate_histories(ctx, hist, res)
    if not cases:
        return
    # step 5 (the client drops its references) is no call of the library: the model runs the other steps
    lines = ['(15 %s)' % common.dump([st for st in steps if st[0] != 5]) for steps, _ in cases]
    outs = common.run_model(lines)
    shapes = {}
    blocks = {}
    stats = {'parses_ok': 0, 'scenarios_ending_in_error': 0, 'members_declared': 0, 'spec_checked_declarations': 0,
             'declarations_rejected': 0, 'max_type_depth': 0}
    if any(st[0] == 5 for steps, _ in cases for st in steps):
        # step 5 runs the collector: set the (large, live) harness data aside so that each run looks at the
        # scenario's own objects only
        gc.collect()
        gc.freeze()
    try:
        evaluate_scenarios(cases, outs, res, shapes, blocks, stats)
    finally:
        gc.unfreeze()
    res.extra['scenario_shapes'] = shapes
    res.extra['interface_blocks_by_cache_state'] = blocks
    res.extra['input_distribution'] = stats
    for c in cases[:1] + cases[len(cases) // 2: len(cases) // 2 + 2]:
        res.sample(c[0])


def evaluate_scenarios(cases, outs, res, shapes, blocks, stats):
    for (steps, shape), o in zip(cases, outs):
        if o == [-1]:
            raise RuntimeError('model rejected input %r' % (steps,))
        if any(st[0] == 5 for st in steps):
            where = [k for k, st in enumerate(steps) if st[0] != 5]
            m_ans, m_heap, m_known, m_sp = norm_model(o, [steps[k] for k in where])
            m_specs = {where[k]: v for k, v in m_sp.items()}
            m_answers, j, ended = [], 0, False
            for st in steps:
                if ended:
                    break
                if st[0] == 5:
                    m_answers.append([])
                elif j < len(m_ans):
                    m_answers.append(m_ans[j])
                    ended = m_ans[j] == [0] and st[0] in (3, 4)
                    j += 1
                else:
                    break
        else:
            m_answers, m_heap, m_known, m_specs = norm_model(o, steps)
        i_answers, i_heap, i_known, findings, info = run_impl(steps)
        for k in ('drops', 'hierarchy_exports', 'ledger_reuse_checked'):
            stats[k] = stats.get(k, 0) + info.get(k, 0)
        case = steps
        shapes[shape] = shapes.get(shape, 0) + 1
        for k, v in info['blocks'].items():
            blocks[k] = blocks.get(k, 0) + v
        stats['parses_ok'] += info['parses_ok']
        stats['members_declared'] += info['members']
        if i_answers and i_answers[-1] == [0] and steps[len(i_answers) - 1][0] in (3, 4):
            stats['scenarios_ending_in_error'] += 1
        res.count(case, nontrivial=info['parses_ok'] > 0 and info['members'] > 0)
        impl = [[1, sort_attrs(a[1])] if (steps[k][0] == 2 and a[0] == 1) else a for k, a in enumerate(i_answers)]
        # ---- correspondence: implementation vs model ----
        if impl != m_answers:
            bad = next((k for k, (x, y) in enumerate(zip(impl, m_answers)) if x != y), min(len(impl), len(m_answers)))
            res.disagree(case, {'step': bad, 'answer': impl[bad] if bad < len(impl) else None},
                         {'step': bad, 'answer': m_answers[bad] if bad < len(m_answers) else None})
        elif i_heap != m_heap:
            bad = next((k for k, (x, y) in enumerate(zip(i_heap, m_heap)) if x != y), -1)
            res.disagree(case, {'object': bad, 'view': i_heap[bad] if 0 <= bad < len(i_heap) else len(i_heap)},
                         {'object': bad, 'view': m_heap[bad] if 0 <= bad < len(m_heap) else len(m_heap)})
        elif i_known != m_known:
            res.disagree(case, {'known': i_known}, {'known': m_known})
        # ---- oracle 1: the declared object shows the typed definition (Spec/IntrospectSpec.v `declared`) ----
        for k, st in enumerate(steps[:len(i_answers)]):
            if st[0] != 0:
                continue
            spec = m_specs.get(k)
            if i_answers[k] == [0]:
                stats['declarations_rejected'] += 1
                if spec is not None:
                    res.violate(case, 'a declaration with signatures from the type grammar was rejected: %r' % (st,),
                                'declare:rejected')
                continue
            if spec is None:
                continue
            stats['spec_checked_declarations'] += 1
            v = i_heap[i_answers[k][1]]
            got = [sorted([m[1], m[4], m[5], m[2], m[3]] for _, m in v[1] if m[0] == 0),
                   sorted([m[1], m[3], m[2]] for _, m in v[2] if m[0] == 1),
                   sorted([m[1], m[2], m[3]] for _, m in v[3] if m[0] == 2)]
            want = [sorted(map(list, {tuple(x) for x in part})) for part in spec]
            if v[0] != st[1] or got != want:
                res.violate(case, 'declared interface %r shows %r, the definition says %r' % (v[0], got, want),
                            'declare:content-differs')
        # ---- oracle 2: the round trip and the cache rule ----
        for why, sig in findings:
            res.violate(case, why, sig)
        for st in steps:
            if st[0] == 0:
                for d in st[2]:
                    for sg in d[2:4]:
                        if isinstance(sg, list) and sg and sg[0] == 1:
                            for t in sg[1:]:
                                stats['max_type_depth'] = max(stats['max_type_depth'], type_depth(t))


def run(ctx, res):
    res.rule = ('scenarios over a fresh world: declare 1-3 interfaces (0-6 methods/signals/properties each, names from '
                'a pool so that duplicates and std-name collisions occur, signatures generated from the type grammar '
                'to depth 3-5, some non-wf trees, some invalid texts), optionally with older known versions / '
                'noRegister / cache cleared; generateIntrospectionXML for an exporting object (stub or DBusObject '
                'subclass) among other exported paths; getInterfacesFromXML once or twice with both replace flags; '
                're-export of parsed objects; plus raw element-event documents with deviations (stray/nested members, '
                'missing attributes, odd access/direction/annotation values); scenarios exporting several objects whose '
                'classes form one hierarchy (derived class adds an interface; siblings share a base; root class with '
                'none), introspected and parsed one after the other in every small and random orders of first use; '
                'scenarios in which names become known (declared or parsed), the client drops every reference it holds '
                '(collector run) and a document defining the same names differently is parsed with or without '
                'replacement - judged by content against a ledger of known definitions kept from the property text; '
                'and an exhaustive small block (access x '
                'notification x known x replace; every type of depth <= 1). Compared per step: Ok/Err, object '
                'identities (creation index), element events, then every object\'s content and knownInterfaces. '
                'non-trivial = at least one successful parse and one declared member; distinct by hash. '
                'Histories on one mutable DBusInterface(noRegister=True): 2-6 calls of addMethod/addSignal/addProperty '
                '(member names from a pool of 2-3, definitions differing in signatures / argument counts / access, so '
                're-declaration and delete + re-add of a name are frequent; some random-grammar and invalid signatures, '
                'some given objects with preset counts or of another class), delMethod/delSignal/delProperty (present or '
                'not), _getXml(), generateIntrospectionXML for an object exporting it + getInterfacesFromXML(replace); '
                'exhaustive over a 12-call alphabet to length 3 (thorough 4) and a 6-call alphabet at length 4 '
                '(thorough 5-6), each followed by an export. Compared per call: Ok/Err, element events, the parsed '
                'object, the final object; oracle: XML parsed back == interface as currently declared == definition in '
                'force. non-trivial history = the XML is read after a change made after an earlier read')
    evaluate(ctx, list(gen_cases(ctx)), res)
    res.extra['exhaustive_scope'] = ('access(4) x notification(3) x noRegister form(3) x replace(2); all types of depth <= 1; '
                                     'histories: 12-call alphabet, every sequence of length <= %d; 6-call alphabet, length %s'
                                     % (ctx.n(3, 4), ctx.n('4', '5-6')))
