"""C14 correspondence: message delivery by txdbus's built-in bus (txdbus.bus: BusProtocol.rawDBusMessageReceived,
Bus.clientConnected / clientDisconnected / messageReceived / sendMessage / sendSignal / broadcastSignal /
dbus_AddMatch, on top of the name table of C13 and the match rules of C12) vs Model/BusRoute.v (model and
pre-repair model) and Spec/BusRouteSpec.v (oracle).

A case is a history (encoding in coq/Model/OpsC14.v):
    [0, msg, cut, pre]      a new connection is made; msg is the first message it sends (it becomes connection k,
                            k counting the [0] operations)
    [1, c, msg, cut, pre]   connection c sends msg
    [2, c]                  connection c's transport is lost
msg = [le, type, flags, serial, [[field code, value], ...], [type tree, ...], [wire value, ...]] (vocabulary of
harness/marshal_common.py); cut > 0: the first `cut` bytes of the message arrive `pre` operations earlier (pre = 0:
just before the rest), so reads of different connections interleave inside messages.

The real Bus is driven from outside only (machinery of harness/c13.py): one bus.Bus(), one BusProtocol per connection
on a fake transport, authentication bypassed; every message is encoded by harness/c14_wire.py (independent of txdbus,
either byte order; the bodies are cross-checked against the extracted WireSpec encoder) and fed as raw bytes through
dataReceived.  After each operation every transport is drained and the bytes written are split and decoded by the
same independent module: a message carrying a sender field is a forwarded peer message (compared field by field
with the signature written in each header field's variant, and the body byte for byte); one without is the bus's own
reply or signal (compared by what it answers / announces, not by its serial).
Observation per operation: {connection: [messages written, in order]}, loseConnection on the sender's transport."""
import struct

from harness import common, c13, c14_wire, c17_wire
from harness import marshal_common as mc

ASSUMPTIONS = [
    'connections are authenticated (setAuthenticationSucceeded is called directly; authentication is C06); a connection '
    'that has not sent a complete message is unknown to the bus (it is in no table and losing it has no effect), so a '
    'history introduces a connection with its first message',
    'Twisted delivers no data after connectionLost or loseConnection: no operation is issued by a connection that has '
    'been lost (the model answers such an operation with "nothing happens"), and after the bus calls loseConnection on '
    'a connection (a method call to a peer before Hello) the generated histories send nothing more from it; an '
    'exception escaping dataReceived is the connection being dropped (the harness then loses the transport)',
    'messages are well formed and consist of the header fields the DBus specification defines for their type '
    '(message.py class tables; required fields present); hostile bytes are C05.  Header fields with codes txdbus does '
    'not know, fields not defined for the message type and UNIX_FDS are dropped by the re-serialisation - recorded as '
    'an observation, such messages are outside the vocabulary of the model',
    'the decoded body the match rules and the bus methods look at (string arguments, UINT32 flags) is computed by the '
    'harness from the typed value it encoded; that parseMessage decodes exactly that is C01/C03',
    'the bus\'s own replies and signals are compared by kind (what they answer: reply serial, code / names / error name '
    'class; what they announce), not by their serial, sender (none) or text; methods of org.freedesktop.DBus that do '
    'not influence delivery (GetId, RemoveMatch, unknown methods, Peer.Ping ...) are only required to be answered once; '
    'calls the dispatcher rejects before it executes a method (unknown object / method, wrong signature) and Peer.Ping '
    'are generated without NO_REPLY_EXPECTED (objects.py answers them whatever the flag says: C10\'s subject)',
    'writes to different transports within one operation are not ordered against each other (they are not observable '
    'from outside); per transport the order is compared',
    'the thread of control is the reactor: the bus handles one complete message at a time, so an interleaving of the '
    'connections is an order of message completions plus a partition of each message into reads (C04: framing is '
    'independent of the partition)',
]

BUS = 'org.freedesktop.DBus'
BUS_PATH = '/org/freedesktop/DBus'
GOOD = ['a.b', 'c.d']
PATHS = ['/a', '/a/b', '/a/bc', '/x']
IFACES = ['x.y', 'x.z']
MEMBERS = ['M', 'N']
ERRS = {'org.freedesktop.DBus.Error.InvalidArgs': 1, 'org.freedesktop.DBus.Error.NameHasNoOwner': 2}


def cs(s):
    return c13.cs(s)


# --------------------------------------------------------------------------
# messages
def field(md, code):
    for c, v in md[4]:
        if c == code:
            return v
    return None


def args_view(md):
    """msg.body as rules and bus methods see it: [0, str] for strings (also inside a top-level variant),
    [1, n] for everything else (n = the value for UINT32)"""
    sig = field(md, 8)
    if not sig:
        return None
    out = []
    for t, w in zip(md[5], md[6]):
        if isinstance(t, str) and t in 'sog':
            out.append([0, w])
        elif t == 'v' and isinstance(w['vt'], str) and w['vt'] in 'sog':
            out.append([0, w['w']])
        elif t == 'u':
            out.append([1, w])
        else:
            out.append([1, 0])
    return [out]


def ostr(v):
    return None if v is None else [v]


def model_msg(md, body):
    le, mt, fl, ser = md[0], md[1], md[2], md[3]
    rs = field(md, 5)
    return [le, mt, fl, ser, ostr(field(md, 1)), ostr(field(md, 2)), ostr(field(md, 3)), ostr(field(md, 4)),
            None if rs is None else [rs], ostr(field(md, 6)), ostr(field(md, 7)), ostr(field(md, 8)),
            body, args_view(md), False]


def model_event(op, raws):
    if op[0] == 0:
        return [0, model_msg(op[1], raws[1])]
    if op[0] == 1:
        return [1, op[1], model_msg(op[2], raws[1])]
    return [2, op[1]]


def op_msg(op):
    return op[1] if op[0] == 0 else op[2] if op[0] == 1 else None


def build_raw(md):
    return c14_wire.build(md[0], md[1], md[2], md[3], md[4], md[5], md[6])


# --------------------------------------------------------------------------
# canonical observations
def canon_fwd_model(m):
    """a forwarded message as the model prints it (OpsC14.enc_bmsg), without the decoded-arguments view"""
    return [m[0], m[1], m[2], m[3]] + [unopt(x) for x in m[4:12]] + [bytes(m[12]), m[14]]


def unopt(x):
    if x == []:
        return None
    v = x[0]
    return bytes(v) if isinstance(v, (bytes, bytearray)) else v


def canon_fwd_wire(d):
    """the same form from the independent decoder: [le, type, flags, serial, path, iface, member, error_name,
    reply_serial, destination, sender, signature, body, reply_serial carried as INT32]; None if the header is not
    made of the defined fields with their defined types"""
    vals = {}
    signed = 0
    for code, sg, v in d['fields']:
        want = c14_wire.FIELD_TYPE.get(code)
        if want is None or code in vals or code == 9:
            return None
        if sg != want:
            if code == 5 and sg == 'i':
                signed = 1
                v = v & 0xffffffff
            else:
                return None
        vals[code] = v
    def s(code):
        v = vals.get(code)
        return None if v is None else cs(v)
    return [1 if d['le'] else 0, d['type'], d['flags'], d['serial'], s(1), s(2), s(3), s(4), vals.get(5), s(6), s(7),
            s(8), d['body'], signed]


def canon_bus_wire(raw, d):
    """the bus's own message: [1, reply_serial, kind, detail] or [2, member, [args]]"""
    vals = {c: v for c, _, v in d['fields']}
    sig = vals.get(8) or ''
    try:
        body = c17_wire.decode_body(raw, sig, top_variants=False) if sig else []
    except Exception as ex:       # noqa
        return [-1, 'undecodable body', type(ex).__name__]
    if d['type'] == 2:
        return [1, vals.get(5), 2, body]
    if d['type'] == 3:
        en = vals.get(4, '')
        return [1, vals.get(5), 3, ERRS.get(en, 3 if en.startswith('org.txdbus.PythonException') else 4)]
    if d['type'] == 4:
        return [2, vals.get(3), [bytes(x[1]) if x[0] == 3 else x for x in body]]
    return [-1, 'bus-originated message of type', d['type']]


def answer_ok(ans, item):
    """does the bus's reply `item` ([1, serial, kind, detail]) fit the model's answer?"""
    kind, det = item[2], item[3]
    if ans == [3]:
        return kind in (2, 3)
    if ans == [2]:
        return kind == 3
    if ans == [1]:
        return kind == 2 and det == []
    r = ans[1]
    if r[0] in (1, 4):
        return kind == 2 and det == [[3, bytes(r[1])]]
    if r[0] == 2:
        return kind == 2 and det == [[0, r[1]]]
    if r[0] == 3:
        return kind == 3 and det == r[1]
    if r[0] == 5:
        return kind == 2 and det == [[5, [[3, bytes(u)] for u in r[1]]]]
    return False


def signal_item(s):
    """model signal (OpsC13.ssignal) -> [2, member, args]"""
    if s[0] == 1:
        return [2, 'NameAcquired', [bytes(s[2])]]
    if s[0] == 2:
        return [2, 'NameLost', [bytes(s[2])]]
    return [2, 'NameOwnerChanged', [bytes(s[1]), bytes(s[2]), bytes(s[3])]]


def model_obs(out):
    """model step output -> ({connection: [items]}, close); items: [0, fwd] | ['reply', serial, answer] | [2, ..]"""
    per = {}
    for w in out[1]:
        c = w[0]
        if w[1] == 0:
            it = [0, canon_fwd_model(w[2])]
        elif w[1] == 1:
            it = ['reply', w[2], w[3]]
        else:
            it = signal_item(w[2])
        per.setdefault(c, []).append(it)
    return per, bool(out[2])


def same_item(mi, ii):
    if mi[0] == 'reply':
        return ii[0] == 1 and ii[1] == mi[1] and answer_ok(mi[2], ii)
    return mi == ii


def same_obs(mo, io):
    (mper, mclose), (iper, iclose) = mo, io
    if mclose != iclose or set(mper) != set(iper):
        return False
    for c in mper:
        if len(mper[c]) != len(iper[c]) or not all(same_item(a, b) for a, b in zip(mper[c], iper[c])):
            return False
    return True


# --------------------------------------------------------------------------
# the implementation side
def run_impl(im, case, raws):
    """-> list of observations ({connection: [items]}, close) per operation"""
    b = im.bus.Bus()
    fac = c13._Factory(b)
    protos = {}          # operation index of a [0] -> BusProtocol
    number = {}          # operation index of a [0] -> connection number
    by_number = {}
    live = set()
    nconn = 0
    early = {}           # operation index -> [(target op index)] fragments to deliver before it
    for j, op in enumerate(case):
        if op[0] in (0, 1) and op[-2] > 0:
            early.setdefault(max(0, j - op[-1]), []).append(j)

    def proto_for_first(j):
        p = protos.get(j)
        if p is None:
            p = im.bus.BusProtocol()
            p.factory = fac
            p.makeConnection(c13.FakeTransport())
            p.setAuthenticationSucceeded()
            protos[j] = p
        return p

    def target(j):
        op = case[j]
        if op[0] == 0:
            return proto_for_first(j)
        return by_number.get(op[1]) if op[1] in live else None

    def drain():
        per = {}
        for k, q in by_number.items():
            if not q.transport.out:
                continue
            data, q.transport.out = q.transport.out, bytearray()
            items = []
            try:
                for raw in c14_wire.split_messages(data):
                    d = c14_wire.decode(raw)
                    if any(c == 7 for c, _, _ in d['fields']):
                        f = canon_fwd_wire(d)
                        items.append([0, f] if f is not None else [-1, 'malformed forwarded header', d['fields']])
                    else:
                        items.append(canon_bus_wire(raw, d))
            except Exception as ex:
                items.append([-1, 'undecodable bytes written', type(ex).__name__])
            per[k] = items
        return per

    obs = []
    for i, op in enumerate(case):
        # the first fragments of later messages that arrive now
        for j in early.get(i, []):
            p = target(j)
            if p is not None:
                p.dataReceived(raws[j][0][:case[j][-2]])
        if op[0] == 2:
            c = op[1]
            if c in live:
                live.discard(c)
                exc = None
                try:
                    by_number[c].connectionLost(im.lost)
                except Exception as ex:         # the bus's clean-up after a lost connection raised: part of the observation
                    exc = type(ex).__name__
                per = drain()
                if exc is not None:
                    per.setdefault('exception', []).append(exc)
                obs.append((per, False))
                continue
            obs.append((drain(), False))
            continue
        p = target(i)
        if p is None:
            obs.append(({}, False))
            continue
        if op[0] == 0:
            nconn += 1
            number[i] = nconn
            by_number[nconn] = p
            live.add(nconn)
            c = nconn
        else:
            c = op[1]
        raw = raws[i][0]
        cut = op[-2]
        was = p.transport.disconnecting
        exc = None
        try:
            p.dataReceived(raw[cut:] if cut > 0 else raw)
        except Exception as ex:
            exc = type(ex).__name__
        close = (p.transport.disconnecting and not was) or exc is not None
        per = drain()
        if exc is not None:
            # Twisted drops a connection whose dataReceived raised
            per.setdefault('exception', []).append(exc)
        obs.append((per, close))
    return obs


def quiet_twisted():
    """errors of calls that expect no reply end in a Deferred nobody listens to; Twisted would print them"""
    from twisted.logger import globalLogBeginner
    try:
        globalLogBeginner.beginLoggingTo([lambda e: None], redirectStandardIO=False, discardBuffer=True)
    except Exception:
        pass


def _impl_chunk(args):
    repo, chunk = args
    common.setup_repo_path(repo)
    quiet_twisted()
    im = c13.Impl()
    return [run_impl(im, c, r) for c, r in chunk]


def run_impl_all(ctx, cases, raws):
    pairs = list(zip(cases, raws))
    if len(cases) < 1500:
        quiet_twisted()
        im = c13.Impl()
        return [run_impl(im, c, r) for c, r in pairs]
    import multiprocessing
    nproc = 6
    size = (len(pairs) + nproc * 4 - 1) // (nproc * 4)
    chunks = [pairs[i:i + size] for i in range(0, len(pairs), size)]
    with multiprocessing.get_context('fork').Pool(nproc) as pool:
        parts = pool.map(_impl_chunk, [(ctx.repo, ch) for ch in chunks], chunksize=1)
    return [o for part in parts for o in part]


# --------------------------------------------------------------------------
# oracle: implementation vs specification
def spec_per(owed):
    per = {}
    for c, m in owed:
        per.setdefault(c, []).append(canon_fwd_model(m))
    return per


def impl_fwd_per(per):
    out = {}
    for c, items in per.items():
        if c == 'exception':
            continue
        f = [it[1] for it in items if it[0] == 0]
        if f:
            out[c] = f
    return out


FIELDS = ['byte order', 'type', 'flags', 'serial', 'path', 'interface', 'member', 'error_name', 'reply_serial',
          'destination', 'sender', 'signature', 'body', 'reply_serial type']


def classify(case, i, live, iper, sper, md):
    """-> (why, signature) for a step whose forwarded messages differ from what the specification owes"""
    op = case[i]
    dest = field(md, 6) if md is not None else None
    bad = [it for items in iper.values() if not isinstance(items, str) for it in items
           if isinstance(it, list) and it and it[0] == -1]
    ifw = impl_fwd_per(iper)
    where = 'step %d %r' % (i, short(op))
    dead = [c for c in ifw if c not in live]
    if dead:
        return ('%s: delivered to connection(s) %r that are gone' % (where, dead), 'deliver:dead-connection')
    if set(ifw) != set(sper) or any(len(ifw[c]) != len(sper[c]) for c in sper):
        got = {c: len(v) for c, v in ifw.items()}
        want = {c: len(v) for c, v in sper.items()}
        if dest == BUS:
            sig = 'bus-addressed:forwarded'
        elif dest:
            if all(got.get(c, 0) >= n for c, n in want.items()):
                sig = 'unicast:also-routed-by-rules'
            elif not ifw and 'exception' in iper:
                sig = 'forward:exception-message-lost'
            else:
                sig = 'unicast:wrong-receiver'
        else:
            sig = 'broadcast:wrong-receivers'
        return ('%s: copies delivered %r, owed %r' % (where, got, want), sig)
    for c in sper:
        for a, s in zip(ifw[c], sper[c]):
            if a != s:
                diff = [FIELDS[k] for k in range(len(s)) if a[k] != s[k]]
                if 'sender' in diff:
                    sig = 'sender:not-the-true-unique-name'
                elif diff == ['body'] or diff == ['byte order', 'body']:
                    sig = 'forward:byte-order-changed' if 'byte order' in diff and not has_variant(md) \
                        else 'forward:variant-payload-retyped' if has_variant(md) else 'forward:body-changed'
                elif diff == ['byte order']:
                    sig = 'forward:byte-order-changed'
                elif 'reply_serial type' in diff:
                    sig = 'forward:reply-serial-retyped'
                elif diff == ['flags']:
                    sig = 'forward:flags-changed'
                else:
                    sig = 'forward:changed:' + '+'.join(diff)
                return ('%s: message to connection %d differs in %r: got %r, owed %r' % (where, c, diff, a, s), sig)
    if bad:
        return ('%s: %r' % (where, bad[0]), 'forward:malformed')
    return None


def has_variant(md):
    def hv(t):
        if isinstance(t, str):
            return t == 'v'
        if t[0] == 'a':
            return hv(t[1])
        if t[0] == '(':
            return any(hv(x) for x in t[1])
        return hv(t[1]) or hv(t[2])
    return md is not None and any(hv(t) for t in md[5])


def short(op):
    m = op_msg(op)
    if m is None:
        return op
    return [op[0]] + ([op[1]] if op[0] == 1 else []) + [m[1], m[3], m[4], mc_sig(m)]


def mc_sig(m):
    return ''.join(mc.show(t) for t in m[5])


class PerSignature(c13.PerSignature):
    pass


def evaluate(ctx, cases, res):
    cases = [norm_case(c) for c in cases]
    raws = [[build_raw(op_msg(op)) if op[0] != 2 else None for op in c] for c in cases]
    lines = ['(14 %s)' % common.dump([model_event(op, r) for op, r in zip(c, rw)]) for c, rw in zip(cases, raws)]
    outs = common.run_model(lines)
    # the independent encoder against the extracted specification encoder (Spec/WireSpec.v), on every body
    xl, xb = [], []
    for c, rw in zip(cases, raws):
        for op, r in zip(c, rw):
            md = op_msg(op)
            if md is not None and md[5]:
                xl.append('(2 1 %s %s 0 %s)' % (common.dump([mc.t_sexp(t) for t in md[5]]),
                                                 common.dump([mc.w_sexp(t, w) for t, w in zip(md[5], md[6])]),
                                                 common.dump(bool(md[0]))))
                xb.append(r[1])
    if xl:
        step = max(1, len(xl) // 3000)
        sel = list(range(0, len(xl), step))
        for k, o in zip(sel, common.run_model([xl[k] for k in sel])):
            if bytes(o) != xb[k]:
                raise RuntimeError('harness encoder differs from WireSpec on %s' % xl[k])
        res.extra['bodies_cross_checked_against_WireSpec'] = res.extra.get('bodies_cross_checked_against_WireSpec', 0) + len(sel)
    impl_obs = run_impl_all(ctx, cases, raws)
    vres = PerSignature(res)
    dist = res.extra.setdefault('input_distribution', {'ops': {}, 'types': {}, 'destinations': {}, 'big_endian': 0,
                                                       'with_variant': 0, 'forged_sender': 0, 'split_reads': 0,
                                                       'forwarded_copies': 0, 'bus_writes': 0})
    legacy = res.extra.setdefault('legacy_variants_distinguished',
                                  {'pre-repair model differs (D24/D25/D50/D53)': 0})
    for c, o, io in zip(cases, outs, impl_obs):
        if o == [-1]:
            raise RuntimeError('model rejected input %r' % (c,))
        mo = [model_obs(x) for x in o[0]]
        lo = [model_obs(x) for x in o[1]]
        so = [spec_per(x) for x in o[2]]
        res.traces += 1
        nfw = sum(1 for per, _ in io for k, v in per.items() if k != 'exception' for it in v if it[0] == 0)
        res.count(c, nontrivial=nfw >= 2)
        stats(dist, c, io)
        if [(p, cl) for p, cl in lo] != [(p, cl) for p, cl in mo]:
            legacy['pre-repair model differs (D24/D25/D50/D53)'] += 1
        # correspondence: model == implementation, step by step
        agree = True
        for i, (a, m) in enumerate(zip(io, mo)):
            if not same_obs(m, a):
                agree = False
                res.disagree(c, ['step', i, short(c[i]), show_obs(a)], ['step', i, show_obs(m)])
                break
        if not agree and all(same_obs(m, a) for a, m in zip(io, lo)):
            res.extra['implementation_behaves_as_pre_repair_model'] = \
                res.extra.get('implementation_behaves_as_pre_repair_model', 0) + 1
        # oracle: implementation vs specification
        live, n = set(), 0
        for i, (op, a, s) in enumerate(zip(c, io, so)):
            iper, _ = a
            if op[0] == 0:
                n += 1
                live.add(n)
                origin = n
            elif op[0] == 1:
                origin = op[1] if op[1] in live else None
            else:
                live.discard(op[1])
                origin = None
            md = op_msg(op)
            r = classify(c, i, live, iper, s, md)
            if r is not None:
                vres.violate(c, r[0], r[1])
                break
            if origin is not None and md[1] == 1 and field(md, 6) == BUS and not (md[2] & 1):
                reps = [(k, it) for k, items in iper.items() if k != 'exception' for it in items
                        if it[0] == 1]
                if len(reps) != 1 or reps[0][0] != origin or reps[0][1][1] != md[3]:
                    vres.violate(c, 'step %d %r: a call to the bus expecting a reply got %r' % (i, short(op), reps),
                                 'bus-call:not-answered-exactly-once')
                    break
            if 'exception' in iper:
                vres.violate(c, 'step %d %r: %s escaped the bus' % (i, short(op), iper['exception']),
                             'exception-escaped')
                break
    for c in cases[:2] + [x for x in cases[len(cases) // 2:] if len(x) <= 12][:1] + cases[-1:]:
        res.sample(c)


def show_obs(o):
    per, close = o
    return [sorted(((k, v) for k, v in per.items()), key=repr), close]


def stats(dist, c, io):
    for op, (per, _) in zip(c, io):
        k = {0: 'first', 1: 'send', 2: 'disconnect'}[op[0]]
        dist['ops'][k] = dist['ops'].get(k, 0) + 1
        md = op_msg(op)
        if md is not None:
            dist['types'][str(md[1])] = dist['types'].get(str(md[1]), 0) + 1
            d = field(md, 6)
            dk = 'none' if d is None else 'bus' if d == BUS else 'unique' if d.startswith(':') else 'well-known'
            dist['destinations'][dk] = dist['destinations'].get(dk, 0) + 1
            dist['big_endian'] += 0 if md[0] else 1
            dist['with_variant'] += 1 if has_variant(md) else 0
            dist['forged_sender'] += 1 if field(md, 7) is not None else 0
            dist['split_reads'] += 1 if op[-2] > 0 else 0
        for key, items in per.items():
            if key == 'exception':
                continue
            for it in items:
                if it[0] == 0:
                    dist['forwarded_copies'] += 1
                else:
                    dist['bus_writes'] += 1


def norm_case(c):
    """JSON round trip safe form (tuples -> lists)"""
    def n(x):
        if isinstance(x, (list, tuple)):
            return [n(e) for e in x]
        if isinstance(x, dict):
            return {k: n(v) for k, v in x.items()}
        return x
    return n(c)


# --------------------------------------------------------------------------
# generators
class Gen:
    def __init__(self, rng):
        self.rng = rng

    def body(self, allow_variant=True):
        rng = self.rng
        r = rng.random()
        if r < 0.25:
            return [], []
        if r < 0.55:
            ts = [rng.choice(['s', 's', 'u', 'o', 'i', 'g'])for _ in range(rng.choice([1, 1, 2, 3]))]
        else:
            ts = [mc.gen_type(rng, 2, allow_variant=allow_variant) for _ in range(rng.choice([1, 1, 2]))]
        ws = []
        for t in ts:
            if t == 's' and rng.random() < 0.6:
                ws.append(rng.choice(['hi', '/a/b', '/a/', 'x.y', 'a.b', '7']))
            elif t in ('u', 'i') and rng.random() < 0.5:
                ws.append(7)       # prints like the rule value '7': an argN rule must not match a non-string argument
            else:
                ws.append(mc.gen_w(rng, t, 2))
        return ts, ws

    def header(self, mtype, dest, sender, ts, serial=None, flags=None, le=None, path=None, iface=None, member=None):
        rng = self.rng
        f = []
        if mtype in (1, 4):
            f.append([1, path or rng.choice(PATHS)])
            if mtype == 4 or iface is not None or rng.random() < 0.7:
                f.append([2, iface or rng.choice(IFACES)])
            f.append([3, member or rng.choice(MEMBERS)])
        if mtype == 3:
            f.append([4, rng.choice(['a.b.Err', 'org.freedesktop.DBus.Error.Failed'])])
        if mtype in (2, 3):
            f.append([5, rng.choice([1, 7, 2 ** 31 - 1, 2 ** 31, 2 ** 32 - 1, rng.randrange(1, 2 ** 32)])])
        if dest is not None:
            f.append([6, dest])
        if sender is not None:
            f.append([7, sender])
        if ts:
            f.append([8, ''.join(mc.show(t) for t in ts)])
        elif rng.random() < 0.1:
            f.append([8, ''])
        if rng.random() < 0.3:
            rng.shuffle(f)
        if flags is None:
            flags = rng.choice([0, 0, 0, 1, 2, 3]) if rng.random() < 0.93 else rng.choice([4, 5, 6, 7])
        if serial is None:
            serial = rng.choice([1, 2, 2 ** 32 - 1, rng.randrange(1, 2 ** 32)]) if rng.random() < 0.3 \
                else rng.randrange(1, 1000)
        if le is None:
            le = rng.random() < 0.7
        return le, flags, serial, f

    def peer_msg(self, dest, sender=None, mtype=None):
        rng = self.rng
        mtype = mtype or rng.choice([1, 2, 3, 4, 4])
        ts, ws = self.body()
        le, flags, serial, f = self.header(mtype, dest, sender, ts)
        if mtype == 1 and dest == BUS:
            flags &= ~1       # rejected by the dispatcher: answered whatever the flag says (C10's subject)
        return [le, mtype, flags, serial, f, ts, ws]

    def bus_call(self, member, ts, ws, flags=None, path=BUS_PATH, iface=BUS, sender=None):
        rng = self.rng
        if flags is None:
            flags = 0 if rng.random() < 0.9 else rng.choice([1, 2, 3])
        le, flags, serial, f = self.header(1, BUS, sender, ts, flags=flags, path=path, iface=iface, member=member)
        if iface == BUS and rng.random() < 0.15:
            f = [x for x in f if x[0] != 2]          # the method is then found by its name
        return [le, 1, flags, serial, f, ts, ws]

    def rule_text(self):
        rng = self.rng
        r = rng.random()
        if r < 0.06:
            return rng.choice(['garbage', "type='bogus'", "a=b=c", "arg1x='q'", ''])
        items = []
        if rng.random() < 0.6:
            items.append("type='%s'" % rng.choice(['signal', 'signal', 'signal', 'signal', 'method_call', 'method_return',
                                                   'error']))
        if rng.random() < 0.25:
            items.append("interface='%s'" % rng.choice(IFACES + [BUS]))
        if rng.random() < 0.25:
            items.append("member='%s'" % rng.choice(MEMBERS + ['NameOwnerChanged']))
        if rng.random() < 0.2:
            items.append("path='%s'" % rng.choice(PATHS))
        if rng.random() < 0.2:
            items.append("path_namespace='%s'" % rng.choice(['/a', '/a/b', '/']))
        if rng.random() < 0.1:
            items.append("destination='%s'" % rng.choice([':1.2', 'a.b']))
        if rng.random() < 0.1:
            items.append("sender='%s'" % rng.choice([':1.2', 'a.b']))
        if rng.random() < 0.15:
            items.append("arg0='%s'" % rng.choice(['hi', 'a.b', '/a/b', '7']))
        if rng.random() < 0.1:
            items.append("arg%dpath='%s'" % (rng.choice([0, 1]), rng.choice(['/a/', '/a/b'])))
        if not items:
            items.append("type='signal'")
        rng.shuffle(items)
        return ','.join(items)


def gen_history(rng, length, maxlive=4):
    g = Gen(rng)
    h = []
    live, helloed, doomed = [], set(), set()
    nconn = 0
    names = list(GOOD)

    def dest_choice():
        r = rng.random()
        if r < 0.35 and live:
            return ':1.%d' % rng.choice(live)
        if r < 0.45:
            return ':1.%d' % rng.randrange(1, nconn + 2)
        if r < 0.85:
            return rng.choice(names)
        if r < 0.92:
            return rng.choice(['no.such', ':1.99', 'c.d.e'])
        return BUS

    def sender_choice(c):
        r = rng.random()
        if r < 0.4:
            return None
        if r < 0.7:
            return ':1.%d' % rng.randrange(1, nconn + 2)
        if r < 0.8:
            return ':1.%d' % c
        return rng.choice([BUS, 'a.b', ':1.999'])

    def any_msg(c, first):
        r = rng.random()
        if first and r < 0.85:
            return g.bus_call('Hello', [], [])
        if r < 0.03:
            return g.bus_call('Hello', [], [])
        if r < 0.15:
            return g.bus_call('RequestName', ['s', 'u'], [rng.choice(names + ['', BUS, ':1.2']) if rng.random() < 0.1
                                                           else rng.choice(names), rng.randrange(8)],
                              sender=sender_choice(c))
        if r < 0.18:
            return g.bus_call('ReleaseName', ['s'], [rng.choice(names)])
        if r < 0.20:
            return g.bus_call(rng.choice(['GetNameOwner', 'ListQueuedOwners']), ['s'],
                              [rng.choice(names + [':1.1', ':1.2'])])
        if r < 0.30:
            return g.bus_call('AddMatch', ['s'], [g.rule_text()])
        if r < 0.33:
            k = rng.randrange(6)
            if k == 0:
                return g.bus_call('GetId', [], [])
            if k == 1:
                return g.bus_call('RemoveMatch', ['s'], ["type='signal'"])
            fl = rng.choice([0, 0, 2])
            if k == 2:
                return g.bus_call('Nope', [], [], flags=fl)
            if k == 3:
                return g.bus_call('Ping', [], [], path='/', iface='org.freedesktop.DBus.Peer', flags=fl)
            if k == 4:
                return g.bus_call('RequestName', ['s'], ['a.b'], flags=fl)          # wrong signature
            return g.bus_call('RequestName', ['s', 'u'], ['a.b', 0], path='/not/the/bus', flags=fl)
        if r < 0.37:
            # something else addressed to the bus: a signal, a return, an error
            return g.peer_msg(BUS, sender_choice(c), mtype=rng.choice([2, 3, 4]))
        if r < 0.60:
            # a broadcast (mostly signals)
            return g.peer_msg(None, sender_choice(c), mtype=4 if rng.random() < 0.85 else rng.choice([1, 2, 3]))
        return g.peer_msg(dest_choice(), sender_choice(c))

    def cutpre(md):
        if rng.random() < 0.3:
            n = len(build_raw(md)[0])
            return rng.randrange(1, n), rng.choice([0, 0, 1, 2, 3])
        return 0, 0

    last_op_of = {}      # connection -> index of its last operation
    while len(h) < length:
        r = rng.random()
        if doomed:
            c = doomed.pop()
            if c in live:
                live.remove(c)
                h.append([2, c])
                continue
        if (not live or r < 0.08) and len(live) < maxlive and nconn < 9:
            md = any_msg(nconn + 1, True)
            cut, pre = cutpre(md)
            nconn += 1
            c = nconn
            live.append(c)
            h.append([0, md, cut, min(pre, len(h))])
            last_op_of[c] = len(h) - 1
        elif r < 0.14 and live:
            c = rng.choice(live)
            live.remove(c)
            h.append([2, c])
            continue
        else:
            c = rng.choice(live)
            md = any_msg(c, False)
            cut, pre = cutpre(md)
            pre = min(pre, len(h) - 1 - last_op_of[c])
            h.append([1, c, md, cut, max(0, pre)])
            last_op_of[c] = len(h) - 1
        # the bus's view of Hello
        if md[1] == 1:
            if c not in helloed:
                if field(md, 6) == BUS:
                    if field(md, 3) == 'Hello':
                        helloed.add(c)
                else:
                    if rng.random() < 0.9:
                        doomed.add(c)        # the bus asked the transport to close: it is lost next
                    else:
                        live.remove(c)       # ... or never heard of again, without connectionLost
    return h


def gen_random(ctx, n, length):
    return [gen_history(ctx.rng, length) for _ in range(n)]


def hello():
    return [True, 1, 0, 1, [[1, BUS_PATH], [2, BUS], [3, 'Hello'], [6, BUS]], [], []]


def call(member, ts, ws, serial=5, flags=0):
    f = [[1, BUS_PATH], [2, BUS], [3, member], [6, BUS]]
    if ts:
        f.append([8, ''.join(mc.show(t) for t in ts)])
    return [True, 1, flags, serial, f, ts, ws]


def sig(dest, serial=9, sender=None, ts=(), ws=(), le=True, path='/a', iface='x.y', member='M', flags=0):
    f = [[1, path], [2, iface], [3, member]]
    if dest is not None:
        f.append([6, dest])
    if sender is not None:
        f.append([7, sender])
    if ts:
        f.append([8, ''.join(mc.show(t) for t in ts)])
    return [le, 4, flags, serial, f, list(ts), list(ws)]


def gen_directed():
    """the witnesses of D24, D25, D50, D53 and the corner cases named in the design"""
    H3 = [[0, hello(), 0, 0], [0, hello(), 0, 0], [0, hello(), 0, 0]]
    add = lambda c, text: [1, c, call('AddMatch', ['s'], [text], serial=20 + c), 0, 0]
    hs = [
        # D24: a third connection with a matching rule gets a copy of a unicast signal; the destination gets two
        H3 + [add(3, "type='signal'"), [1, 1, sig(':1.2', sender=':1.3'), 0, 0],
              add(2, "interface='x.y'"), [1, 1, sig(':1.2'), 0, 0]],
        # a signal / return addressed to the bus is not handed to a rule holder
        H3 + [add(3, "interface='x.y'"), [1, 1, sig(BUS), 0, 0],
              [1, 1, [True, 2, 0, 4, [[5, 1], [6, BUS]], [], []], 0, 0],
              [1, 1, call('GetNameOwner', ['s'], ['a.b']), 0, 0]],
        # D25: variant payload types, byte order, reply_serial
        H3 + [[1, 1, sig(':1.2', ts=['v'], ws=[{'vt': 'u', 'w': 7}]), 0, 0],
              [1, 1, sig(':1.2', ts=['v'], ws=[{'vt': ['(', ['i', 's']], 'w': [1, 'x']}]), 0, 0],
              [1, 1, sig(':1.2', ts=['s', 'u'], ws=['hi', 7], le=False), 0, 0],
              [1, 1, [True, 2, 0, 4, [[5, 7], [6, ':1.2']], ['u'], [3]], 0, 0],
              [1, 1, [False, 3, 0, 4, [[4, 'a.b.E'], [5, 2 ** 31 + 5], [6, ':1.2']], [], []], 0, 0],
              [1, 1, sig(':1.2', ts=['v'], ws=[{'vt': ['a', 's'], 'w': []}]), 0, 0]],
        # D53: flag bits the bus does not interpret
        H3 + [[1, 1, sig(':1.2', flags=4), 0, 0], [1, 1, sig(':1.2', flags=7), 0, 0]],
        # D50: the rules of a connection that is gone
        H3 + [add(3, "type='signal'"), [2, 3], [1, 1, sig(None), 0, 0], [0, hello(), 0, 0], [1, 1, sig(None), 0, 0]],
        # well-known destinations follow the owner
        H3 + [[1, 2, call('RequestName', ['s', 'u'], ['a.b', 1]), 0, 0], [1, 1, sig('a.b'), 0, 0],
              [1, 3, call('RequestName', ['s', 'u'], ['a.b', 2]), 0, 0], [1, 1, sig('a.b', serial=10), 0, 0],
              [2, 3], [1, 1, sig('a.b', serial=11), 0, 0], [1, 1, sig(':1.3', serial=12), 0, 0]],
        # before Hello: names are given at the first message; a call to a peer closes the connection
        [[0, sig(None), 0, 0], [0, call('RequestName', ['s', 'u'], ['a.b', 0]), 0, 0],
         [0, [True, 1, 0, 3, [[1, '/x'], [3, 'Foo'], [6, ':1.2']], [], []], 0, 0], [2, 3],
         [1, 1, hello(), 0, 0], [1, 1, hello(), 0, 0], [1, 1, sig('a.b'), 0, 0]],
        # a client owning org.freedesktop.DBus still does not get the bus's mail
        H3 + [[1, 2, call('RequestName', ['s', 'u'], [BUS, 0]), 0, 0], [1, 1, sig(BUS), 0, 0],
              [1, 1, call('GetNameOwner', ['s'], [BUS]), 0, 0]],
        # calls without destination, unknown destinations
        H3 + [add(3, "type='method_call'"), [1, 1, [True, 1, 0, 3, [[1, '/x'], [3, 'Foo']], [], []], 0, 0],
              [1, 1, [True, 1, 0, 3, [[1, '/x'], [3, 'Foo'], [6, ':1.77']], [], []], 0, 0],
              [1, 1, [True, 1, 0, 3, [[1, '/x'], [3, 'Foo'], [6, 'no.such']], [], []], 0, 0]],
        # two rules of one connection, NameOwnerChanged to rule holders
        H3 + [add(3, "type='signal'"), add(3, "member='M'"), add(2, "member='NameOwnerChanged'"),
              [1, 1, sig(None), 0, 0], [1, 1, call('RequestName', ['s', 'u'], ['a.b', 0]), 0, 0]],
    ]
    return hs


def gen_interleavings(rng, quick):
    """small scenarios under every order of message completion: two senders with a sequence of numbered messages
    each (unicast to the same destination by unique and by well-known name, and broadcasts caught by a rule), all
    merges of the two sequences, with and without split reads"""
    import itertools
    base = [[0, hello(), 0, 0], [0, hello(), 0, 0], [0, hello(), 0, 0],
            [1, 3, call('RequestName', ['s', 'u'], ['a.b', 0]), 0, 0],
            [1, 3, call('AddMatch', ['s'], ["type='signal',member='N'"]), 0, 0]]
    out = []
    na, nb = (3, 2) if quick else (3, 3)
    kinds = [':1.3', 'a.b', None]
    for variant in range(3 if quick else 6):
        seq_a = [[1, 1, sig(kinds[(k + variant) % 3], serial=100 + k, member='N', sender=':1.2'), 0, 0] for k in range(na)]
        seq_b = [[1, 2, sig(kinds[(k + 2 * variant) % 3], serial=200 + k, member='N', le=(k % 2 == 0)), 0, 0]
                 for k in range(nb)]
        for pos in itertools.combinations(range(na + nb), na):
            ia, ib = iter(seq_a), iter(seq_b)
            h = [list(next(ia)) if k in pos else list(next(ib)) for k in range(na + nb)]
            out.append(base + h)
            # the same with every message's first bytes arriving before the previous operation
            hh = []
            last = {}
            for k, op in enumerate(h):
                op = list(op)
                prev = last.get(op[1], -1)
                op[-2] = 1 + (7 * k + variant) % 40
                op[-1] = min(2, k - prev - 1)
                last[op[1]] = k
                hh.append(op)
            out.append(base + hh)
    return out


def observe_outside_vocabulary(res):
    """recorded, never a verdict: what the re-serialisation does to header fields outside the class table of the
    message's type (a field code txdbus does not know; ERROR_NAME on a signal)"""
    from harness import c04_msgs
    quiet_twisted()
    im = c13.Impl()
    b = im.bus.Bus()
    fac = c13._Factory(b)
    ps = []
    for _ in range(2):
        p = im.bus.BusProtocol()
        p.factory = fac
        p.makeConnection(c13.FakeTransport())
        p.setAuthenticationSucceeded()
        p.dataReceived(build_raw(hello())[0])
        p.transport.out = bytearray()
        ps.append(p)
    obs = {}
    try:
        ps[0].dataReceived(c04_msgs.build(True, 4, 0, 5, [[1, 'o', '/a'], [2, 's', 'x.y'], [3, 's', 'M'], [6, 's', ':1.2'],
                                                         [20, 's', 'zzz'], [4, 's', 'a.b']], '', []))
        got = [c14_wire.decode(r) for r in c14_wire.split_messages(ps[1].transport.out)]
        codes = [c for c, _, _ in got[0]['fields']] if got else None
        obs['signal_with_unknown_field_20_and_error_name'] = {'delivered_field_codes': codes}
    except Exception as ex:
        obs['signal_with_unknown_field_20_and_error_name'] = {'exception': type(ex).__name__}
    res.extra['observations_outside_the_vocabulary'] = obs


def run(ctx, res):
    observe_outside_vocabulary(res)
    res.rule = ('histories of connections (each introduced by its first message: Hello, or anything else), '
                'disconnects, RequestName / ReleaseName / AddMatch and other bus calls, unicast messages of all four '
                'types to unique and well-known names (live, dead, unknown), messages addressed to the bus, broadcasts, '
                'with forged sender fields, bodies from the C01 generators (variants, containers), both byte orders, '
                'all flag bytes 0..7, extreme serials; on the REAL Bus through raw bytes from an independent encoder, '
                'reads split inside messages and interleaved between connections; every small scenario of two senders '
                'under all merges of their sequences.  Non-trivial: at least two forwarded copies delivered.')
    cases = gen_directed()
    cases += gen_interleavings(ctx.rng, ctx.quick)
    cases += gen_random(ctx, ctx.n(1000, 20000), 28)
    res.exhaustive = True
    step = 5000
    for i in range(0, len(cases), step):
        evaluate(ctx, cases[i:i + step], res)
